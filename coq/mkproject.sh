#!/bin/sh
# regenerates _CoqProject (and the Makefile when the file list changed) from the files present
cd "$(dirname "$0")"
{ echo "-R theories SQ"
  echo "-arg -w -arg -notation-overridden,-deprecated-hint-without-locality,-deprecated-instance-without-locality"
  ls theories/*.v theories/Properties/*.v theories/Generated/*.v 2>/dev/null | LC_ALL=C sort; } > _CoqProject.new
if ! cmp -s _CoqProject.new _CoqProject || [ ! -f Makefile ]; then
  mv _CoqProject.new _CoqProject
  coq_makefile -f _CoqProject -o Makefile >/dev/null
else
  rm _CoqProject.new
fi
