(* Facts about traces of the memoizer's transition system (Conc.v): the digit source is consulted only by the
   producer, at consecutive positions, one call at a time, and never again after it has signalled the end. *)
From Coq Require Import Arith List Lia Bool.
Require Import Conc.
Import ListNotations.

Section Trace.
Variable B K : nat.
Hypothesis Bpos : 0 < B.
Variable valid : nat -> bool.

Notation st := Conc.st.
Notation step := (Conc.step B K valid).

Inductive steps : st -> list label -> st -> Prop :=
| steps_nil s : steps s [] s
| steps_cons s l s1 tr s2 : step s l s1 -> steps s1 tr s2 -> steps s (l :: tr) s2.

Lemma steps_reach s tr s' : reach B K valid s -> steps s tr s' -> reach B K valid s'.
Proof. intros Hr H. induction H; auto. apply IHsteps. econstructor; eauto. Qed.

(* a source call is a step of the producer inside its compute loop; it consults position plocal *)
Lemma iter_step s ok s' : step s (LIter ok) s' ->
  (exists i j, ppc s = PComp i j /\ j < B) /\ ok = valid (plocal s) /\
  plocal s' = (if ok then S (plocal s) else plocal s) /\ lock s' = lock s /\ rpc s' = rpc s.
Proof.
  intros H. inversion H; subst; cbn.
  - split; [eauto|]. repeat split; auto.
  - split; [eauto|]. repeat split; auto.
Qed.

(* the number of successful source calls in a trace is exactly the growth of plocal: positions are consulted
   in order, each once *)
Fixpoint iters (tr : list label) : nat :=
  match tr with [] => 0 | LIter true :: r => S (iters r) | _ :: r => iters r end.

Lemma plocal_other s l s' : step s l s' -> (forall ok, l <> LIter ok) -> plocal s' = plocal s.
Proof. intros H Hn. inversion H; subst; cbn; auto; exfalso; eapply Hn; reflexivity. Qed.

Theorem calls_in_order s tr s' : steps s tr s' -> plocal s' = plocal s + iters tr.
Proof.
  induction 1 as [|s l s1 tr s2 Hs Hr IH]; [cbn; lia|].
  rewrite IH. destruct l; try (rewrite (plocal_other _ _ _ Hs) by discriminate; cbn; lia).
  destruct (iter_step _ _ _ Hs) as (_ & _ & Hp & _). rewrite Hp. destruct ok; cbn; lia.
Qed.

(* after the end has been seen (or the chunk budget is exhausted) the source is never consulted again *)
Definition ended (s : st) : Prop :=
  match ppc s with PPubWant true _ | PPub true _ | PPubU true _ | PExit => True | _ => False end.

Lemma ended_wake p : match wake_p p with PPubWant true _ | PPub true _ | PPubU true _ | PExit => True | _ => False end
                     <-> match p with PPubWant true _ | PPub true _ | PPubU true _ | PExit => True | _ => False end.
Proof. destruct p; cbn; tauto. Qed.

Lemma ended_step s l s' : ended s -> step s l s' -> ended s' /\ (forall ok, l <> LIter ok).
Proof.
  unfold ended. intros He H.
  inversion H; subst; cbn [ppc];
    repeat match goal with E : ppc s = _ |- _ => rewrite E in He; clear E end;
    try contradiction;
    try (split; [|intros; discriminate]);
    try exact He; try exact I;
    try (apply ended_wake; exact He);
    try (match goal with |- context [if ?f then _ else _] => destruct f end; try exact I; try contradiction);
    try (match goal with H0 : match ?f with true => _ | false => _ end |- _ => destruct f; try exact I; try contradiction end).
Qed.

Lemma end_marker_ends s s' : step s (LIter false) s' -> ended s'.
Proof. intros H. inversion H; subst. unfold ended. cbn. exact I. Qed.

Theorem no_call_after_end s tr s' : ended s -> steps s tr s' -> iters tr = 0 /\ Forall (fun l => forall ok, l <> LIter ok) tr.
Proof.
  intros He H. induction H as [|s l s1 tr s2 Hs Hr IH]; [split; [reflexivity|constructor]|].
  destruct (ended_step _ _ _ He Hs) as (He1 & Hn). destruct (IH He1) as (I1 & I2).
  split; [|constructor; auto]. destruct l; cbn; auto. destruct ok; auto. exfalso. apply (Hn true). reflexivity.
Qed.
End Trace.

(* the read-ahead bound in the property's terms *)
Theorem readahead_bound B K valid s i : 0 < B <= 1000 -> reach B K valid s -> imax s <= i + 1 -> plocal s <= i + 1 + 1000.
Proof. intros HB Hr Hi. destruct (readahead B K (proj1 HB) valid s Hr) as (H & _). lia. Qed.
