(* The decimal labels of the printed tables denote the positions they stand for (fmt "%Nd" model of PrintModel.v). *)
From Coq Require Import ZArith List Lia Bool.
Require Import PrintModel.
Import ListNotations.
Open Scope Z_scope.

(* value of a string of decimal digit code points, most significant first *)
Definition codes_value (l : list Z) : Z := fold_left (fun a c => 10 * a + (c - 48)) l 0.

Lemma fold_value_app l1 l2 a :
  fold_left (fun a c => 10 * a + (c - 48)) (l1 ++ l2) a = fold_left (fun a c => 10 * a + (c - 48)) l2 (fold_left (fun a c => 10 * a + (c - 48)) l1 a).
Proof. apply fold_left_app. Qed.

(* dec_rev yields the digits least significant first: value of the reversed list is n *)
Lemma dec_rev_value : forall fuel n, 0 <= n -> n < 10 ^ Z.of_nat fuel ->
  codes_value (rev (dec_rev fuel n)) = n /\ Forall (fun c => 48 <= c <= 57) (dec_rev fuel n).
Proof.
  induction fuel as [|f IH]; intros n Hn Hlt.
  - cbn in *. assert (n = 0) by lia. subst. split; [reflexivity|constructor].
  - cbn [dec_rev]. destruct (Z.leb_spec n 0).
    + assert (n = 0) by lia. subst. split; [reflexivity|constructor].
    + rewrite Nat2Z.inj_succ, Z.pow_succ_r in Hlt by lia.
      assert (Hq : 0 <= n / 10) by (apply Z.div_pos; lia).
      assert (Hql : n / 10 < 10 ^ Z.of_nat f) by (apply Z.div_lt_upper_bound; lia).
      destruct (IH (n / 10) Hq Hql) as (Hv & Hr).
      pose proof (Z.mod_pos_bound n 10 ltac:(lia)) as Hm.
      split.
      * cbn [rev]. unfold codes_value. rewrite fold_value_app. fold (codes_value (rev (dec_rev f (n / 10)))).
        rewrite Hv. cbn [fold_left]. pose proof (Z.div_mod n 10 ltac:(lia)). lia.
      * constructor; [lia|exact Hr].
Qed.

Theorem dec_value n : 0 <= n < 10 ^ 80 -> codes_value (dec n) = n /\ Forall (fun c => 48 <= c <= 57) (dec n).
Proof.
  intros (H0 & H1). unfold dec. destruct (Z.leb_spec n 0).
  - assert (n = 0) by lia. subst. split; [reflexivity|repeat constructor; lia].
  - destruct (dec_rev_value 80 n H0 H1) as (Hv & Hr). split; [exact Hv|]. apply Forall_rev. exact Hr.
Qed.

(* "%Nd": right aligned, never truncated *)
Lemma pad_left_length w l : Z.of_nat (length (pad_left w l)) = Z.max w (Z.of_nat (length l)).
Proof. unfold pad_left, spaces. rewrite app_length, repeat_length. lia. Qed.

Lemma pad_left_suffix w l : exists sp, pad_left w l = sp ++ l /\ Forall (fun c => c = 32) sp.
Proof.
  unfold pad_left, spaces. eexists. split; [reflexivity|]. apply Forall_forall. intros x Hx. apply repeat_spec in Hx. exact Hx.
Qed.

(* the label a row starter prints when counts are shown is the decimal numeral of the row's first position *)
Theorem row_label_denotes_position o maxd q : 0 < dcw o maxd -> 0 <= q < 10 ^ 80 ->
  let '(_, nz, con) := starters o maxd in
  con = true /\ exists sp, nz q = sp ++ dec q ++ [32; 32] /\ Forall (fun c => c = 32) sp /\ codes_value (dec q) = q.
Proof.
  intros Hw Hq. unfold starters. destruct (Z.leb_spec (dcw o maxd) 0); [lia|].
  destruct (dec_value q Hq) as (Hv & _).
  destruct (o_lead o); (split; [reflexivity|]);
    destruct (pad_left_suffix (dcw o maxd) (dec q)) as (sp & E & F); exists sp; (split; [rewrite E, <- app_assoc; reflexivity|auto]).
Qed.

(* ---- fmt "%+03d" (the exponent suffix of the scientific form) ---- *)
Require Import FormatModel.
Lemma dec_nonempty n : dec n <> [].
Proof.
  unfold dec. destruct (Z.leb_spec n 0); [discriminate|]. cbn [dec_rev]. destruct (Z.leb_spec n 0); [lia|].
  cbn [rev]. intros E. apply app_eq_nil in E. destruct E as (_ & E). discriminate.
Qed.

Theorem fmt_exp_spec e : - 10 ^ 80 < e < 10 ^ 80 ->
  exists ds, fmt_exp e = (if e <? 0 then 45 else 43) :: ds /\ (2 <= length ds)%nat /\
             Forall (fun c => 48 <= c <= 57) ds /\ codes_value ds = Z.abs e.
Proof.
  intros He. unfold fmt_exp. destruct (dec_value (Z.abs e) ltac:(lia)) as (Hv & Hd).
  pose proof (dec_nonempty (Z.abs e)) as Hne.
  destruct (Z.ltb_spec (Z.of_nat (length (dec (Z.abs e)))) 2) as [Hl|Hl].
  - exists (48 :: dec (Z.abs e)). split; [reflexivity|]. split.
    + destruct (dec (Z.abs e)); [congruence|cbn; lia].
    + split; [constructor; [lia|exact Hd]|]. unfold codes_value in *. cbn [fold_left]. exact Hv.
  - exists (dec (Z.abs e)). split; [reflexivity|]. split; [lia|]. split; [exact Hd|exact Hv].
Qed.
