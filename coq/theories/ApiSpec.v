(* C16: the documented panic preconditions of the exported API, as a table, and their agreement with the models. *)
From Coq Require Import ZArith List Lia Bool.
Require Import RunList Compute ComputeProof Views.
Import ListNotations.
Open Scope Z_scope.

(* class of an exported function with respect to panics:
   1 root constructor of an integer (Sqrt, CubeRoot, SqrtBigInt, CubeRootBigInt): panics iff the radicand is negative
   2 root constructor of num/den as int64 (SqrtRat, CubeRootRat): panics iff den <= 0 or num < 0
   3 constructor taking a *big.Rat (a big.Rat's denominator is always positive): panics iff the value is negative
   4 WithSignificant(limit): panics iff limit < 0
   5 v1 Number.IteratorAt(posit): panics iff posit < 0
   0 everything else: never panics *)
Definition api_panics (cls : Z) (a b : Z) : bool :=
  if cls =? 1 then a <? 0
  else if cls =? 2 then (b <=? 0) || (a <? 0)
  else if cls =? 3 then
    let b' := if b =? 0 then 1 else b in            (* the driver cannot build a big.Rat with a zero denominator *)
    ((a <? 0) && (0 <? b')) || ((0 <? a) && (b' <? 0))
  else if cls =? 4 then a <? 0
  else if cls =? 5 then a <? 0
  else false.

(* the constructor models panic exactly in the documented cases *)
Theorem api_ctor_int k a n : ctor k a 1 n = RPanic <-> api_panics 1 a 0 = true.
Proof. rewrite ctor_panic_iff. unfold api_panics. cbn [Z.eqb Pos.eqb]. rewrite Z.ltb_lt. lia. Qed.

Theorem api_ctor_rat k a b n : ctor k a b n = RPanic <-> api_panics 2 a b = true.
Proof. rewrite ctor_panic_iff. unfold api_panics. cbn [Z.eqb Pos.eqb]. rewrite orb_true_iff, Z.leb_le, Z.ltb_lt. tauto. Qed.

Theorem api_with_significant sp e k : with_significant (FN sp e) k = Panic <-> api_panics 4 k 0 = true.
Proof.
  unfold with_significant, api_panics. cbn [Z.eqb Pos.eqb].
  destruct (k <? 0); split; intros Hx; try reflexivity; try discriminate.
Qed.
