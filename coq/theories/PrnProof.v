From Coq Require Import ZArith List Lia Bool.
Import ListNotations.
Require Import PrnModel.
Open Scope Z_scope.

Section Proofs.
Variables (R C : Z) (missing : Z) (zero_s : list Z) (nz : Z -> list Z) (count_on : bool).

Notation pre := (pre R C zero_s nz).
Notation raw_consume := (raw_consume R C zero_s nz).
Notation fill := (fill R C missing zero_s nz).
Notation canon := (canon R).
Notation cell_pre := (cell_pre R C zero_s nz).
Notation render := (render R C zero_s nz).
Notation skip_rows := (skip_rows R).
Notation consume := (consume R C missing zero_s nz count_on).

Lemma succ_mod idx : 0 < R -> (idx + 1) mod R <> 0 -> (idx + 1) mod R = idx mod R + 1.
Proof.
  intros HR Hm.
  pose proof (Z.div_mod idx R ltac:(lia)) as E. pose proof (Z.mod_pos_bound idx R HR) as Hb.
  assert (idx mod R + 1 < R \/ idx mod R + 1 = R) as [Hlt|Heq] by lia.
  - symmetry. apply Z.mod_unique_pos with (q := idx / R); lia.
  - exfalso. apply Hm. apply Z.mod_divide; [lia|]. exists (idx / R + 1). lia.
Qed.

(* indexInRow is what the layout assumes whenever it matters *)
Definition ok_inrow (idx inrow : Z) : Prop :=
  (idx = 0 -> inrow = 0) /\
  (0 < R -> idx mod R <> 0 -> inrow = idx mod R) /\
  (R <= 0 -> inrow = idx).

Lemma pre_canon first idx inrow : 0 <= idx -> ok_inrow idx inrow ->
  fst (pre first idx inrow) = cell_pre first idx /\
  ok_inrow (idx + 1) (snd (pre first idx inrow) + 1).
Proof.
  intros Hidx (H0 & H1 & H2). unfold PrnModel.cell_pre, PrnModel.pre, PrnModel.canon.
  destruct (Z.eqb_spec idx 0) as [->|Hnz].
  - cbn. rewrite (H0 eq_refl). split; [reflexivity|]. unfold ok_inrow.
    repeat split; try lia.
    intros HR Hm. destruct (Z.eq_dec R 1) as [E|E].
    + exfalso. apply Hm. rewrite E. reflexivity.
    + rewrite Z.mod_small by lia. reflexivity.
  - destruct (Z.ltb_spec 0 R) as [HR|HR]; cbn [andb].
    + destruct (Z.eqb_spec (idx mod R) 0) as [Hm|Hm].
      * cbn. split; [reflexivity|]. unfold ok_inrow. repeat split; try lia.
        intros _ Hm1. rewrite (succ_mod idx HR Hm1). lia.
      * rewrite (H1 HR Hm).
        assert (Hnext : ok_inrow (idx + 1) (idx mod R + 1)).
        { unfold ok_inrow. repeat split; try lia. intros _ Hm1. rewrite (succ_mod idx HR Hm1). lia. }
        destruct ((0 <? C) && (idx mod R mod C =? 0)); cbn; split; auto.
    + specialize (H2 HR). subst inrow.
      assert (Hnext : ok_inrow (idx + 1) (idx + 1)) by (unfold ok_inrow; repeat split; lia).
      destruct ((0 <? C) && (idx mod C =? 0)); cbn; split; auto.
Qed.

Lemma is_nil_app {A} (a b : list A) : is_nil (a ++ b) = is_nil a && is_nil b.
Proof. destruct a; reflexivity. Qed.

Lemma render_app first a b : render first (a ++ b) = render first a ++ render (first && is_nil a) b.
Proof.
  revert first. induction a as [|[q ch] a IH]; intros first; cbn [app PrnModel.render is_nil].
  - now rewrite andb_true_r.
  - rewrite IH. rewrite andb_false_r. cbn. rewrite <- !app_assoc. reflexivity.
Qed.

Lemma raw_consume_render out idx inrow ch : 0 <= idx -> ok_inrow idx inrow ->
  exists inrow', raw_consume (out, idx, inrow) ch = (out ++ render (is_nil out) [(idx, ch)], idx + 1, inrow')
                 /\ ok_inrow (idx + 1) inrow'.
Proof.
  intros Hidx Hok. unfold PrnModel.raw_consume.
  destruct (pre_canon (is_nil out) idx inrow Hidx Hok) as (Hp & Hn).
  destruct (pre (is_nil out) idx inrow) as [p ir] eqn:E. cbn [fst snd] in *.
  exists (ir + 1). split; [|exact Hn]. cbn [PrnModel.render]. rewrite Hp, app_nil_r. reflexivity.
Qed.

Definition mcells (a : Z) (n : nat) : list (Z * Z) := map (fun q => (q, missing)) (zseq a n).

Lemma fill_render n : forall out idx inrow, 0 <= idx -> ok_inrow idx inrow ->
  exists inrow', fill n (out, idx, inrow) = (out ++ render (is_nil out) (mcells idx n), idx + Z.of_nat n, inrow')
                 /\ ok_inrow (idx + Z.of_nat n) inrow'.
Proof.
  induction n as [|n IH]; intros out idx inrow Hidx Hok.
  - exists inrow. cbn. rewrite app_nil_r, Z.add_0_r. auto.
  - cbn [PrnModel.fill]. destruct (raw_consume_render out idx inrow missing Hidx Hok) as (ir1 & E1 & Hok1).
    rewrite E1. destruct (IH (out ++ render (is_nil out) [(idx, missing)]) (idx + 1) ir1 ltac:(lia) Hok1) as (ir2 & E2 & Hok2).
    exists ir2. rewrite E2. split.
    + f_equal. f_equal.
      * unfold mcells. cbn [zseq map]. change ((idx, missing) :: map (fun q => (q, missing)) (zseq (idx + 1) n))
          with ([(idx, missing)] ++ mcells (idx + 1) n).
        rewrite render_app, <- app_assoc. f_equal. f_equal.
        rewrite is_nil_app. cbn [is_nil PrnModel.render].
        destruct (cell_pre (is_nil out) idx); reflexivity.
      * lia.
    + replace (idx + Z.of_nat (S n)) with (idx + 1 + Z.of_nat n) by lia. exact Hok2.
Qed.

(* ---- skipping whole rows does not change the text of the rest of the current row ---- *)
Lemma cell_pre_shift first q m : 0 < R -> q <> 0 -> q mod R <> 0 -> q + m * R <> 0 ->
  cell_pre first (q + m * R) = cell_pre first q.
Proof.
  intros HR Hq Hm Hq'. unfold PrnModel.cell_pre, PrnModel.pre, PrnModel.canon.
  destruct (Z.ltb_spec 0 R); [|lia]. rewrite Z.mod_add by lia.
  destruct (Z.eqb_spec (q + m * R) 0); [lia|]. destruct (Z.eqb_spec q 0); [lia|].
  destruct (Z.eqb_spec (q mod R) 0); [lia|]. cbn [andb]. reflexivity.
Qed.

Lemma mcells_app a n1 n2 : mcells a (n1 + n2) = mcells a n1 ++ mcells (a + Z.of_nat n1) n2.
Proof.
  unfold mcells. revert a. induction n1 as [|n1 IH]; intros a.
  - cbn. now rewrite Z.add_0_r.
  - cbn [Nat.add zseq map app]. f_equal. rewrite IH. f_equal. f_equal. f_equal. lia.
Qed.

Lemma render_mcells_shift first m n : forall a, 0 < R -> 0 < a -> 0 < a + m * R ->
  a mod R + Z.of_nat n <= R -> a mod R <> 0 ->
  render first (mcells (a + m * R) n) = render first (mcells a n).
Proof.
  revert first. induction n as [|n IH]; intros first a HR Ha Ha' Hn Hm; [reflexivity|].
  unfold mcells. cbn [zseq map PrnModel.render]. rewrite cell_pre_shift by lia. f_equal. f_equal.
  destruct n as [|n']; [reflexivity|].
  replace (a + m * R + 1) with (a + 1 + m * R) by lia.
  assert (Hs : (a + 1) mod R = a mod R + 1).
  { apply succ_mod; auto. intros E.
    pose proof (Z.div_mod a R ltac:(lia)). pose proof (Z.div_mod (a + 1) R ltac:(lia)).
    pose proof (Z.mod_pos_bound a R HR). rewrite E in H0.
    assert ((a + 1) / R = a / R + 1) by nia. nia. }
  apply (IH false (a + 1)); try lia.
  rewrite Hs. pose proof (Z.mod_pos_bound a R HR). lia.
Qed.

Lemma is_nil_render first cells : is_nil (render first cells) = is_nil cells.
Proof. destruct cells as [|[q ch] r]; cbn; [reflexivity|]. destruct (cell_pre first q); reflexivity. Qed.

Lemma mcells_nil a n : is_nil (mcells a n) = match n with O => true | _ => false end.
Proof. destruct n; reflexivity. Qed.

(* fill n cells with the missing mark, then print one character *)
Lemma emit_step out v inrow n ch : 0 <= v -> ok_inrow v inrow ->
  exists ir, raw_consume (fill n (out, v, inrow)) ch =
             (out ++ render (is_nil out) (mcells v n ++ [(v + Z.of_nat n, ch)]), v + Z.of_nat n + 1, ir)
             /\ ok_inrow (v + Z.of_nat n + 1) ir.
Proof.
  intros Hv Hok. destruct (fill_render n out v inrow Hv Hok) as (ir1 & E1 & Hok1). rewrite E1.
  destruct (raw_consume_render (out ++ render (is_nil out) (mcells v n)) (v + Z.of_nat n) ir1 ch ltac:(lia) Hok1)
    as (ir2 & E2 & Hok2).
  exists ir2. rewrite E2. split; [|exact Hok2]. f_equal. f_equal.
  rewrite render_app, <- app_assoc. f_equal. f_equal.
  rewrite is_nil_app, is_nil_render. reflexivity.
Qed.

Definition gap_cells (idx posit : Z) : list (Z * Z) :=
  if idx <? posit then
    if (0 <? R) && count_on then
      if idx mod R =? 0 then mcells (posit / R * R) (Z.to_nat (posit mod R))
      else if idx / R <? posit / R then
        mcells idx (Z.to_nat (R - idx mod R)) ++ mcells (posit / R * R) (Z.to_nat (posit mod R))
      else mcells idx (Z.to_nat (posit - idx))
    else mcells idx (Z.to_nat (posit - idx))
  else [].

Lemma consume_gap out idx inrow posit d : 0 <= idx <= posit -> ok_inrow idx inrow ->
  exists ir, consume (out, idx, inrow) posit d =
             (out ++ render (is_nil out) (gap_cells idx posit ++ [(posit, 48 + d)]), posit + 1, ir)
             /\ ok_inrow (posit + 1) ir.
Proof.
  intros Hi Hok. unfold PrnModel.consume, idx_of, gap_cells. cbn [fst snd].
  destruct (Z.ltb_spec idx posit) as [Hlt|Hge].
  2:{ assert (idx = posit) by lia. subst posit.
      destruct (emit_step out idx inrow 0 (48 + d) ltac:(lia) Hok) as (ir & E & Ho).
      cbn [PrnModel.fill Z.of_nat] in E. rewrite Z.add_0_r in *. exists ir. split; [exact E|exact Ho]. }
  destruct ((0 <? R) && count_on) eqn:Ero.
  2:{ cbn [idx_of fst snd].
      destruct (emit_step out idx inrow (Z.to_nat (posit - idx)) (48 + d) ltac:(lia) Hok) as (ir & E & Ho).
      rewrite Z2Nat.id in * by lia. replace (idx + (posit - idx)) with posit in * by lia.
      exists ir. split; [exact E|exact Ho]. }
  apply andb_true_iff in Ero. destruct Ero as (HR & _). apply Z.ltb_lt in HR.
  pose proof (Z.div_mod idx R ltac:(lia)) as Ei. pose proof (Z.mod_pos_bound idx R HR) as Bi.
  pose proof (Z.div_mod posit R ltac:(lia)) as Ep. pose proof (Z.mod_pos_bound posit R HR) as Bp.
  assert (Hrows : idx / R <= posit / R) by (apply Z.div_le_mono; lia).
  unfold PrnModel.skip_rows.
  destruct (Z.eqb_spec (idx mod R) 0) as [Hm0|Hm0].
  - (* at a row boundary: jump to the row of posit *)
    cbn [idx_of fst snd].
    assert (Ev : idx + (posit / R - idx / R) * R = posit / R * R) by nia. rewrite Ev.
    assert (Hok' : ok_inrow (posit / R * R) inrow).
    { destruct Hok as (H0 & H1 & H2). unfold ok_inrow. repeat split; try lia.
      - intros E0. apply H0. nia.
      - intros _ Hne. exfalso. apply Hne. apply Z.mod_mul. lia. }
    destruct (emit_step out (posit / R * R) inrow (Z.to_nat (posit - posit / R * R)) (48 + d) ltac:(nia) Hok')
      as (ir & E & Ho).
    rewrite Z2Nat.id in * by nia. replace (posit / R * R + (posit - posit / R * R)) with posit in * by lia.
    replace (posit - posit / R * R) with (posit mod R) in * by nia.
    exists ir. split; [exact E|exact Ho].
  - destruct (Z.ltb_spec (idx / R) (posit / R)) as [Hrlt|Hrge].
    + (* finish the current row (printed at a shifted index), skip whole rows, start the row of posit *)
      cbn [idx_of fst snd].
      set (m := posit / R - idx / R - 1). set (v := idx + m * R).
      assert (Hm : 0 <= m) by (unfold m; lia).
      assert (Hipos : 0 < idx).
      { destruct (Z.eq_dec idx 0) as [E0|E0]; [|lia]. exfalso. apply Hm0. rewrite E0. apply Z.mod_0_l. lia. }
      assert (HmR : 0 <= m * R) by (apply Z.mul_nonneg_nonneg; lia).
      assert (Hv : 0 < v) by (unfold v; lia).
      assert (Hvm : v mod R = idx mod R) by (unfold v; apply Z.mod_add; lia).
      assert (Hok' : ok_inrow v inrow).
      { destruct Hok as (H0 & H1 & H2). unfold ok_inrow. repeat split; try lia.
        all: intros _ _; rewrite Hvm; apply H1; auto. }
      set (n1 := Z.to_nat (R - idx mod R)). set (n2 := Z.to_nat (posit mod R)).
      assert (Hn : Z.to_nat (posit - v) = (n1 + n2)%nat) by (unfold n1, n2, v, m; nia).
      rewrite Hn.
      destruct (emit_step out v inrow (n1 + n2) (48 + d) ltac:(lia) Hok') as (ir & E & Ho).
      assert (Hend : v + Z.of_nat (n1 + n2) = posit) by (unfold n1, n2, v, m; nia).
      rewrite Hend in *. exists ir. split; [|exact Ho]. rewrite E. f_equal. f_equal. f_equal.
      rewrite mcells_app. assert (Hmid : v + Z.of_nat n1 = posit / R * R) by (unfold n1, v, m; nia).
      rewrite Hmid. rewrite <- !app_assoc. rewrite !(render_app _ (mcells _ n1)).
      rewrite !mcells_nil. f_equal.
      unfold v. apply render_mcells_shift; try lia.
    + (* same row *)
      destruct (emit_step out idx inrow (Z.to_nat (posit - idx)) (48 + d) ltac:(lia) Hok) as (ir & E & Ho).
      rewrite Z2Nat.id in * by lia. replace (idx + (posit - idx)) with posit in * by lia.
      exists ir. split; [exact E|exact Ho].
Qed.

(* ---- the whole run of the printer ---- *)
Fixpoint all_cells (idx : Z) (shown : list (Z * Z)) : list (Z * Z) :=
  match shown with
  | [] => []
  | (p, d) :: r => gap_cells idx p ++ [(p, 48 + d)] ++ all_cells (p + 1) r
  end.

Fixpoint asc (idx : Z) (shown : list (Z * Z)) : Prop :=
  match shown with [] => True | (p, d) :: r => idx <= p /\ asc (p + 1) r end.

Notation consume_all := (consume_all R C missing zero_s nz count_on).

Lemma consume_all_cells shown : forall out idx inrow, 0 <= idx -> ok_inrow idx inrow -> asc idx shown ->
  fst (fst (consume_all (out, idx, inrow) shown)) = out ++ render (is_nil out) (all_cells idx shown).
Proof.
  induction shown as [|[p d] r IH]; intros out idx inrow Hidx Hok Hasc.
  - cbn. now rewrite app_nil_r.
  - cbn [PrnModel.consume_all all_cells]. destruct Hasc as (Hp & Hr).
    destruct (consume_gap out idx inrow p d ltac:(lia) Hok) as (ir & E & Ho). rewrite E.
    rewrite (IH _ (p + 1) ir ltac:(lia) Ho Hr).
    rewrite <- app_assoc. f_equal.
    rewrite (app_assoc (gap_cells idx p)). rewrite (render_app _ (gap_cells idx p ++ [(p, 48 + d)])).
    f_equal. rewrite is_nil_app, is_nil_render. reflexivity.
Qed.

Theorem print_all_cells shown : asc 0 shown ->
  print_all R C missing zero_s nz count_on shown = render true (all_cells 0 shown).
Proof.
  intros Hasc. unfold print_all.
  rewrite (consume_all_cells shown [] 0 0 ltac:(lia)); auto.
  unfold ok_inrow. repeat split; try lia.
Qed.

(* ---- the declarative layout enumerates exactly the same cells ---- *)
Notation is_cell := (is_cell R count_on).
Notation in_rows := (in_rows R).
Notation cell_char := (cell_char missing).

Lemma zseq_app a n1 n2 : zseq a (n1 + n2) = zseq a n1 ++ zseq (a + Z.of_nat n1) n2.
Proof.
  revert a. induction n1 as [|n1 IH]; intros a.
  - cbn. now rewrite Z.add_0_r.
  - cbn [Nat.add zseq app]. f_equal. rewrite IH. f_equal. f_equal. lia.
Qed.

Lemma In_zseq q n : forall a, In q (zseq a n) <-> a <= q < a + Z.of_nat n.
Proof.
  induction n as [|n IH]; intros a; cbn [zseq In].
  - split; [tauto|lia].
  - rewrite IH. lia.
Qed.

Lemma filter_all {A} (f : A -> bool) l : (forall x, In x l -> f x = true) -> filter f l = l.
Proof.
  induction l as [|x l IH]; intros H; [reflexivity|]. cbn. rewrite (H x (or_introl eq_refl)).
  f_equal. apply IH. intros y Hy. apply H. now right.
Qed.

Lemma filter_none {A} (f : A -> bool) l : (forall x, In x l -> f x = false) -> filter f l = [].
Proof.
  induction l as [|x l IH]; intros H; [reflexivity|]. cbn. rewrite (H x (or_introl eq_refl)).
  apply IH. intros y Hy. apply H. now right.
Qed.

Definition positions (l : list (Z * Z)) : list Z := map fst l.

Lemma lookup_none q l : ~ In q (positions l) -> lookup q l = None.
Proof.
  induction l as [|[p d] l IH]; intros H; [reflexivity|]. cbn in *.
  destruct (Z.eqb_spec p q); [exfalso; auto|]. apply IH. tauto.
Qed.

Lemma lookup_app_r q l1 l2 : ~ In q (positions l1) -> lookup q (l1 ++ l2) = lookup q l2.
Proof.
  induction l1 as [|[p d] l IH]; intros H; [reflexivity|]. cbn in *.
  destruct (Z.eqb_spec p q); [exfalso; auto|]. apply IH. tauto.
Qed.

Lemma in_rows_app l1 l2 q : in_rows (l1 ++ l2) q = in_rows l1 q || in_rows l2 q.
Proof. unfold PrnModel.in_rows. apply existsb_app. Qed.

Lemma in_rows_true l q p : In p (positions l) -> p / R = q / R -> in_rows l q = true.
Proof.
  intros Hin Hrow. unfold PrnModel.in_rows. apply existsb_exists.
  unfold positions in Hin. apply in_map_iff in Hin. destruct Hin as (pd & Hf & Hin).
  exists pd. split; auto. rewrite Hf. now apply Z.eqb_eq.
Qed.

Lemma in_rows_elim l q : in_rows l q = true -> exists p, In p (positions l) /\ p / R = q / R.
Proof.
  unfold PrnModel.in_rows. intros H. apply existsb_exists in H. destruct H as (pd & Hin & He).
  exists (fst pd). split; [apply in_map; auto|now apply Z.eqb_eq].
Qed.

Lemma asc_ge idx l : asc idx l -> forall p, In p (positions l) -> idx <= p.
Proof.
  revert idx. induction l as [|[p d] l IH]; intros idx H q Hq; [destruct Hq|].
  cbn in *. destruct H as (H1 & H2). destruct Hq as [<-|Hq]; [lia|].
  specialize (IH _ H2 q Hq). lia.
Qed.

Lemma pmax_cons a d l : pmax ((a, d) :: l) = Z.max a (pmax l).
Proof. reflexivity. Qed.

Lemma pmax_ge l p : In p (positions l) -> p <= pmax l.
Proof.
  induction l as [|[a d] l IH]; intros H; [destruct H|]. rewrite pmax_cons.
  destruct H as [H|H]; [cbn in H; lia|]. specialize (IH H). lia.
Qed.

Lemma pmax_lb l : -1 <= pmax l.
Proof. induction l as [|[a d] l IH]; [cbn; lia|rewrite pmax_cons; lia]. Qed.

Lemma pmax_lt l b : (forall p, In p (positions l) -> p < b) -> -1 < b -> pmax l < b.
Proof.
  induction l as [|[a d] l IH]; intros H Hb; [cbn; lia|]. rewrite pmax_cons.
  assert (a < b) by (apply H; cbn; auto).
  assert (pmax l < b) by (apply IH; auto; intros p Hp; apply H; cbn; auto). lia.
Qed.

Lemma div_bounds q : 0 < R -> q / R * R <= q < (q / R + 1) * R.
Proof. intros HR. pose proof (Z.div_mod q R ltac:(lia)). pose proof (Z.mod_pos_bound q R HR). nia. Qed.

Lemma div_eq_of_bounds q a : 0 < R -> a * R <= q < (a + 1) * R -> q / R = a.
Proof. intros HR H. symmetry. apply (Z.div_unique q R a (q - a * R)); lia. Qed.

Lemma filter_map_missing (S : list (Z * Z)) (f : Z -> bool) a n :
  (forall q, a <= q < a + Z.of_nat n -> ~ In q (positions S)) ->
  map (fun q => (q, cell_char S q)) (filter f (zseq a n)) = map (fun q => (q, missing)) (filter f (zseq a n)).
Proof.
  intros H. apply map_ext_in. intros q Hq. apply filter_In in Hq. destruct Hq as (Hq & _).
  apply In_zseq in Hq. unfold PrnModel.cell_char. rewrite lookup_none; auto.
Qed.

Lemma gap_spec done rest idx p d :
  0 <= idx <= p ->
  (forall x, In x (positions done) -> 0 <= x < idx) ->
  (0 < idx -> In (idx - 1) (positions done)) ->
  (forall x, In x (positions rest) -> p < x) ->
  map (fun q => (q, cell_char (done ++ (p, d) :: rest) q))
      (filter (is_cell (done ++ (p, d) :: rest)) (zseq idx (Z.to_nat (p - idx)))) = gap_cells idx p.
Proof.
  intros Hip Hdone Hpred Hrest. set (S := done ++ (p, d) :: rest).
  assert (HpS : In p (positions S)).
  { unfold S, positions. rewrite map_app. apply in_or_app. right. cbn. auto. }
  assert (Hnot : forall q, idx <= q < idx + Z.of_nat (Z.to_nat (p - idx)) -> ~ In q (positions S)).
  { intros q Hq Hin. unfold S, positions in Hin. rewrite map_app in Hin. apply in_app_or in Hin.
    destruct Hin as [Hin|Hin]; [apply Hdone in Hin; lia|]. cbn in Hin. destruct Hin as [Hin|Hin]; [lia|].
    apply Hrest in Hin. lia. }
  rewrite filter_map_missing by exact Hnot. clear Hnot.
  unfold gap_cells. destruct (Z.ltb_spec idx p) as [Hlt|Hge].
  2:{ replace (p - idx) with 0 by lia. reflexivity. }
  (* membership in terms of rows *)
  assert (Hcell : forall q, idx <= q < p ->
            is_cell S q = negb ((0 <? R) && count_on) ||
                          ((0 <? idx) && ((idx - 1) / R =? q / R)) || (p / R =? q / R)).
  { intros q Hq. unfold PrnModel.is_cell, rows_on.
    assert (q <= pmax S) by (pose proof (pmax_ge S p HpS); lia).
    destruct (Z.leb_spec q (pmax S)); [|lia]. cbn [andb].
    destruct ((0 <? R) && count_on) eqn:Ero; cbn [negb orb]; [|reflexivity].
    apply andb_true_iff in Ero. destruct Ero as (HR & _). apply Z.ltb_lt in HR.
    unfold S. rewrite in_rows_app.
    change (in_rows ((p, d) :: rest) q) with ((p / R =? q / R) || in_rows rest q).
    (* done *)
    assert (Hd : in_rows done q = (0 <? idx) && ((idx - 1) / R =? q / R)).
    { destruct (Z.ltb_spec 0 idx) as [Hi|Hi]; cbn [andb].
      - destruct (Z.eqb_spec ((idx - 1) / R) (q / R)) as [E|E].
        + apply (in_rows_true done q (idx - 1)); auto.
        + destruct (in_rows done q) eqn:Ein; [|reflexivity]. exfalso.
          apply in_rows_elim in Ein. destruct Ein as (x & Hx & Hrow). apply Hdone in Hx.
          assert (x / R <= (idx - 1) / R) by (apply Z.div_le_mono; lia).
          assert ((idx - 1) / R <= q / R) by (apply Z.div_le_mono; lia). lia.
      - destruct (in_rows done q) eqn:Ein; [|reflexivity]. exfalso.
        apply in_rows_elim in Ein. destruct Ein as (x & Hx & _). apply Hdone in Hx. lia. }
    rewrite Hd.
    destruct (in_rows rest q) eqn:Er; [|now rewrite orb_false_r].
    apply in_rows_elim in Er. destruct Er as (x & Hx & Hrow). apply Hrest in Hx.
    assert (q / R <= p / R) by (apply Z.div_le_mono; lia).
    assert (p / R <= x / R) by (apply Z.div_le_mono; lia).
    assert (E : p / R = q / R) by lia. apply Z.eqb_eq in E. rewrite E. now rewrite !orb_true_r. }
  destruct ((0 <? R) && count_on) eqn:Ero.
  2:{ rewrite filter_all; [reflexivity|]. intros q Hq. apply In_zseq in Hq. rewrite Hcell by lia. reflexivity. }
  apply andb_true_iff in Ero. destruct Ero as (HR & _). apply Z.ltb_lt in HR.
  pose proof (div_bounds idx HR) as Bi. pose proof (div_bounds p HR) as Bp.
  pose proof (Z.div_mod idx R ltac:(lia)) as Ei. pose proof (Z.mod_pos_bound idx R HR) as Mi.
  pose proof (Z.div_mod p R ltac:(lia)) as Ep. pose proof (Z.mod_pos_bound p R HR) as Mp.
  assert (Hrows : idx / R <= p / R) by (apply Z.div_le_mono; lia).
  destruct (Z.eqb_spec (idx mod R) 0) as [Hm0|Hm0].
  - (* idx is a row start: only the row of p *)
    assert (Hstart : idx <= p / R * R) by nia.
    replace (Z.to_nat (p - idx)) with (Z.to_nat (p / R * R - idx) + Z.to_nat (p mod R))%nat by nia.
    rewrite zseq_app, filter_app, map_app.
    rewrite Z2Nat.id by lia. replace (idx + (p / R * R - idx)) with (p / R * R) by lia.
    rewrite filter_none, filter_all; [reflexivity| |].
    + intros q Hq. apply In_zseq in Hq. rewrite Z2Nat.id in Hq by lia. rewrite Hcell by nia.
      cbn [negb orb]. assert (E : p / R = q / R) by (symmetry; apply div_eq_of_bounds; nia).
      apply Z.eqb_eq in E. rewrite E. now rewrite orb_true_r.
    + intros q Hq. apply In_zseq in Hq. rewrite Z2Nat.id in Hq by lia. rewrite Hcell by nia.
      cbn [negb orb].
      assert (q / R < p / R).
      { destruct (Z.lt_ge_cases (q / R) (p / R)); auto. pose proof (div_bounds q HR). nia. }
      destruct (Z.eqb_spec (p / R) (q / R)); [lia|]. rewrite orb_false_r.
      destruct (Z.ltb_spec 0 idx); [|reflexivity]. cbn [andb].
      destruct (Z.eqb_spec ((idx - 1) / R) (q / R)) as [E|E]; [|reflexivity]. exfalso.
      assert ((idx - 1) / R < idx / R).
      { apply Z.div_lt_upper_bound; nia. }
      assert (idx / R <= q / R) by (apply Z.div_le_mono; lia). lia.
  - assert (Hipos : 0 < idx).
    { destruct (Z.eq_dec idx 0) as [E0|E0]; [|lia]. exfalso. apply Hm0. rewrite E0. apply Z.mod_0_l. lia. }
    assert (Hprev : (idx - 1) / R = idx / R) by (apply div_eq_of_bounds; nia).
    destruct (Z.ltb_spec (idx / R) (p / R)) as [Hrlt|Hrge].
    + (* rest of the current row, nothing in between, then the row of p *)
      set (n1 := Z.to_nat (R - idx mod R)). set (n0 := Z.to_nat (p / R * R - (idx / R + 1) * R)).
      set (n2 := Z.to_nat (p mod R)).
      replace (Z.to_nat (p - idx)) with (n1 + (n0 + n2))%nat by (unfold n1, n0, n2; nia).
      rewrite zseq_app, filter_app, map_app, zseq_app, filter_app, map_app.
      assert (E1 : idx + Z.of_nat n1 = (idx / R + 1) * R) by (unfold n1; nia).
      assert (E2 : idx + Z.of_nat n1 + Z.of_nat n0 = p / R * R) by (unfold n1, n0; nia).
      rewrite E2. rewrite (filter_all _ (zseq idx n1)), (filter_none _ (zseq _ n0)), (filter_all _ (zseq _ n2)); [reflexivity| | |].
      * intros q Hq. apply In_zseq in Hq. unfold n2 in Hq. rewrite Z2Nat.id in Hq by lia. rewrite Hcell by nia.
        assert (E : p / R = q / R) by (symmetry; apply div_eq_of_bounds; nia).
        apply Z.eqb_eq in E. rewrite E. now rewrite orb_true_r.
      * intros q Hq. apply In_zseq in Hq. rewrite E1 in Hq.
        assert (Hq' : (idx / R + 1) * R <= q < p / R * R) by (unfold n0 in Hq; nia).
        rewrite Hcell by nia. cbn [negb orb].
        pose proof (div_bounds q HR).
        assert (idx / R < q / R) by nia. assert (q / R < p / R) by nia.
        destruct (Z.eqb_spec (p / R) (q / R)); [lia|]. rewrite Hprev.
        destruct (Z.eqb_spec (idx / R) (q / R)); [lia|]. now rewrite andb_false_r.
      * intros q Hq. apply In_zseq in Hq. rewrite E1 in Hq. rewrite Hcell by nia. cbn [negb orb].
        assert (E : idx / R = q / R) by (symmetry; apply div_eq_of_bounds; nia).
        rewrite Hprev. apply Z.eqb_eq in E. rewrite E.
        destruct (Z.ltb_spec 0 idx); [reflexivity|lia].
    + (* same row as p *)
      rewrite filter_all; [reflexivity|]. intros q Hq. apply In_zseq in Hq. rewrite Z2Nat.id in Hq by lia.
      rewrite Hcell by lia. cbn [negb orb].
      assert (E : p / R = q / R).
      { assert (idx / R <= q / R) by (apply Z.div_le_mono; lia).
        assert (q / R <= p / R) by (apply Z.div_le_mono; lia). lia. }
      apply Z.eqb_eq in E. rewrite E. now rewrite orb_true_r.
Qed.

Lemma positions_app a b : positions (a ++ b) = positions a ++ positions b.
Proof. unfold positions. apply map_app. Qed.

Lemma spec_all rest : forall done idx,
  0 <= idx ->
  (forall x, In x (positions done) -> 0 <= x < idx) ->
  (0 < idx -> In (idx - 1) (positions done)) ->
  asc idx rest ->
  map (fun q => (q, cell_char (done ++ rest) q))
      (filter (is_cell (done ++ rest)) (zseq idx (Z.to_nat (pmax (done ++ rest) + 1 - idx))))
  = all_cells idx rest.
Proof.
  induction rest as [|[p d] r IH]; intros done idx Hidx Hdone Hpred Hasc.
  - rewrite app_nil_r. cbn [all_cells].
    assert (pmax done < idx) by (apply pmax_lt; [intros x Hx; apply Hdone in Hx; lia|lia]).
    replace (Z.to_nat (pmax done + 1 - idx)) with 0%nat by lia. reflexivity.
  - cbn [all_cells asc] in *. destruct Hasc as (Hp & Hr).
    set (S := done ++ (p, d) :: r) in *.
    assert (HpS : In p (positions S)).
    { unfold S. rewrite positions_app. apply in_or_app. right. cbn. auto. }
    pose proof (pmax_ge S p HpS) as Hpm.
    assert (Hrest : forall x, In x (positions r) -> p < x).
    { intros x Hx. pose proof (asc_ge (p + 1) r Hr x Hx). lia. }
    replace (Z.to_nat (pmax S + 1 - idx))
      with (Z.to_nat (p - idx) + (1 + Z.to_nat (pmax S + 1 - (p + 1))))%nat by lia.
    rewrite zseq_app, filter_app, map_app. rewrite Z2Nat.id by lia.
    replace (idx + (p - idx)) with p by lia.
    rewrite zseq_app, filter_app, map_app.
    unfold S at 1 2. rewrite (gap_spec done r idx p d ltac:(lia) Hdone Hpred Hrest). fold S.
    f_equal. f_equal.
    + (* the shown cell itself *)
      cbn [zseq Z.of_nat filter].
      assert (Hc : is_cell S p = true).
      { unfold PrnModel.is_cell. destruct (Z.leb_spec p (pmax S)); [|lia]. cbn [andb].
        rewrite (in_rows_true S p p HpS eq_refl). now rewrite orb_true_r. }
      rewrite Hc. cbn [map]. f_equal. f_equal. unfold PrnModel.cell_char, S.
      rewrite lookup_app_r.
      * cbn [lookup]. now rewrite Z.eqb_refl.
      * intros Hin. apply Hdone in Hin. lia.
    + (* the rest *)
      change (Z.of_nat 1) with 1.
      assert (ES : S = (done ++ [(p, d)]) ++ r) by (unfold S; rewrite <- app_assoc; reflexivity).
      rewrite ES. apply IH; try lia; auto.
      * intros x Hx. rewrite positions_app in Hx. apply in_app_or in Hx. destruct Hx as [Hx|Hx].
        -- apply Hdone in Hx. lia.
        -- cbn in Hx. destruct Hx as [Hx|[]]. lia.
      * intros _. rewrite positions_app. apply in_or_app. right. cbn. left. lia.
Qed.

Theorem layout_cells shown : asc 0 shown ->
  layout R C missing zero_s nz count_on shown = render true (all_cells 0 shown).
Proof.
  intros Hasc. unfold layout. f_equal.
  pose proof (spec_all shown [] 0 ltac:(lia)) as H. cbn [app] in H.
  rewrite Z.sub_0_r in H. apply H; auto.
  - intros x [].
  - lia.
Qed.

(* C10: for every ascending list of shown (position, digit) pairs and every option value,
   the streaming printer produces exactly the canonical layout *)
Theorem print_is_layout shown : asc 0 shown ->
  print_all R C missing zero_s nz count_on shown = layout R C missing zero_s nz count_on shown.
Proof. intros H. rewrite print_all_cells, layout_cells; auto. Qed.
End Proofs.

Print Assumptions print_is_layout.
