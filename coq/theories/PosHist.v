(* C11: histories of Add / AddRange / Build with builder reuse; End; UpTo / Between;
   boolean checker for the property's statement and its soundness. *)
From Coq Require Import ZArith List Lia Bool.
Require Import Pos.
Import ListNotations.
Open Scope Z_scope.

Inductive hop := HAdd (p : Z) | HAddRange (s e : Z) | HBuild.

(* executable model of a history on one builder: the Positions values built, in order *)
Fixpoint run_hist (ops : list hop) (b : builder) : list (list range) :=
  match ops with
  | [] => []
  | HAdd p :: r => run_hist r (add b p)
  | HAddRange s e :: r => run_hist r (add_range b s e)
  | HBuild :: r => fst (build b) :: run_hist r (snd (build b))
  end.

(* the calls made between consecutive Builds (only completed segments) *)
Fixpoint segments (ops : list hop) (cur : list call) : list (list call) :=
  match ops with
  | [] => []
  | HAdd p :: r => segments r (cur ++ [CAdd p])
  | HAddRange s e :: r => segments r (cur ++ [CAddRange s e])
  | HBuild :: r => cur :: segments r []
  end.

Definition built_ok (ps : list range) (cs : list call) : Prop :=
  normal ps /\ forall p, mem p ps <-> mem p (added cs).

Lemma run_hist_spec ops : forall b cur, BInv b cur ->
  Forall2 built_ok (run_hist ops b) (segments ops cur).
Proof.
  induction ops as [|o ops IH]; intros b cur Hb; cbn [run_hist segments].
  - constructor.
  - destruct o as [p|s e|].
    + apply IH. apply (apply_call_inv b cur (CAdd p) Hb).
    + apply IH. apply (apply_call_inv b cur (CAddRange s e) Hb).
    + destruct (build_spec b cur Hb) as (Hn & Hm & He). constructor.
      * split; assumption.
      * rewrite He. apply IH. apply BInv_empty.
Qed.

Theorem history_normal_form ops :
  Forall2 built_ok (run_hist ops empty_builder) (segments ops []).
Proof. apply run_hist_spec. apply BInv_empty. Qed.

(* builder state after Build is the zero value, whatever came before *)
Lemma build_resets b : snd (build b) = empty_builder.
Proof. unfold build. destruct (negb (unsorted b)); [reflexivity|]. destruct (isort _); reflexivity. Qed.

(* ---- End ---- *)
Lemma end_of_spec ps : normal ps ->
  (ps = [] -> end_of ps = 0) /\
  (ps <> [] -> mem (end_of ps - 1) ps /\ forall p, mem p ps -> p < end_of ps).
Proof.
  unfold normal, end_of. intros Hn. split.
  - intros ->. reflexivity.
  - intros Hne. assert (Hr : rev ps <> []).
    { intros E. apply Hne. rewrite <- (rev_involutive ps), E. reflexivity. }
    assert (Hm : forall p, mem p ps <-> mem p (rev ps)) by (intros p; symmetry; apply mem_rev).
    destruct (rev ps) as [|[s e] rest] eqn:E; [congruence|]. clear Hr E Hne.
    split.
    + apply Hm. exists s, e. cbn in Hn. split; [now left|lia].
    + intros p Hp. apply Hm in Hp. clear Hm.
      assert (G : forall l s0 e0, normal_rev ((s0, e0) :: l) -> forall q, mem q ((s0, e0) :: l) -> q < e0).
      { induction l as [|[s1 e1] l IHl]; intros s0 e0 Hn0 q Hq.
        - destruct Hq as (a & b & [Hin|[]] & Hab). inversion Hin; subst. lia.
        - apply mem_cons in Hq. cbn [fst snd] in Hq. destruct Hq as [Hq|Hq]; [lia|].
          cbn in Hn0. destruct Hn0 as (? & ? & ? & Hn1).
          specialize (IHl s1 e1 Hn1 q Hq). lia. }
      apply (G rest s e Hn p Hp).
Qed.

(* UpTo / Between are by definition the corresponding single AddRange followed by Build *)
Definition between (s e : Z) : list range := fst (build (add_range empty_builder s e)).
Definition upto (e : Z) : list range := between 0 e.

Lemma between_spec s e : between s e = match clamp s e with Some r => [r] | None => [] end.
Proof.
  unfold between, add_range, clamp. cbn [rr empty_builder].
  destruct (e <=? (if s <? 0 then 0 else s)); reflexivity.
Qed.

(* ---- Add on the non-wrapping part of the int range ---- *)
Definition max_int : Z := 2 ^ 63 - 1.
Definition min_int : Z := - 2 ^ 63.

Lemma call_range_add p : min_int <= p < max_int ->
  call_range (CAdd p) = if p <? 0 then None else Some (p, p + 1).
Proof.
  unfold min_int, max_int. intros H. cbn [call_range]. rewrite wrap64_id by lia. unfold clamp.
  destruct (Z.ltb_spec p 0).
  - destruct (Z.leb_spec (p + 1) 0); [reflexivity|lia].
  - destruct (Z.leb_spec (p + 1) p); [lia|reflexivity].
Qed.

Lemma call_range_addrange s e :
  call_range (CAddRange s e) = if e <=? Z.max 0 s then None else Some (Z.max 0 s, e).
Proof.
  cbn [call_range]. unfold clamp. destruct (Z.ltb_spec s 0).
  - rewrite Z.max_l by lia. reflexivity.
  - rewrite Z.max_r by lia. reflexivity.
Qed.

(* the set of positions a call adds, in the property's own words *)
Definition call_adds (c : call) (p : Z) : Prop :=
  0 <= p /\ match c with CAdd a => p = a | CAddRange s e => s <= p < e end.

Lemma added_mem_iff cs : Forall (fun c => match c with CAdd a => min_int <= a < max_int | _ => True end) cs ->
  forall p, mem p (added cs) <-> exists c, In c cs /\ call_adds c p.
Proof.
  intros Hg p. induction cs as [|c cs IH].
  - cbn. split; [intros H; destruct (mem_nil _ H)|intros (c & [] & _)].
  - inversion Hg as [|? ? Hc Hcs]; subst. specialize (IH Hcs).
    change (added (c :: cs)) with ((match call_range c with Some r => [r] | None => [] end) ++ added cs).
    rewrite mem_app, IH. split.
    + intros [H|(c' & Hin & Ha)]; [|exists c'; split; [now right|exact Ha]].
      exists c. split; [now left|]. destruct c as [a|s e].
      * rewrite call_range_add in H by exact Hc. destruct (Z.ltb_spec a 0); [destruct (mem_nil _ H)|].
        apply mem_cons in H. cbn [fst snd] in H. destruct H as [H|H]; [|destruct (mem_nil _ H)].
        unfold call_adds. lia.
      * rewrite call_range_addrange in H. destruct (Z.leb_spec e (Z.max 0 s)); [destruct (mem_nil _ H)|].
        apply mem_cons in H. cbn [fst snd] in H. destruct H as [H|H]; [|destruct (mem_nil _ H)].
        unfold call_adds. lia.
    + intros (c' & [<-|Hin] & Ha); [left|right; exists c'; auto].
      unfold call_adds in Ha. destruct c as [a|s e].
      * rewrite call_range_add by exact Hc. destruct (Z.ltb_spec a 0); [lia|].
        apply mem_cons. cbn [fst snd]. left. lia.
      * rewrite call_range_addrange. destruct (Z.leb_spec e (Z.max 0 s)); [lia|].
        apply mem_cons. cbn [fst snd]. left. lia.
Qed.

(* ---- boolean checker for "ps is the normal form of the union of the calls cs" ---- *)
Fixpoint normal_fwd_b (prev_end : Z) (ps : list range) : bool :=
  match ps with
  | [] => true
  | (s, e) :: r => (0 <=? s) && (s <? e) && (prev_end <? s) && normal_fwd_b e r
  end.
Definition normal_b (ps : list range) : bool := normal_fwd_b (-1) ps.

Definition mem_b (p : Z) (l : list range) : bool :=
  existsb (fun r => (fst r <=? p) && (p <? snd r)) l.

Definition crit (l : list range) : list Z := flat_map (fun r => [fst r; snd r]) l.

(* membership of a finite union of half-open intervals is piecewise constant between critical points *)
Definition check_union (ad ps : list range) : bool :=
  normal_b ps &&
  forallb (fun p => Bool.eqb (mem_b p ps) (mem_b p ad)) (crit ps ++ crit ad).
Definition c11_check (cs : list call) (ps : list range) : bool := check_union (added cs) ps.

(* the property in its own words: Add a adds position a, with no wrap-around *)
Definition call_range_words (c : call) : option range :=
  match c with CAddRange s e => clamp s e | CAdd p => clamp p (p + 1) end.
Definition added_words (cs : list call) : list range :=
  flat_map (fun c => match call_range_words c with Some r => [r] | None => [] end) cs.
Definition c11_check_words (cs : list call) (ps : list range) : bool := check_union (added_words cs) ps.

Lemma mem_b_iff p l : mem_b p l = true <-> mem p l.
Proof.
  unfold mem_b, mem. rewrite existsb_exists. split.
  - intros ([s e] & Hin & H). cbn [fst snd] in H. exists s, e. split; auto. lia.
  - intros (s & e & Hin & H). exists (s, e). split; auto. cbn [fst snd]. lia.
Qed.

Lemma normal_fwd_b_spec ps : forall pe, normal_fwd_b pe ps = true ->
  normal_rev (rev ps) /\ (forall s e, In (s, e) ps -> pe < s) .
Proof.
  induction ps as [|[s e] r IH]; intros pe H; cbn [normal_fwd_b] in H.
  - split; [exact I|intros ? ? []].
  - apply andb_prop in H. destruct H as (H & Hr). apply andb_prop in H. destruct H as (H & H3).
    apply andb_prop in H. destruct H as (H1 & H2).
    destruct (IH e Hr) as (Hn & Hlt).
    split.
    + cbn [rev].
      (* appending (s,e) at the far end of the reversed list *)
      assert (G : forall l, normal_rev l -> (forall s' e', In (s', e') l -> e < s') -> normal_rev (l ++ [(s, e)])).
      { induction l as [|[s1 e1] l IHl]; intros Hnl Hall.
        - cbn. repeat split; auto; lia.
        - cbn in Hnl. destruct Hnl as (A & B & C & D). cbn [app].
          assert (Hl : normal_rev (l ++ [(s, e)])).
          { apply IHl; auto. intros s' e' Hin. apply (Hall s' e'). now right. }
          cbn [normal_rev]. repeat split; auto.
          destruct l as [|[s2 e2] l']; cbn [app].
          + specialize (Hall s1 e1 (or_introl eq_refl)). lia.
          + exact C. }
      apply G; auto. intros s' e' Hin. apply in_rev in Hin. specialize (Hlt s' e' Hin). lia.
    + intros s' e' [Hin|Hin].
      * inversion Hin; subst. lia.
      * specialize (Hlt s' e' Hin). lia.
Qed.

Lemma normal_b_sound ps : normal_b ps = true -> normal ps.
Proof. intros H. apply (normal_fwd_b_spec ps (-1) H). Qed.

(* ---- soundness of the union part of the checker ---- *)
(* greatest critical point not above p *)
Fixpoint floor_pt (C : list Z) (p : Z) : option Z :=
  match C with
  | [] => None
  | c :: r => match floor_pt r p with
              | Some m => if (c <=? p) && (m <? c) then Some c else Some m
              | None => if c <=? p then Some c else None
              end
  end.

Lemma floor_pt_spec C p :
  match floor_pt C p with
  | Some m => In m C /\ m <= p /\ forall c, In c C -> c <= p -> c <= m
  | None => forall c, In c C -> p < c
  end.
Proof.
  induction C as [|c r IH]; cbn [floor_pt].
  - intros c [].
  - destruct (floor_pt r p) as [m|].
    + destruct IH as (Hin & Hle & Hmax).
      destruct (Z.leb_spec c p); cbn [andb]; [destruct (Z.ltb_spec m c)|].
      * split; [now left|]. split; [lia|]. intros c' [<-|Hc'] Hc'p; [lia|]. specialize (Hmax c' Hc' Hc'p). lia.
      * split; [now right|]. split; [lia|]. intros c' [<-|Hc'] Hc'p; [lia|]. apply Hmax; auto.
      * split; [now right|]. split; [lia|]. intros c' [<-|Hc'] Hc'p; [lia|]. apply Hmax; auto.
    + destruct (Z.leb_spec c p).
      * split; [now left|]. split; [lia|]. intros c' [<-|Hc'] Hc'p; [lia|]. specialize (IH c' Hc'). lia.
      * intros c' [<-|Hc']; [lia|]. apply IH; auto.
Qed.

Lemma crit_in l s e : In (s, e) l -> In s (crit l) /\ In e (crit l).
Proof.
  intros H. unfold crit. split; apply in_flat_map; exists (s, e); cbn; auto.
Qed.

Lemma mem_floor l C p : (forall c, In c (crit l) -> In c C) ->
  mem p l <-> match floor_pt C p with Some m => mem m l | None => False end.
Proof.
  intros Hsub. pose proof (floor_pt_spec C p) as Hf. destruct (floor_pt C p) as [m|].
  - destruct Hf as (Hin & Hle & Hmax). split.
    + intros (s & e & Hse & Hp). destruct (crit_in l s e Hse) as (Hs & He).
      exists s, e. split; auto. pose proof (Hmax s (Hsub s Hs)). lia.
    + intros (s & e & Hse & Hp). destruct (crit_in l s e Hse) as (Hs & He).
      exists s, e. split; auto. destruct (Z.le_gt_cases e p) as [Hep|]; [|lia].
      pose proof (Hmax e (Hsub e He) Hep). lia.
  - split; [|tauto]. intros (s & e & Hse & Hp). destruct (crit_in l s e Hse) as (Hs & He).
    specialize (Hf s (Hsub s Hs)). lia.
Qed.

Theorem check_union_sound ad ps : check_union ad ps = true ->
  normal ps /\ forall p, mem p ps <-> mem p ad.
Proof.
  unfold check_union. intros H. apply andb_prop in H. destruct H as (Hn & Hall).
  split; [now apply normal_b_sound|].
  rewrite forallb_forall in Hall. intros p.
  set (C := crit ps ++ crit ad) in *.
  rewrite (mem_floor ps C p) by (intros c Hc; apply in_or_app; now left).
  rewrite (mem_floor ad C p) by (intros c Hc; apply in_or_app; now right).
  pose proof (floor_pt_spec C p) as Hf. destruct (floor_pt C p) as [m|]; [|tauto].
  destruct Hf as (Hin & _). specialize (Hall m Hin). apply Bool.eqb_prop in Hall.
  rewrite <- !mem_b_iff, Hall. tauto.
Qed.

Theorem c11_check_sound cs ps : c11_check cs ps = true -> built_ok ps cs.
Proof. apply check_union_sound. Qed.

Theorem c11_check_words_sound cs ps : c11_check_words cs ps = true ->
  normal ps /\ forall p, mem p ps <-> mem p (added_words cs).
Proof. apply check_union_sound. Qed.

(* the checker accepts what the model builds (so a SPECFAIL can only come from the implementation) *)
Example c11_check_accepts :
  c11_check [CAddRange 5 9; CAdd 3; CAddRange (-4) 2; CAdd 9; CAddRange 7 7]
            (fst (build (fold_left apply_call [CAddRange 5 9; CAdd 3; CAddRange (-4) 2; CAdd 9; CAddRange 7 7] empty_builder))) = true.
Proof. vm_compute. reflexivity. Qed.
