From Coq Require Import ZArith List Lia Bool.
Import ListNotations.
Open Scope Z_scope.

(* ---- model of rawPrinter.Consume / printer.Consume / skipRowsFor (formatters.go), faithful writer ---- *)
Section Printer.
Variables (R C : Z) (missing : Z) (zero_s : list Z) (nz : Z -> list Z) (count_on : bool).

Definition is_nil {A} (l : list A) : bool := match l with [] => true | _ => false end.

(* text emitted before the character, and indexInRow after that, for one rawPrinter.Consume *)
Definition pre (first : bool) (idx inrow : Z) : list Z * Z :=
  if idx =? 0 then (zero_s, inrow)
  else if (0 <? R) && (idx mod R =? 0) then ((if first then [] else [10]) ++ nz idx, 0)
  else if (0 <? C) && (inrow mod C =? 0) then ([32], inrow)
  else ([], inrow).

Definition raw_consume (st : list Z * Z * Z) (ch : Z) : list Z * Z * Z :=
  let '(out, idx, inrow) := st in
  let '(p, ir) := pre (is_nil out) idx inrow in
  (out ++ p ++ [ch], idx + 1, ir + 1).

Definition skip_rows (st : list Z * Z * Z) (posit : Z) : list Z * Z * Z :=
  let '(out, idx, inrow) := st in
  let cur := idx / R in
  let nxt := posit / R in
  if idx mod R =? 0 then (out, idx + (nxt - cur) * R, inrow)
  else if cur <? nxt then (out, idx + (nxt - cur - 1) * R, inrow)
  else st.

Fixpoint fill (n : nat) (st : list Z * Z * Z) : list Z * Z * Z :=
  match n with O => st | S n' => fill n' (raw_consume st missing) end.

Definition idx_of (st : list Z * Z * Z) : Z := snd (fst st).

Definition consume (st : list Z * Z * Z) (posit digit : Z) : list Z * Z * Z :=
  let st1 :=
    if idx_of st <? posit then
      let st0 := if (0 <? R) && count_on then skip_rows st posit else st in
      fill (Z.to_nat (posit - idx_of st0)) st0
    else st in
  raw_consume st1 (48 + digit).

Fixpoint consume_all (st : list Z * Z * Z) (shown : list (Z * Z)) : list Z * Z * Z :=
  match shown with
  | [] => st
  | (p, d) :: rest => consume_all (consume st p d) rest
  end.

Definition print_all (shown : list (Z * Z)) : list Z :=
  fst (fst (consume_all ([], 0, 0) shown)).

(* ---- declarative layout ---- *)
Definition canon (q : Z) : Z := if 0 <? R then q mod R else q.
Definition cell_pre (first : bool) (q : Z) : list Z := fst (pre first q (canon q)).

(* render an explicit list of cells (position, character) *)
Fixpoint render (first : bool) (cells : list (Z * Z)) : list Z :=
  match cells with
  | [] => []
  | (q, ch) :: rest => cell_pre first q ++ [ch] ++ render false rest
  end.

Definition rows_on : bool := (0 <? R) && count_on.

Fixpoint lookup (q : Z) (shown : list (Z * Z)) : option Z :=
  match shown with [] => None | (p, d) :: r => if p =? q then Some d else lookup q r end.

Definition in_rows (shown : list (Z * Z)) (q : Z) : bool :=
  existsb (fun pd => fst pd / R =? q / R) shown.

Definition pmax (shown : list (Z * Z)) : Z := fold_right (fun pd m => Z.max (fst pd) m) (-1) shown.

Definition is_cell (shown : list (Z * Z)) (q : Z) : bool :=
  (q <=? pmax shown) && (negb rows_on || in_rows shown q).

Definition cell_char (shown : list (Z * Z)) (q : Z) : Z :=
  match lookup q shown with Some d => 48 + d | None => missing end.

Fixpoint zseq (a : Z) (n : nat) : list Z :=
  match n with O => [] | S n' => a :: zseq (a + 1) n' end.

Definition layout (shown : list (Z * Z)) : list Z :=
  let qs := filter (is_cell shown) (zseq 0 (Z.to_nat (pmax shown + 1))) in
  render true (map (fun q => (q, cell_char shown q)) qs).
End Printer.
