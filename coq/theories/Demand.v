(* C06 / C15: which indices the read paths pass to memoizer.wait.  Mirrors of the clients of LayerC.v that collect
   the wait indices: none of them waits for an index beyond the position it is about to deliver, so by the
   read-ahead theorem (Conc.readahead: consulted <= largest waited index + B) the digits consulted stay within
   "highest position delivered or asked about" + 1 + B. *)
From Coq Require Import Arith List Lia Bool.
Require Import LayerC.
Import ListNotations.

Section Demand.
Variable D : nat -> option nat.
Variable W : nat -> nat -> nat * bool.

(* memoizer.At(i) waits for i and nothing else *)
Definition at_demand (i : nat) : list nat := [i].

(* Scan(idx, limit) stopped after k items: wait(idx) first, then wait(idx') whenever the snapshot is exhausted *)
Fixpoint scan_loop_demand (k : nat) (c idx limit len : nat) (ok : bool) : list nat :=
  match k with
  | O => []
  | S k' =>
    if ok && (idx <? limit) then
      let idx' := S idx in
      if idx' =? len then let '(len', ok') := W c idx' in idx' :: scan_loop_demand k' (S c) idx' limit len' ok'
      else scan_loop_demand k' c idx' limit len ok
    else []
  end.

Definition scan_demand (k c idx limit : nat) : list nat :=
  let '(len, ok) := W c idx in idx :: scan_loop_demand k (S c) idx limit len ok.

(* every index waited for during the loop is at most idx + (items yielded), i.e. the position after the last one delivered *)
Lemma scan_loop_demand_bound : forall k c idx limit len ok x,
  In x (scan_loop_demand k c idx limit len ok) ->
  idx < x <= idx + length (scan_loop D W k c idx limit len ok) /\ x <= limit.
Proof.
  induction k as [|k IH]; intros c idx limit len ok x H; cbn [scan_loop_demand scan_loop] in *; [destruct H|].
  destruct (ok && (idx <? limit)) eqn:Ec; [|destruct H].
  apply andb_prop in Ec. destruct Ec as (_ & Hl). apply Nat.ltb_lt in Hl.
  destruct (Nat.eqb_spec (S idx) len) as [He|He].
  - destruct (W c (S idx)) as [len' ok']. cbn [length]. destruct H as [<-|H]; [split; lia|].
    destruct (IH _ _ _ _ _ _ H). split; lia.
  - cbn [length]. destruct (IH _ _ _ _ _ _ H). split; lia.
Qed.

Theorem scan_demand_bound k c idx limit x : In x (scan_demand k c idx limit) ->
  x = idx \/ (idx < x <= idx + length (scan D W k c idx limit) /\ x <= limit).
Proof.
  unfold scan_demand, scan. destruct (W c idx) as [len ok]. intros [<-|H]; [now left|right].
  apply scan_loop_demand_bound. exact H.
Qed.

(* a pull of the v1/v2 iterator waits at most once, for the position after the one it delivers *)
Definition it_next_demand (s : it) : list nat :=
  if i_ok s then (if S (i_idx s) =? i_len s then [S (i_idx s)] else []) else [].

Theorem it_next_demand_bound s x : In x (it_next_demand s) -> x = S (i_idx s) /\ i_ok s = true.
Proof.
  unfold it_next_demand. destruct (i_ok s); [|intros []].
  destruct (S (i_idx s) =? i_len s); [|intros []]. intros [<-|[]]. auto.
Qed.
End Demand.
