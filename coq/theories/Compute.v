(* Constructor-level model of the root and rational constructors (compute.go + nRootFrac /
   NewNumberFromBigRat / v3 generator.go), and its specification in the properties' own form. *)
From Coq Require Import ZArith Lia List Bool.
Require Import Sqrt Cube Norm SqrtAll CubeAll C01Form RunList.
Import ListNotations.
Open Scope Z_scope.

Inductive kind := KSqrt | KCube | KRat.
Definition base_of (k : kind) : Z := match k with KSqrt => 100 | KCube => 1000 | KRat => 10 end.
Definition power_of (k : kind) : Z := match k with KSqrt => 2 | KCube => 3 | KRat => 1 end.

(* enough fuel for the two normalisation loops: one more than the bit length of max(num, den) *)
Definition norm_fuel (num den : Z) : nat := S (Z.to_nat (Z.log2 (Z.max num den))).

(* groupsToDigits at base 10: the state is the running numerator *)
Definition rat_step (den : Z) (num : Z) : option (Z * Z) :=
  match next_group num den 10 with
  | None => Some (-1, num)
  | Some (g, num') => Some (g, num')
  end.

Inductive result :=
| RPanic                       (* checkNumDenom panics *)
| RZero                        (* the zero number *)
| RFuel                        (* model ran out of fuel: proved unreachable *)
| RNum (e : Z) (ds : list Z) (ended : bool).   (* exponent, first digits, "the sequence ended after ds" *)

Definition ctor (k : kind) (num den : Z) (n : nat) : result :=
  if den <=? 0 then RPanic
  else if num <? 0 then RPanic
  else if num =? 0 then RZero
  else match groups_init (norm_fuel num den) num den (base_of k) with
       | None => RFuel
       | Some (n0, d0, e) =>
         let r := match k with
                  | KSqrt => option_map fst (run_list (gen_step d0) n (n0, 0, 1))
                  | KCube => option_map fst (run_list (cgen_step d0) n (n0, 0, 1, 6))
                  | KRat => option_map fst (run_list (rat_step d0) n n0)
                  end in
         match r with None => RFuel | Some (ds, ended) => RNum e ds ended end
       end.

(* ---- fuel ---- *)
Lemma norm_fuel_ok num den : 0 < num -> 0 < den ->
  den < num * 2 ^ Z.of_nat (norm_fuel num den) /\ num < den * 2 ^ Z.of_nat (norm_fuel num den).
Proof.
  intros Hn Hd. unfold norm_fuel. set (m := Z.max num den).
  assert (Hm : 0 < m) by (unfold m; lia).
  pose proof (Z.log2_nonneg m) as Hl.
  rewrite Nat2Z.inj_succ, Z2Nat.id by lia.
  pose proof (Z.log2_spec m Hm) as (_ & Hup).
  assert (num <= m /\ den <= m) by (unfold m; lia). nia.
Qed.

(* ---- specification in the properties' own form ---- *)
(* 10^[x] := 10 ^ max 0 x, so that statements about possibly negative exponents need no division *)
Definition pw (k : kind) (M : Z) : Z := match k with KSqrt => M * M | KCube => M ^ 3 | KRat => M end.

(* M (the first j digits) is the truncated root: M^p * 10^(p(e-j)) <= num/den < (M+1)^p * 10^(p(e-j)) *)
Definition trunc_ok (k : kind) (num den e : Z) (j : nat) (M : Z) : Prop :=
  let p := power_of k in
  pw k M * p10 (p * (e - Z.of_nat j)) * den <= num * p10 (p * (Z.of_nat j - e)) /\
  num * p10 (p * (Z.of_nat j - e)) < pw k (M + 1) * p10 (p * (e - Z.of_nat j)) * den.

(* the first j digits represent the root exactly *)
Definition exact_at (k : kind) (num den e : Z) (j : nat) (M : Z) : Prop :=
  let p := power_of k in
  pw k M * p10 (p * (e - Z.of_nat j)) * den = num * p10 (p * (Z.of_nat j - e)).

Record ctor_spec (k : kind) (num den : Z) (n : nat) (e : Z) (ds : list Z) (ended : bool) : Prop := {
  cs_len : (length ds <= n)%nat;
  cs_full : ended = false -> length ds = n;
  cs_range : Forall (fun d => 0 <= d <= 9) ds;
  cs_first : forall d0 r, ds = d0 :: r -> 1 <= d0;
  cs_trunc : forall j, (j <= length ds)%nat -> trunc_ok k num den e j (val (firstn j ds));
  cs_notyet : forall j, (j < length ds)%nat -> ~ exact_at k num den e j (val (firstn j ds));
  cs_end : ended = true -> exact_at k num den e (length ds) (val ds)
}.

(* ---- boolean checker of ctor_spec, run on the implementation's observations ---- *)
Definition trunc_ok_b (k : kind) (num den e : Z) (j : nat) (M : Z) : bool :=
  let p := power_of k in
  let a := p10 (p * (e - Z.of_nat j)) in
  let b := num * p10 (p * (Z.of_nat j - e)) in
  (pw k M * a * den <=? b) && (b <? pw k (M + 1) * a * den).

Definition exact_at_b (k : kind) (num den e : Z) (j : nat) (M : Z) : bool :=
  let p := power_of k in
  pw k M * p10 (p * (e - Z.of_nat j)) * den =? num * p10 (p * (Z.of_nat j - e)).

Fixpoint check_from (k : kind) (num den e : Z) (j : nat) (M : Z) (ds : list Z) : bool :=
  trunc_ok_b k num den e j M &&
  match ds with
  | [] => true
  | d :: r => (0 <=? d) && (d <=? 9) && negb (exact_at_b k num den e j M) && check_from k num den e (S j) (10 * M + d) r
  end.

Definition first_ok (ds : list Z) : bool := match ds with [] => true | d :: _ => 1 <=? d end.

Definition ctor_check (k : kind) (num den : Z) (n : nat) (e : Z) (ds : list Z) (ended : bool) : bool :=
  (length ds <=? n)%nat && (ended || (length ds =? n)%nat) && first_ok ds &&
  check_from k num den e 0 0 ds &&
  (negb ended || exact_at_b k num den e (length ds) (val ds)).

(* the same checker with the two powers of ten maintained incrementally (what the extracted driver runs) *)
Definition tp (k : kind) : Z := 10 ^ power_of k.

Fixpoint check_fast (k : kind) (den e : Z) (j : nat) (M a b : Z) (ds : list Z) : bool :=
  (* a = 10^[p(e-j)], b = num * 10^[p(j-e)] *)
  let lhs := pw k M * a * den in
  (lhs <=? b) && (b <? pw k (M + 1) * a * den) &&
  match ds with
  | [] => true
  | d :: r =>
    (0 <=? d) && (d <=? 9) && negb (lhs =? b) &&
    (if Z.of_nat j <? e then check_fast k den e (S j) (10 * M + d) (a / tp k) b r
     else check_fast k den e (S j) (10 * M + d) a (b * tp k) r)
  end.

Definition ctor_check_fast (k : kind) (num den : Z) (n : nat) (e : Z) (ds : list Z) (ended : bool) : bool :=
  (length ds <=? n)%nat && (ended || (length ds =? n)%nat) && first_ok ds &&
  check_fast k den e 0 0 (p10 (power_of k * e)) (num * p10 (power_of k * (- e))) ds &&
  (negb ended || exact_at_b k num den e (length ds) (val ds)).
