(* C12 "returns": with a writer that makes progress or reports an error on every non-empty Write (the only
   writers excluded are those answering (0, nil), on which bufio.Writer.Write itself loops forever), every bufio
   operation and hence the whole Fprint / Fwrite call terminates: the fuel 2*len+2 always suffices. *)
From Coq Require Import ZArith List Lia Bool Arith.
Require Import Bufio PrintOps.
Import ListNotations.
Local Close Scope Z_scope.

Section Term.
Variable wst : Type.
Variable wstep : wst -> list Z -> nat * bool * wst.
Variable size : nat.
Hypothesis size_pos : 0 < size.
Hypothesis progress : forall w p, p <> [] -> let '(n, e, _) := wstep w p in 0 < n \/ e = true.

Notation bst := (Bufio.bst wst).
Notation under := (Bufio.under wst wstep).
Notation flush := (Bufio.flush wst wstep).
Notation write := (Bufio.write wst wstep size).
Notation write_string := (Bufio.write_string wst wstep size).

Definition nonempty {A} (l : list A) : nat := match l with [] => 0 | _ => 1 end.

Lemma write_err fuel (s : bst) p : berr wst s = true -> write fuel s p = Some (s, p).
Proof. intros H. destruct fuel; cbn [Bufio.write]; rewrite H; cbn; rewrite andb_false_r; reflexivity. Qed.

Lemma write_string_err fuel (s : bst) p : berr wst s = true -> write_string fuel s p = Some (s, p).
Proof. intros H. destruct fuel; cbn [Bufio.write_string]; rewrite H; cbn; rewrite andb_false_r; reflexivity. Qed.

Lemma flush_cases (s : bst) : berr wst (flush s) = true \/ buf wst (flush s) = [].
Proof.
  unfold Bufio.flush. destruct (berr wst s) eqn:Eb; [left; exact Eb|].
  destruct (buf wst s) as [|b bs] eqn:Ebuf; [right; exact Ebuf|].
  destruct (under s (b :: bs)) as [[n e] s1]. destruct (e || (n <? length (b :: bs))); cbn; auto.
Qed.

Lemma under_n (s : bst) p : let '(n, e, s1) := under s p in
  n <= length p /\ buf wst s1 = buf wst s /\ (p <> [] -> e = false -> 0 < n).
Proof.
  unfold Bufio.under. pose proof (progress (ws wst s) p) as Hp. destruct (wstep (ws wst s) p) as [[n e] w'].
  cbn. split; [apply Nat.le_min_r|]. split; [reflexivity|]. intros Hne He. specialize (Hp Hne).
  destruct Hp as [Hp|Hp]; [|congruence]. destruct p; [congruence|]. cbn [length]. lia.
Qed.

Theorem write_terminates : forall fuel (s : bst) p,
  2 * length p + nonempty (buf wst s) + 1 <= fuel -> exists r, write fuel s p = Some r.
Proof.
  induction fuel as [|f IH]; intros s p Hf; [lia|].
  cbn [Bufio.write].
  destruct ((size - length (buf wst s) <? length p) && negb (berr wst s)) eqn:Ec.
  2:{ destruct (berr wst s); eauto. }
  apply andb_prop in Ec. destruct Ec as (Ec1 & Ec2). apply Nat.ltb_lt in Ec1. apply negb_true_iff in Ec2.
  destruct (buf wst s) as [|b bs] eqn:Ebuf.
  - (* direct write of a large p *)
    pose proof (under_n s p) as Hu. destruct (under s p) as [[n e] s1]. destruct Hu as (Hn & Hb & Hpos).
    destruct e.
    + rewrite write_err by reflexivity. eauto.
    + assert (Hp : p <> []) by (destruct p; [cbn in Ec1; lia|discriminate]).
      specialize (Hpos Hp eq_refl).
      apply IH. cbn [buf]. rewrite Hb, Ebuf. cbn [nonempty]. rewrite skipn_length. cbn [nonempty] in Hf. lia.
  - (* fill the buffer, flush, continue *)
    set (s1 := mk wst (acc wst s) ((b :: bs) ++ firstn (size - length (b :: bs)) p) (berr wst s) (ws wst s) (ncalls wst s) (after_err wst s) (nfault wst s)).
    destruct (flush_cases s1) as [He|He].
    + rewrite write_err by exact He. eauto.
    + apply IH. rewrite He. cbn [nonempty]. rewrite skipn_length. cbn [nonempty] in Hf. lia.
Qed.

Theorem write_string_terminates : forall fuel (s : bst) p,
  2 * length p + nonempty (buf wst s) + 1 <= fuel -> exists r, write_string fuel s p = Some r.
Proof.
  induction fuel as [|f IH]; intros s p Hf; [lia|].
  cbn [Bufio.write_string].
  destruct ((size - length (buf wst s) <? length p) && negb (berr wst s)) eqn:Ec.
  2:{ destruct (berr wst s); eauto. }
  apply andb_prop in Ec. destruct Ec as (Ec1 & Ec2). apply Nat.ltb_lt in Ec1.
  set (s1 := mk wst (acc wst s) (buf wst s ++ firstn (size - length (buf wst s)) p) (berr wst s) (ws wst s) (ncalls wst s) (after_err wst s) (nfault wst s)).
  destruct (flush_cases s1) as [He|He].
  - rewrite write_string_err by exact He. eauto.
  - apply IH. rewrite He. cbn [nonempty]. rewrite skipn_length.
    destruct (buf wst s) as [|b bs] eqn:Ebuf; cbn [nonempty length] in *; lia.
Qed.

(* every operation, with fuel 2*|bytes| + 2 *)
Theorem do_op_terminates fuel (s : bst) o : 2 * length (op_bytes o) + 2 <= fuel ->
  exists r, do_op wst wstep size fuel s o = Some r.
Proof.
  intros Hf. destruct o as [p|p|c|bs]; cbn [do_op op_bytes] in *.
  - apply write_terminates. destruct (buf wst s); cbn; lia.
  - apply write_string_terminates. destruct (buf wst s); cbn; lia.
  - eauto.
  - unfold write_rune. destruct bs as [|c [|c2 r]]; eauto.
    + destruct (berr wst s); eauto.
      destruct (berr wst (if (size - length (buf wst s) <? 4) then flush s else s)); eauto.
      destruct (size - length (buf wst (if (size - length (buf wst s) <? 4) then flush s else s)) <? 4); eauto.
      apply write_string_terminates. destruct (buf wst _); cbn; lia.
    + destruct (berr wst s); eauto.
      destruct (berr wst (if (size - length (buf wst s) <? 4) then flush s else s)); eauto.
      destruct (size - length (buf wst (if (size - length (buf wst s) <? 4) then flush s else s)) <? 4); eauto.
      apply write_string_terminates. destruct (buf wst _); cbn [nonempty]; cbn [length] in *; lia.
Qed.

Theorem exec_terminates fuel : forall ops (s : bst) issued,
  Forall (fun o => 2 * length (op_bytes o) + 2 <= fuel) ops ->
  exists r, exec wst wstep size fuel s ops issued = Some r.
Proof.
  induction ops as [|o r IH]; intros s issued Hf; cbn [exec]; [eauto|].
  inversion Hf as [|? ? Ho Hr]; subst.
  destruct (do_op_terminates fuel s o Ho) as ([s' rem] & ->).
  destruct (berr wst s'); eauto.
Qed.
End Term.

(* the property's writers - accept k more bytes, then fail in one of the four modes - make progress or report an error *)
Lemma fw_progress w p : p <> [] -> let '(n, e, _) := fw_step w p in 0 < n \/ e = true.
Proof.
  intros Hp. unfold fw_step.
  assert (Hl : (0 < length p)%nat) by (destruct p; [congruence|cbn; lia]).
  destruct (fw_faulted w).
  - destruct (fw_mode w =? 3)%Z; auto.
  - destruct (Z.leb_spec (Z.of_nat (length p)) (fw_left w)); [auto|].
    destruct (fw_mode w =? 0)%Z; [auto|]. destruct (fw_mode w =? 1)%Z; [auto|].
    destruct (fw_mode w =? 2)%Z; [|auto].
    destruct (Z.ltb_spec 0 (fw_left w)); [left; lia|auto].
Qed.

Theorem fprint_returns size w0 ops fuel : 0 < size ->
  Forall (fun o => 2 * length (op_bytes (fst o)) + 2 <= fuel) ops ->
  exists r, run_fprint fuel size w0 ops = Some r.
Proof.
  intros Hs Hf. unfold run_fprint.
  destruct (exec_terminates fw fw_step size Hs fw_progress fuel (map fst ops) (mk fw [] [] false w0 0 0 0) 0) as ([[s1 rem] issued] & ->).
  - rewrite Forall_map. exact Hf.
  - eauto.
Qed.
