From Coq Require Import Arith Lia List Bool.
Import ListNotations.

Section Memo.
Variable B K : nat.
Hypothesis Bpos : 0 < B.
Variable valid : nat -> bool.   (* k-th source call returns a digit 0..9 *)

Inductive tid := P | R (t : nat).
Inductive ppcT := PTop (i:nat) | PWtg (i:nat) | PParked (i:nat) | PWoken (i:nat) | PComp (i j:nat)
               | PPubWant (fin:bool) (i:nat) | PPub (fin:bool) (i:nat) | PPubU (fin:bool) (i:nat) | PExit.
Inductive rpcT := RIdle | RWant (x:nat) | RLocked (x:nat) | RLoop (x:nat) | RParked (x:nat) | RWoken (x:nat).

Record st := mk { lock : option tid; dlen : nat; done : bool; maxlen : nat;
                  ppc : ppcT; plocal : nat; rpc : nat -> rpcT; imax : nat }.

Definition upd (f : nat -> rpcT) (t : nat) (v : rpcT) : nat -> rpcT :=
  fun u => if Nat.eqb u t then v else f u.
Definition wake_all (f : nat -> rpcT) : nat -> rpcT :=
  fun u => match f u with RParked x => RWoken x | r => r end.
Definition wake_p (p : ppcT) := match p with PParked i => PWoken i | q => q end.
Definition newmax (x : nat) := B * Nat.min (x / B + 1) K.

Inductive label :=
| LCall (t x : nat) | LLock (a : tid) | LUnlock (a : tid) | LPark (a : tid) | LResume (a : tid)
| LSignal (t : nat) | LBroadcast | LIter (ok : bool) | LTau (a : tid)
| LReturn (t x len : nat) (ok : bool).

Inductive step : st -> label -> st -> Prop :=
(* producer *)
| s_ptop i s : ppc s = PTop i -> i < K -> lock s = None ->
    step s (LLock P) (mk (Some P) (dlen s) (done s) (maxlen s) (PWtg i) (plocal s) (rpc s) (imax s))
| s_ptop_end s : ppc s = PTop K ->
    step s (LTau P) (mk (lock s) (dlen s) (done s) (maxlen s) (PPubWant true K) (plocal s) (rpc s) (imax s))
| s_pwtg_park i s : ppc s = PWtg i -> maxlen s <= dlen s ->
    step s (LPark P) (mk None (dlen s) (done s) (maxlen s) (PParked i) (plocal s) (rpc s) (imax s))
| s_pwtg_go i s : ppc s = PWtg i -> dlen s < maxlen s ->
    step s (LUnlock P) (mk None (dlen s) (done s) (maxlen s) (PComp i 0) (plocal s) (rpc s) (imax s))
| s_pwoken i s : ppc s = PWoken i -> lock s = None ->
    step s (LResume P) (mk (Some P) (dlen s) (done s) (maxlen s) (PWtg i) (plocal s) (rpc s) (imax s))
| s_pcomp_ok i j s : ppc s = PComp i j -> j < B -> valid (plocal s) = true ->
    step s (LIter true) (mk (lock s) (dlen s) (done s) (maxlen s) (PComp i (S j)) (S (plocal s)) (rpc s) (imax s))
| s_pcomp_end i j s : ppc s = PComp i j -> j < B -> valid (plocal s) = false ->
    step s (LIter false) (mk (lock s) (dlen s) (done s) (maxlen s) (PPubWant true i) (plocal s) (rpc s) (imax s))
| s_pcomp_full i s : ppc s = PComp i B ->
    step s (LTau P) (mk (lock s) (dlen s) (done s) (maxlen s) (PPubWant false i) (plocal s) (rpc s) (imax s))
| s_ppubwant f i s : ppc s = PPubWant f i -> lock s = None ->
    step s (LLock P) (mk (Some P) (dlen s) (done s) (maxlen s) (PPub f i) (plocal s) (rpc s) (imax s))
| s_ppub f i s : ppc s = PPub f i ->
    step s LBroadcast (mk (lock s) (plocal s) f (maxlen s) (PPubU f i) (plocal s) (wake_all (rpc s)) (imax s))
| s_ppubu f i s : ppc s = PPubU f i ->
    step s (LUnlock P) (mk None (dlen s) (done s) (maxlen s) (if f then PExit else PTop (S i)) (plocal s) (rpc s) (imax s))
(* reader t *)
| s_rcall t x s : rpc s t = RIdle ->
    step s (LCall t x) (mk (lock s) (dlen s) (done s) (maxlen s) (ppc s) (plocal s) (upd (rpc s) t (RWant x)) (Nat.max (imax s) x))
| s_rwant t x s : rpc s t = RWant x -> lock s = None ->
    step s (LLock (R t)) (mk (Some (R t)) (dlen s) (done s) (maxlen s) (ppc s) (plocal s) (upd (rpc s) t (RLocked x)) (imax s))
| s_rlocked_raise t x s : rpc s t = RLocked x -> done s = false -> maxlen s <= x ->
    step s (LSignal t) (mk (lock s) (dlen s) (done s) (newmax x) (wake_p (ppc s)) (plocal s) (upd (rpc s) t (RLoop x)) (imax s))
| s_rlocked_skip t x s : rpc s t = RLocked x -> (done s = true \/ x < maxlen s) ->
    step s (LTau (R t)) (mk (lock s) (dlen s) (done s) (maxlen s) (ppc s) (plocal s) (upd (rpc s) t (RLoop x)) (imax s))
| s_rloop_park t x s : rpc s t = RLoop x -> done s = false -> dlen s <= x ->
    step s (LPark (R t)) (mk None (dlen s) (done s) (maxlen s) (ppc s) (plocal s) (upd (rpc s) t (RParked x)) (imax s))
| s_rloop_ret t x s : rpc s t = RLoop x -> (done s = true \/ x < dlen s) ->
    step s (LReturn t x (dlen s) (x <? dlen s)) (mk None (dlen s) (done s) (maxlen s) (ppc s) (plocal s) (upd (rpc s) t RIdle) (imax s))
| s_rwoken t x s : rpc s t = RWoken x -> lock s = None ->
    step s (LResume (R t)) (mk (Some (R t)) (dlen s) (done s) (maxlen s) (ppc s) (plocal s) (upd (rpc s) t (RLoop x)) (imax s)).

Definition init := mk None 0 false 0 (PTop 0) 0 (fun _ => RIdle) 0.

Inductive reach : st -> Prop :=
| r0 : reach init
| rS s l s' : reach s -> step s l s' -> reach s'.

Definition pholds p := match p with PWtg _ | PPub _ _ | PPubU _ _ => true | _ => false end.
Definition rholds r := match r with RLocked _ | RLoop _ => true | _ => false end.
Definition demand (s : st) (x : nat) := x < maxlen s \/ (maxlen s = B * K /\ B * K <= x).

Record Inv (s : st) : Prop := {
  i_lockP : (lock s = Some P <-> pholds (ppc s) = true);
  i_lockR : forall t, (lock s = Some (R t) <-> rholds (rpc s t) = true);
  i_parkedP : forall i, ppc s = PParked i -> maxlen s <= dlen s;
  i_parkedR : forall t x, rpc s t = RParked x -> done s = false /\ dlen s <= x /\ demand s x;
  i_loopR : forall t x, (rpc s t = RLoop x \/ rpc s t = RWoken x) -> done s = false -> demand s x;
  i_pos : match ppc s with
          | PTop i => dlen s = B * i /\ plocal s = B * i /\ done s = false /\ i <= K
          | PWtg i | PParked i | PWoken i => dlen s = B * i /\ plocal s = B * i /\ done s = false /\ i < K
          | PComp i j => dlen s = B * i /\ plocal s = B * i + j /\ done s = false /\ i < K /\ j <= B
          | PPubWant f i | PPub f i => done s = false /\ (f = false -> i < K /\ plocal s = B * S i)
          | PPubU f i => done s = f /\ (f = false -> i < K /\ dlen s = B * S i /\ plocal s = B * S i)
          | PExit => done s = true
          end;
  i_max_le : maxlen s <= B * K
}.

Lemma newmax_demand x : forall m, m = newmax x -> x < m \/ (m = B * K /\ B * K <= x).
Proof.
  intros m ->. unfold newmax.
  destruct (Nat.le_gt_cases (x / B + 1) K) as [H|H].
  - left. rewrite Nat.min_l by lia.
    pose proof (Nat.div_mod x B ltac:(lia)). pose proof (Nat.mod_upper_bound x B ltac:(lia)). nia.
  - right. rewrite Nat.min_r by lia. split; auto.
    pose proof (Nat.div_mod x B ltac:(lia)). pose proof (Nat.mod_upper_bound x B ltac:(lia)). nia.
Qed.

Lemma upd_same f t v : upd f t v t = v.
Proof. unfold upd. now rewrite Nat.eqb_refl. Qed.
Lemma upd_other f t v u : u <> t -> upd f t v u = f u.
Proof. unfold upd. intros H. apply Nat.eqb_neq in H. now rewrite H. Qed.

Lemma inv_init : Inv init.
Proof.
  constructor; cbn; try (intros; discriminate); try lia.
  - split; intros H; discriminate.
  - intros t; split; intros H; discriminate.
  - intros t x [H|H]; discriminate.
Qed.

Ltac updcase u t :=
  destruct (Nat.eq_dec u t) as [->|?]; [rewrite ?upd_same in * | rewrite ?upd_other in * by assumption].

Lemma demand_mono s s' x : maxlen s <= maxlen s' -> maxlen s' <= B * K -> demand s x -> demand s' x.
Proof. unfold demand. intros H1 H2 [H|[H H']]; [left; lia | right; split; lia]. Qed.


Lemma rholds_wake f u : rholds (wake_all f u) = rholds (f u).
Proof. unfold wake_all. destruct (f u); reflexivity. Qed.
Lemma pholds_wake p : pholds (wake_p p) = pholds p.
Proof. destruct p; reflexivity. Qed.

Ltac simp := cbn [lock dlen done maxlen ppc plocal rpc imax pholds rholds] in *.
Ltac ucase :=
  match goal with
  | |- context [upd _ ?t _ ?u] =>
    destruct (Nat.eq_dec u t) as [->|?]; [rewrite ?upd_same in * | rewrite ?upd_other in * by assumption]
  | H : context [upd _ ?t _ ?u] |- _ =>
    destruct (Nat.eq_dec u t) as [->|?]; [rewrite ?upd_same in * | rewrite ?upd_other in * by assumption]
  end.


Ltac rw_pc :=
  repeat match goal with
  | H : ppc ?s = _ |- _ => rewrite H in *; simp
  end.

(* field 1+2: mutual exclusion *)
Lemma step_lock s l s' : Inv s -> step s l s' ->
  (lock s' = Some P <-> pholds (ppc s') = true) /\
  (forall t, lock s' = Some (R t) <-> rholds (rpc s' t) = true).
Proof.
  intros [HP HR _ _ _ _ _] ST.
  destruct ST; simp; rw_pc.
  (* producer steps 1-11 *)
  1-11: split; [ | intros u; rewrite ?rholds_wake; specialize (HR u) ];
        repeat match goal with H : lock _ = _ |- _ => rewrite H in * end;
        try (destruct f; simp); intuition (try congruence; try discriminate).
  (* reader steps *)
  all: pose proof (HR t) as HRt; rewrite H in HRt; simp;
       split; [ | intros u; specialize (HR u); ucase; simp ]; rewrite ?pholds_wake;
       repeat match goal with H : lock _ = _ |- _ => rewrite H in * end;
       intuition (try congruence; try discriminate).
Qed.

Lemma newmax_le x : newmax x <= B * K.
Proof. unfold newmax. apply Nat.mul_le_mono_l. apply Nat.le_min_r. Qed.

Lemma newmax_ge x m : m <= x -> m <= B * K -> m <= newmax x.
Proof.
  intros H1 H2. destruct (newmax_demand x (newmax x) eq_refl) as [H|[H _]]; lia.
Qed.

Lemma wake_p_not_parked p i : wake_p p <> PParked i.
Proof. destruct p; cbn; discriminate. Qed.

Lemma step_max s l s' : Inv s -> step s l s' -> maxlen s <= maxlen s' /\ maxlen s' <= B * K.
Proof.
  intros I ST. pose proof (i_max_le _ I). destruct ST; simp; try lia.
  split; [apply newmax_ge; lia | apply newmax_le].
Qed.

Lemma step_parkedP s l s' : Inv s -> step s l s' -> forall i, ppc s' = PParked i -> maxlen s' <= dlen s'.
Proof.
  intros I ST. pose proof (i_parkedP _ I) as HPP.
  destruct ST; simp; intros i0 E; try (rewrite E in *; eauto; fail); try discriminate; try lia;
    try (eapply HPP; congruence).
  - (* ppubu *) destruct f; discriminate.
  - (* raise *) exfalso. eapply wake_p_not_parked; eauto.
Qed.

Lemma wake_all_not_parked f u x : wake_all f u <> RParked x.
Proof. unfold wake_all. destruct (f u); discriminate. Qed.

Lemma wake_all_cases f u x : wake_all f u = RWoken x -> f u = RParked x \/ f u = RWoken x.
Proof. unfold wake_all. destruct (f u); intros E; inversion E; auto. Qed.
Lemma wake_all_loop f u x : wake_all f u = RLoop x -> f u = RLoop x.
Proof. unfold wake_all. destruct (f u); intros E; inversion E; auto. Qed.

Lemma step_parkedR s l s' : Inv s -> step s l s' ->
  forall t x, rpc s' t = RParked x -> done s' = false /\ dlen s' <= x /\ demand s' x.
Proof.
  intros I ST. pose proof (i_parkedR _ I) as HPR. pose proof (i_loopR _ I) as HLR.
  pose proof (step_max _ _ _ I ST) as (Hm1 & Hm2).
  destruct ST; simp; intros u y E;
    try (destruct (HPR u y E) as (A & B0 & C); repeat split; auto; fail).
  - (* ppub *) exfalso. eapply wake_all_not_parked; eauto.
  - (* rcall *) ucase; [discriminate|]. destruct (HPR u y E) as (A & B0 & C); auto.
  - ucase; [discriminate|]. destruct (HPR u y E) as (A & B0 & C); auto.
  - ucase; [discriminate|]. destruct (HPR u y E) as (A & B0 & C); repeat split; auto.
    eapply demand_mono; [| |exact C]; simp; auto.
  - ucase; [discriminate|]. destruct (HPR u y E) as (A & B0 & C); auto.
  - (* rloop_park *) ucase.
    + inversion E; subst. repeat split; auto. apply (HLR t y); auto.
    + destruct (HPR u y E) as (A & B0 & C); auto.
  - ucase; [discriminate|]. destruct (HPR u y E) as (A & B0 & C); auto.
  - ucase; [discriminate|]. destruct (HPR u y E) as (A & B0 & C); auto.
Qed.

Lemma step_loopR s l s' : Inv s -> step s l s' ->
  forall t x, (rpc s' t = RLoop x \/ rpc s' t = RWoken x) -> done s' = false -> demand s' x.
Proof.
  intros I ST. pose proof (i_parkedR _ I) as HPR. pose proof (i_loopR _ I) as HLR.
  pose proof (i_max_le _ I) as HML. pose proof (i_pos _ I) as HPos.
  destruct ST; simp; intros u y E Hd; try (apply (HLR u y); auto; fail).
  - (* ppub *) rewrite H in HPos. destruct HPos as (Hdf & _).
    destruct E as [E|E].
    + apply wake_all_loop in E. apply (HLR u y); auto.
    + apply wake_all_cases in E. destruct E as [E|E].
      * apply (HPR u y E).
      * apply (HLR u y); auto.
  - (* rcall *) ucase; [destruct E; discriminate|]. apply (HLR u y); auto.
  - (* rwant *) ucase; [destruct E; discriminate|]. apply (HLR u y); auto.
  - (* raise *) ucase.
    + destruct E as [E|E]; [|discriminate]. inversion E; subst.
      apply (newmax_demand y). reflexivity.
    + eapply demand_mono; [| |apply (HLR u y); auto]; simp; [apply newmax_ge; lia|apply newmax_le].
  - (* skip *) ucase.
    + destruct E as [E|E]; [|discriminate]. inversion E; subst.
      destruct H0 as [H0|H0]; [congruence|]. left. exact H0.
    + apply (HLR u y); auto.
  - (* park *) ucase; [destruct E; discriminate|]. apply (HLR u y); auto.
  - (* ret *) ucase; [destruct E; discriminate|]. apply (HLR u y); auto.
  - (* rwoken *) ucase.
    + destruct E as [E|E]; [|discriminate]. inversion E; subst. apply (HLR t y); auto.
    + apply (HLR u y); auto.
Qed.

Lemma step_pos s l s' : Inv s -> step s l s' ->
  match ppc s' with
  | PTop i => dlen s' = B * i /\ plocal s' = B * i /\ done s' = false /\ i <= K
  | PWtg i | PParked i | PWoken i => dlen s' = B * i /\ plocal s' = B * i /\ done s' = false /\ i < K
  | PComp i j => dlen s' = B * i /\ plocal s' = B * i + j /\ done s' = false /\ i < K /\ j <= B
  | PPubWant f i | PPub f i => done s' = false /\ (f = false -> i < K /\ plocal s' = B * S i)
  | PPubU f i => done s' = f /\ (f = false -> i < K /\ dlen s' = B * S i /\ plocal s' = B * S i)
  | PExit => done s' = true
  end.
Proof.
  intros I ST. pose proof (i_pos _ I) as HPos.
  destruct ST; simp; try (rewrite H in HPos; simp); try exact HPos;
    try (intuition (try lia; try discriminate); fail).
  - (* ppubu *) destruct f; simp; intuition (try lia; try congruence).
  - (* raise *) destruct (ppc s); simp; exact HPos.
Qed.

Theorem inv_step s l s' : Inv s -> step s l s' -> Inv s'.
Proof.
  intros I ST. constructor.
  - apply (step_lock s l s' I ST).
  - apply (step_lock s l s' I ST).
  - apply (step_parkedP s l s' I ST).
  - apply (step_parkedR s l s' I ST).
  - apply (step_loopR s l s' I ST).
  - apply (step_pos s l s' I ST).
  - apply (step_max s l s' I ST).
Qed.

Theorem reach_inv s : reach s -> Inv s.
Proof. induction 1; [apply inv_init | eapply inv_step; eauto]. Qed.

(* return values satisfy the wait contract (at the level of lengths):
   ok <-> x < len, and a negative answer is only given once the sequence is complete *)
Theorem return_contract s t x len ok s' :
  reach s -> step s (LReturn t x len ok) s' ->
  len = dlen s /\ (ok = true <-> x < len) /\ (ok = false -> done s = true).
Proof.
  intros _ ST. inversion ST; subst. split; [reflexivity|]. split.
  - apply Nat.ltb_lt.
  - intros Hf. apply Nat.ltb_ge in Hf.
    match goal with H : _ \/ _ |- _ => destruct H as [H|H]; [exact H|lia] end.
Qed.

Definition is_call (l : label) := match l with LCall _ _ => true | _ => false end.
Definition can_move (s : st) := exists l s', step s l s' /\ is_call l = false.

Ltac mv c := eexists; eexists; split; [eapply c; eauto|reflexivity].

Lemma reader_holder_moves s u : rholds (rpc s u) = true -> can_move s.
Proof.
  intros Hh. destruct (rpc s u) eqn:Eu; try discriminate.
  - destruct (done s) eqn:Ed; [mv s_rlocked_skip|].
    destruct (Nat.le_gt_cases (maxlen s) x); [mv s_rlocked_raise|mv s_rlocked_skip].
  - destruct (done s) eqn:Ed; [mv s_rloop_ret|].
    destruct (Nat.le_gt_cases (dlen s) x); [mv s_rloop_park|mv s_rloop_ret].
Qed.

Lemma producer_holder_moves s : pholds (ppc s) = true -> can_move s.
Proof.
  intros Hh. destruct (ppc s) eqn:Ep; try discriminate.
  - destruct (Nat.le_gt_cases (maxlen s) (dlen s)); [mv s_pwtg_park|mv s_pwtg_go].
  - mv s_ppub.
  - mv s_ppubu.
Qed.

(* deadlock freedom: while some reader is inside a call, some internal step is enabled *)
Theorem deadlock_free s : reach s -> (exists t, rpc s t <> RIdle) -> can_move s.
Proof.
  intros Hr (t & Ht). pose proof (reach_inv s Hr) as I.
  destruct I as [ILP ILR IPP IPR ILo IPos IMax].
  destruct (lock s) as [[|u]|] eqn:El.
  - apply producer_holder_moves. apply ILP. reflexivity.
  - apply (reader_holder_moves s u). apply ILR. reflexivity.
  - (* lock free *)
    assert (HnP : pholds (ppc s) = false).
    { destruct (pholds (ppc s)) eqn:E; auto. destruct ILP as [_ H2]. specialize (H2 eq_refl). discriminate. }
    assert (HnR : forall u, rholds (rpc s u) = false).
    { intros u. destruct (rholds (rpc s u)) eqn:E; auto. apply ILR in E. discriminate. }
    (* a wanting or woken reader can take the lock *)
    destruct (rpc s t) eqn:Et; try congruence.
    + mv s_rwant.
    + specialize (HnR t). rewrite Et in HnR. discriminate.
    + specialize (HnR t). rewrite Et in HnR. discriminate.
    + (* t is parked: the producer must be able to move *)
      destruct (IPR t x Et) as (Hd & Hle & Hdem).
      destruct (ppc s) eqn:Ep; simp; try discriminate.
      * destruct (Nat.eq_dec i K) as [->|Hne]; [mv s_ptop_end|]. mv s_ptop. lia.
      * (* parked producer: impossible *)
        exfalso. specialize (IPP i eq_refl). destruct IPos as (Hdl & _ & _ & HiK).
        destruct Hdem as [Hdem|(Hm & Hx)]; [lia|].
        assert (B * i < B * K) by (apply Nat.mul_lt_mono_pos_l; lia). lia.
      * mv s_pwoken.
      * destruct IPos as (_ & _ & _ & _ & HjB).
        destruct (Nat.eq_dec j B) as [->|Hne]; [mv s_pcomp_full|].
        destruct (valid (plocal s)) eqn:Ev; [mv s_pcomp_ok; lia|mv s_pcomp_end; lia].
      * mv s_ppubwant.
      * congruence.
    + mv s_rwoken.
Qed.

(* ---- source discipline / read-ahead (C06): ghost imax = largest index any call has carried ---- *)
Definition rarg (r : rpcT) : option nat :=
  match r with RIdle => None | RWant x | RLocked x | RLoop x | RParked x | RWoken x => Some x end.

Record Inv2 (s : st) : Prop := {
  i2_mult : exists c, maxlen s = B * c;
  i2_comp : forall i j, ppc s = PComp i j -> dlen s < maxlen s;
  i2_calls : plocal s <= maxlen s;
  i2_imax : maxlen s = 0 \/ exists x, x <= imax s /\ maxlen s = newmax x;
  i2_rx : forall t x, rarg (rpc s t) = Some x -> x <= imax s
}.

Lemma inv2_init : Inv2 init.
Proof.
  constructor; cbn; try lia; try (intros; discriminate); auto.
  exists 0. lia.
Qed.

Lemma rarg_wake f u : rarg (wake_all f u) = rarg (f u).
Proof. unfold wake_all. destruct (f u); reflexivity. Qed.

Lemma inv2_step s l s' : Inv s -> Inv2 s -> step s l s' -> Inv2 s'.
Proof.
  intros I [HM HC HCl HI HR] ST. pose proof (i_pos _ I) as HPos. pose proof (i_max_le _ I) as HML.
  pose proof (step_max _ _ _ I ST) as (Hm1 & Hm2).
  constructor.
  - (* multiple of B *)
    destruct ST; simp; auto. unfold newmax. eexists; reflexivity.
  - (* computing only below maxlen *)
    destruct ST; simp; intros i0 j0 E; try (rewrite H in *; simp); try discriminate;
      try (inversion E; subst; eauto; fail); try (eapply HC; eauto; fail).
    + destruct f; discriminate.
    + (* raise *) destruct (ppc s) eqn:Ep; simp; try discriminate.
      inversion E; subst. specialize (HC _ _ eq_refl). lia.
  - (* calls <= maxlen *)
    destruct ST; simp; try lia.
    (* pcomp_ok *)
    rewrite H in HPos. destruct HPos as (Hd & Hpl & _ & _ & _).
    specialize (HC _ _ H). destruct HM as (c & Hc).
    assert (i < c) by nia. nia.
  - (* maxlen comes from some call index <= imax *)
    destruct ST; simp; auto.
    + (* rcall: imax grows *)
      destruct HI as [HI|(y & Hy & Hyy)]; [auto|right; exists y; split; [lia|auto]].
    + (* raise *) right. exists x. split; auto. apply (HR t x). rewrite H. reflexivity.
  - (* reader arguments are bounded by imax *)
    destruct ST; simp; intros u y E; rewrite ?rarg_wake in E; try (eapply HR; eauto; fail).
    all: ucase; simp; try (inversion E; subst; try lia); try (eapply HR; eauto; fail).
    all: try (apply (HR t); rewrite H; reflexivity).
    all: try (specialize (HR u y E); lia).
Qed.

Theorem reach_inv2 s : reach s -> Inv2 s.
Proof.
  induction 1; [apply inv2_init|]. eapply inv2_step; eauto. apply reach_inv; auto.
Qed.

Lemma newmax_bound x : newmax x <= B * (x / B + 1).
Proof. unfold newmax. apply Nat.mul_le_mono_l. apply Nat.le_min_l. Qed.

(* bounded read-ahead: digits consulted never exceed (largest index asked) + B *)
Theorem readahead s : reach s -> plocal s <= imax s + B /\ (maxlen s = 0 -> plocal s = 0).
Proof.
  intros Hr. destruct (reach_inv2 s Hr) as [_ _ HCl HI _]. split; [|lia].
  destruct HI as [HI|(x & Hx & Hm)]; [lia|].
  pose proof (newmax_bound x). 
  assert (B * (x / B) <= x) by (apply Nat.mul_div_le; lia).
  assert (x / B <= imax s / B) by (apply Nat.div_le_mono; lia).
  assert (B * (imax s / B) <= imax s) by (apply Nat.mul_div_le; lia).
  nia.
Qed.

(* ---- progress: from every reachable state a pending call can still complete ---- *)
Definition pidx_le (s : st) : Prop :=
  match ppc s with PPubWant _ i | PPub _ i | PPubU _ i => i <= K | _ => True end.

Lemma pidx_init : pidx_le init. Proof. exact I. Qed.

Lemma pidx_step s l s' : Inv s -> pidx_le s -> step s l s' -> pidx_le s'.
Proof.
  intros I HP ST. pose proof (i_pos _ I) as HPos. unfold pidx_le in *.
  destruct ST; simp; try (rewrite H in *; simp); auto; try lia; try (intuition lia).
  - destruct f; simp; auto.
  - destruct (ppc s); simp; auto.
Qed.

Lemma reach_pidx s : reach s -> pidx_le s.
Proof. induction 1; [apply pidx_init|]. eapply pidx_step; eauto. apply reach_inv; auto. Qed.

Section Progress.
Variable t : nat.

Definition phase (r : rpcT) : nat :=
  match r with RIdle => 0 | RWant _ | RLocked _ => 2 | _ => 1 end.
Definition trank (r : rpcT) : nat :=
  match r with RIdle => 0 | RParked _ => 1 | RLoop _ => 2 | RWoken _ => 3 | RLocked _ => 4 | RWant _ => 5 end.
Definition need (p : ppcT) : nat :=
  match p with
  | PExit => 0
  | PTop i | PWtg i | PParked i | PWoken i | PComp i _ | PPubWant _ i | PPub _ i | PPubU _ i => K + 1 - i
  end.
Definition prank (p : ppcT) : nat :=
  match p with
  | PTop _ => B + 8 | PWoken _ => B + 7 | PWtg _ => B + 6 | PComp _ j => B + 5 - j
  | PPubWant _ _ => 3 | PPub _ _ => 2 | PPubU _ _ => 1 | PParked _ => 0 | PExit => 0
  end.
Definition other (s : st) : nat :=
  match lock s with
  | Some (R u) => if Nat.eqb u t then 0 else match rpc s u with RLocked _ => 2 | RLoop _ => 1 | _ => 0 end
  | _ => 0
  end.

Definition M (s : st) : nat * nat * nat * nat * nat :=
  (phase (rpc s t), need (ppc s), other s, prank (ppc s), trank (rpc s t)).

Definition lex5 (a b : nat * nat * nat * nat * nat) : Prop :=
  let '(a1, a2, a3, a4, a5) := a in let '(b1, b2, b3, b4, b5) := b in
  a1 < b1 \/ (a1 = b1 /\ (a2 < b2 \/ (a2 = b2 /\ (a3 < b3 \/ (a3 = b3 /\ (a4 < b4 \/ (a4 = b4 /\ a5 < b5))))))).

(* well-foundedness through an explicit bound-free argument: nested strong inductions *)
Lemma lex5_wf : well_founded lex5.
Proof.
  intros [[[[a1 a2] a3] a4] a5]. revert a2 a3 a4 a5.
  induction a1 as [a1 IH1] using lt_wf_ind. intros a2.
  induction a2 as [a2 IH2] using lt_wf_ind. intros a3.
  induction a3 as [a3 IH3] using lt_wf_ind. intros a4.
  induction a4 as [a4 IH4] using lt_wf_ind. intros a5.
  induction a5 as [a5 IH5] using lt_wf_ind.
  constructor. intros [[[[b1 b2] b3] b4] b5] H. cbn in H.
  destruct H as [H|(-> & [H|(-> & [H|(-> & [H|(-> & H)])])])].
  - apply IH1; auto.
  - apply IH2; auto.
  - apply IH3; auto.
  - apply IH4; auto.
  - apply IH5; auto.
Qed.

Ltac mvp c := eexists; eexists; split; [eapply c; eauto|split; [reflexivity|]].

Lemma other_nolock s : lock s = None -> other s = 0.
Proof. unfold other. intros ->. reflexivity. Qed.
Lemma other_P s : lock s = Some P -> other s = 0.
Proof. unfold other. intros ->. reflexivity. Qed.

(* a helpful internal step always exists and lowers the measure (or completes the call) *)
Theorem progress_step s : reach s -> rpc s t <> RIdle ->
  exists l s', step s l s' /\ is_call l = false /\ (rpc s' t = RIdle \/ lex5 (M s') (M s)).
Proof.
  intros Hr Ht. pose proof (reach_inv s Hr) as I. pose proof (reach_pidx s Hr) as HPI.
  destruct I as [ILP ILR IPP IPR ILo IPos IMax].
  destruct (lock s) as [[|u]|] eqn:El.
  - (* the producer holds the lock *)
    assert (Hh : pholds (ppc s) = true) by (apply ILP; reflexivity).
    assert (Ho : other s = 0) by (apply other_P; auto).
    destruct (ppc s) eqn:Ep; try discriminate; simp.
    + destruct (Nat.le_gt_cases (maxlen s) (dlen s)).
      * mvp s_pwtg_park. right. unfold M, other; simp. rewrite Ep. simp. cbn. lia.
      * mvp s_pwtg_go. right. unfold M, other; simp. rewrite Ep. simp. cbn. lia.
    + mvp s_ppub. right. unfold M, other; simp. rewrite Ep, El. cbn [need prank].
      assert (phase (wake_all (rpc s) t) = phase (rpc s t)) by (unfold wake_all; destruct (rpc s t); reflexivity).
      rewrite H. cbn. lia.
    + mvp s_ppubu. right. unfold M, other; simp. rewrite Ep. unfold pidx_le in HPI. rewrite Ep in HPI.
      destruct fin; cbn; lia.
  - (* a reader holds the lock *)
    assert (Hh : rholds (rpc s u) = true) by (apply ILR; reflexivity).
    destruct (Nat.eq_dec u t) as [->|Hne].
    + (* it is t itself *)
      destruct (rpc s t) eqn:Et; try discriminate.
      * (* RLocked -> RLoop: phase drops *)
        destruct (done s) eqn:Ed.
        -- mvp s_rlocked_skip. right. unfold M; simp. rewrite upd_same, Et. cbn. lia.
        -- destruct (Nat.le_gt_cases (maxlen s) x).
           ++ mvp s_rlocked_raise. right. unfold M; simp. rewrite upd_same, Et. cbn. lia.
           ++ mvp s_rlocked_skip. right. unfold M; simp. rewrite upd_same, Et. cbn. lia.
      * destruct (done s) eqn:Ed.
        -- mvp s_rloop_ret. left. simp. apply upd_same.
        -- destruct (Nat.le_gt_cases (dlen s) x).
           ++ mvp s_rloop_park. right. unfold M, other; simp. rewrite upd_same, Et, El.
              rewrite Nat.eqb_refl. cbn. lia.
           ++ mvp s_rloop_ret. left. simp. apply upd_same.
    + (* another reader: let it finish its critical section *)
      assert (Hneb : Nat.eqb u t = false) by (apply Nat.eqb_neq; auto).
      assert (Htu : forall v, upd (rpc s) u v t = rpc s t) by (intros; apply upd_other; auto).
      destruct (rpc s u) eqn:Eu; try discriminate.
      * destruct (done s) eqn:Ed; [|destruct (Nat.le_gt_cases (maxlen s) x)].
        -- mvp s_rlocked_skip. right. unfold M, other; simp. rewrite Htu, El, Hneb, Eu, upd_same. cbn. lia.
        -- mvp s_rlocked_raise. right. unfold M, other; simp. rewrite Htu, El, Hneb, Eu, upd_same.
           assert (need (wake_p (ppc s)) = need (ppc s)) by (destruct (ppc s); reflexivity).
           rewrite H0. cbn. lia.
        -- mvp s_rlocked_skip. right. unfold M, other; simp. rewrite Htu, El, Hneb, Eu, upd_same. cbn. lia.
      * destruct (done s) eqn:Ed; [|destruct (Nat.le_gt_cases (dlen s) x)].
        -- mvp s_rloop_ret. right. unfold M, other; simp. rewrite Htu, El, Hneb, Eu. cbn. lia.
        -- mvp s_rloop_park. right. unfold M, other; simp. rewrite Htu, El, Hneb, Eu. cbn. lia.
        -- mvp s_rloop_ret. right. unfold M, other; simp. rewrite Htu, El, Hneb, Eu. cbn. lia.
  - (* the lock is free *)
    assert (Ho : other s = 0) by (apply other_nolock; auto).
    assert (HnP : pholds (ppc s) = false).
    { destruct (pholds (ppc s)) eqn:E; auto. destruct ILP as [_ H2]. specialize (H2 eq_refl). discriminate. }
    assert (HnR : forall u, rholds (rpc s u) = false).
    { intros u. destruct (rholds (rpc s u)) eqn:E; auto. apply ILR in E. discriminate. }
    destruct (rpc s t) eqn:Et; try congruence.
    + mvp s_rwant. right. unfold M, other; simp. rewrite upd_same, Et. rewrite Nat.eqb_refl. cbn. lia.
    + specialize (HnR t). rewrite Et in HnR. discriminate.
    + specialize (HnR t). rewrite Et in HnR. discriminate.
    + (* t is parked: the producer moves *)
      destruct (IPR t x Et) as (Hd & Hle & Hdem).
      destruct (ppc s) eqn:Ep; simp; try discriminate.
      * destruct (Nat.eq_dec i K) as [->|Hne].
        -- mvp s_ptop_end. right. unfold M, other; simp. rewrite Ep, El. cbn. lia.
        -- mvp s_ptop. lia. right. unfold M, other; simp. rewrite Ep. cbn. lia.
      * exfalso. specialize (IPP i eq_refl). destruct IPos as (Hdl & _ & _ & HiK).
        destruct Hdem as [Hdem|(Hm & Hx)]; [lia|].
        assert (B * i < B * K) by (apply Nat.mul_lt_mono_pos_l; lia). lia.
      * mvp s_pwoken. right. unfold M, other; simp. rewrite Ep. cbn. lia.
      * destruct IPos as (_ & _ & _ & _ & HjB).
        destruct (Nat.eq_dec j B) as [->|Hne].
        -- mvp s_pcomp_full. right. unfold M, other; simp. rewrite Ep, El. cbn. lia.
        -- destruct (valid (plocal s)) eqn:Ev.
           ++ mvp s_pcomp_ok. lia. right. unfold M, other; simp. rewrite Ep, El. cbn. lia.
           ++ mvp s_pcomp_end. lia. right. unfold M, other; simp. rewrite Ep, El. cbn. lia.
      * mvp s_ppubwant. right. unfold M, other; simp. rewrite Ep. cbn. lia.
      * congruence.
    + mvp s_rwoken. right. unfold M, other; simp. rewrite upd_same, Et. rewrite Nat.eqb_refl. cbn. lia.
Qed.

(* sequences of internal steps (no new calls from the environment) *)
Inductive isteps : st -> st -> Prop :=
| is_refl s : isteps s s
| is_step s l s' s'' : step s l s' -> is_call l = false -> isteps s' s'' -> isteps s s''.

(* No pending call is ever beyond rescue: from every reachable state there is a finite run of internal steps
   after which reader t's call has returned.  Together with progress_step's measure this is the model-level
   content of "no call whose answer is determinable blocks forever". *)
Theorem can_complete s : reach s -> exists s', isteps s s' /\ reach s' /\ rpc s' t = RIdle.
Proof.
  remember (M s) as m eqn:Em. revert s Em.
  induction m as [m IH] using (well_founded_induction lex5_wf). intros s Em Hr.
  destruct (rpc s t) eqn:Et.
  1: { exists s. split; [constructor|auto]. }
  all: destruct (progress_step s Hr ltac:(congruence)) as (l & s1 & Hs & Hc & Hd);
         assert (Hr1 : reach s1) by (econstructor; eauto);
         destruct Hd as [Hd|Hd];
         [ exists s1; split; [econstructor; eauto; constructor|auto]
         | subst m; destruct (IH (M s1) Hd s1 eq_refl Hr1) as (s2 & H1 & H2 & H3);
           exists s2; split; [econstructor; eauto|auto] ].
Qed.
End Progress.
End Memo.
Print Assumptions can_complete.
Check can_complete.
