(* Glue between the two formal models of reading a view: the listing that the history model (HistModel.v, what
   the correspondence runs compare the implementation with) answers from, and the read paths as coded through the
   view's numberSpec (ViewReads.v, proved against every wait oracle).  With view_scan_spec / view_at_spec /
   view_rev_spec this gives: the code's Scan / At / ReverseScan over a view, whatever the interleaving, delivers
   exactly the history model's answers. *)
From Coq Require Import ZArith List Lia Bool Arith.
Require Import Views HistModel LayerC ViewReads.
Import ListNotations.
Open Scope Z_scope.

Definition Dn (d : dsrc) (j : nat) : option nat := option_map Z.to_nat (digit_at d (Z.of_nat j)).
Definition nspec_of (sp : spec) : nspec :=
  match sp with SNil => NNil | SMemo => NMemo | SLim l => NLim (Z.to_nat l) end.
Fixpoint spec_of (v : val) : spec := match v with FN sp _ | MWS sp _ => sp | ON i | OS i => spec_of i end.
Definition zpair (pd : nat * nat) : Z * Z := (Z.of_nat (fst pd), Z.of_nat (snd pd)).
Definition digits_ok (d : dsrc) : Prop := Forall (fun x => 0 <= x) (d_fixed d ++ d_rep d).

Lemma digit_at_in d p x : digit_at d p = Some x -> In x (d_fixed d ++ d_rep d).
Proof.
  unfold digit_at. destruct (p <? 0); [discriminate|].
  destruct (p <? Z.of_nat (length (d_fixed d))).
  - intros H. apply nth_error_In in H. apply in_or_app. now left.
  - destruct (d_rep d) as [|r0 rr] eqn:E; [discriminate|]. intros H. apply nth_error_In in H. apply in_or_app. now right.
Qed.

Lemma digit_at_nonneg d p x : digits_ok d -> digit_at d p = Some x -> 0 <= x.
Proof. intros Hok H. apply digit_at_in in H. unfold digits_ok in Hok. rewrite Forall_forall in Hok. apply Hok. exact H. Qed.

(* beyond the end of a finite digit string there is nothing *)
Lemma digit_at_beyond d p l : dlen d = Some l -> l <= p -> digit_at d p = None.
Proof.
  unfold dlen, digit_at. destruct (d_rep d); [|discriminate]. intros [= <-] H.
  destruct (p <? 0); [reflexivity|]. destruct (Z.ltb_spec p (Z.of_nat (length (d_fixed d)))); [lia|reflexivity].
Qed.

Lemma hi_spec_of v : hi v = spec_hi (spec_of v).
Proof. induction v; cbn; auto. Qed.

Lemma wf_spec_of v : wf v -> wf_spec (spec_of v).
Proof.
  destruct v as [sp e|sp st|i|i]; cbn; try tauto.
  - destruct i; cbn; tauto.
  - destruct i; cbn; tauto.
Qed.

(* the history model's forward listing is the view's listing through its numberSpec *)
Theorem fwd_list_is_view_listing d sp : wf_spec sp -> digits_ok d -> forall k p,
  fwd_list d (omin2 (spec_hi sp) (dlen d)) (Z.of_nat p) k = map zpair (view_listing (Dn d) k (nspec_of sp) p).
Proof.
  intros Hw Hok. induction k as [|k IH]; intros p; cbn [fwd_list view_listing map]; [reflexivity|].
  unfold Dview, in_spec.
  assert (Hin : (match spec_limit (nspec_of sp) with None => true | Some l => (p <? l)%nat end)
                = below (Z.of_nat p) (spec_hi sp)).
  { destruct sp as [| |l]; cbn [nspec_of spec_limit spec_hi below].
    - destruct (Z.ltb_spec (Z.of_nat p) 0); [lia|reflexivity].
    - reflexivity.
    - cbn in Hw. destruct (Nat.ltb_spec p (Z.to_nat l)), (Z.ltb_spec (Z.of_nat p) l); try reflexivity; lia. }
  rewrite Hin.
  destruct (below (Z.of_nat p) (omin2 (spec_hi sp) (dlen d))) eqn:Eb.
  - assert (Hb : below (Z.of_nat p) (spec_hi sp) = true).
    { unfold below, omin2 in *. destruct (spec_hi sp), (dlen d); try reflexivity;
        try (apply Z.ltb_lt in Eb; apply Z.ltb_lt; lia). }
    rewrite Hb. unfold Dn. destruct (digit_at d (Z.of_nat p)) as [x|] eqn:Ed; cbn [option_map map]; [|reflexivity].
    pose proof (digit_at_nonneg d _ x Hok Ed). f_equal.
    + unfold zpair; cbn. f_equal. lia.
    + replace (Z.of_nat p + 1) with (Z.of_nat (S p)) by lia. apply IH.
  - (* at or beyond the end of the view or of the digits *)
    destruct (below (Z.of_nat p) (spec_hi sp)) eqn:Hb; [|reflexivity].
    assert (digit_at d (Z.of_nat p) = None) as Ed.
    { unfold below, omin2 in *. destruct (spec_hi sp) as [h|]; destruct (dlen d) as [l|] eqn:El.
      - apply Z.ltb_lt in Hb. apply Z.ltb_ge in Eb. apply (digit_at_beyond d _ l El). lia.
      - congruence.
      - apply Z.ltb_ge in Eb. apply (digit_at_beyond d _ l El). lia.
      - discriminate. }
    unfold Dn. rewrite Ed. reflexivity.
Qed.

Corollary fwd_list_of_view d v k : wf v -> digits_ok d ->
  fwd_list d (eff_hi d v) (eff_lo v) k =
  map zpair (view_listing (Dn d) k (nspec_of (spec_of v)) (Z.to_nat (eff_lo v))).
Proof.
  intros Hw Hok. unfold eff_hi. rewrite hi_spec_of.
  rewrite <- (fwd_list_is_view_listing d (spec_of v) (wf_spec_of v Hw) Hok).
  f_equal. unfold eff_lo. lia.
Qed.

(* At through the numberSpec = the history model's answer (positions from the view's start on) *)
Lemma at_of_view_aux d sp p : wf_spec sp -> 
  (if below (Z.of_nat p) (omin2 (spec_hi sp) (dlen d)) then digit_at d (Z.of_nat p) else None)
  = option_map Z.of_nat (Dview (Dn d) (nspec_of sp) p) \/ exists x, digit_at d (Z.of_nat p) = Some x /\ x < 0.
Proof.
  intros Hw. unfold Dview, in_spec.
  assert (Hin : (match spec_limit (nspec_of sp) with None => true | Some l => (p <? l)%nat end)
                = below (Z.of_nat p) (spec_hi sp)).
  { destruct sp as [| |l]; cbn [nspec_of spec_limit spec_hi below].
    - destruct (Z.ltb_spec (Z.of_nat p) 0); [lia|reflexivity].
    - reflexivity.
    - cbn in Hw. destruct (Nat.ltb_spec p (Z.to_nat l)), (Z.ltb_spec (Z.of_nat p) l); try reflexivity; lia. }
  rewrite Hin. unfold Dn.
  destruct (digit_at d (Z.of_nat p)) as [x|] eqn:Ed.
  - destruct (Z.lt_ge_cases x 0) as [Hneg|Hpos]; [right; exists x; auto|left].
    unfold below, omin2. destruct (spec_hi sp) as [h|]; destruct (dlen d) as [l|] eqn:El.
    + destruct (Z.ltb_spec (Z.of_nat p) (Z.min h l)), (Z.ltb_spec (Z.of_nat p) h); cbn [option_map]; try reflexivity; try lia.
      * rewrite Z2Nat.id by lia. reflexivity.
      * rewrite (digit_at_beyond d _ l El) in Ed by lia. discriminate.
    + destruct (Z.ltb_spec (Z.of_nat p) h); cbn [option_map]; [rewrite Z2Nat.id by lia|]; reflexivity.
    + destruct (Z.ltb_spec (Z.of_nat p) l); cbn [option_map].
      * rewrite Z2Nat.id by lia. reflexivity.
      * rewrite (digit_at_beyond d _ l El) in Ed by lia. discriminate.
    + cbn [option_map]. rewrite Z2Nat.id by lia. reflexivity.
  - left. cbn. destruct (below _ (omin2 _ _)), (below _ (spec_hi sp)); reflexivity.
Qed.

Theorem at_of_view d sp p : wf_spec sp -> digits_ok d ->
  (if below (Z.of_nat p) (omin2 (spec_hi sp) (dlen d)) then digit_at d (Z.of_nat p) else None)
  = option_map Z.of_nat (Dview (Dn d) (nspec_of sp) p).
Proof.
  intros Hw Hok. destruct (at_of_view_aux d sp p Hw) as [H|(x & Hx & Hneg)]; [exact H|].
  pose proof (digit_at_nonneg d _ x Hok Hx). lia.
Qed.

(* the digit string is closed upwards (what the Layer C theorems ask of D) *)
Lemma Dn_closed d i : Dn d i = None -> Dn d (S i) = None.
Proof.
  unfold Dn. destruct (digit_at d (Z.of_nat i)) eqn:E; [discriminate|]. intros _.
  assert (digit_at d (Z.of_nat (S i)) = None) as ->; [|reflexivity].
  unfold digit_at in *. destruct (Z.ltb_spec (Z.of_nat i) 0); [lia|]. destruct (Z.ltb_spec (Z.of_nat (S i)) 0); [lia|].
  destruct (Z.ltb_spec (Z.of_nat i) (Z.of_nat (length (d_fixed d)))).
  - apply nth_error_None in E. lia.
  - destruct (Z.ltb_spec (Z.of_nat (S i)) (Z.of_nat (length (d_fixed d)))); [lia|].
    destruct (d_rep d) as [|r0 rr]; [reflexivity|].
    apply nth_error_None in E. exfalso.
    pose proof (Z.mod_pos_bound (Z.of_nat i - Z.of_nat (length (d_fixed d))) (Z.of_nat (length (r0 :: rr)))
                  ltac:(cbn [length]; lia)). lia.
Qed.

(* ---- end to end: the code's read paths over a view, against every wait oracle, give the history model's answers ---- *)
Section EndToEnd.
Variable d : dsrc.
Hypothesis d_ok : digits_ok d.
Variable W : nat -> nat -> nat * bool.
Hypothesis W_ok : forall c i, WaitOK (Dn d) i (W c i).

(* All / Values / Scan stopped after k items *)
Theorem scan_is_model big k c v : wf v ->
  (forall q, (q < Z.to_nat (eff_lo v) + k)%nat -> Dn d q <> None -> (q < big)%nat) ->
  (match nspec_of (spec_of v) with NLim l => (l <= big)%nat | _ => True end) ->
  map zpair (view_scan (Dn d) W big k c (nspec_of (spec_of v)) (Z.to_nat (eff_lo v)))
  = fwd_list d (eff_hi d v) (eff_lo v) k.
Proof.
  intros Hw Hbig Hl. rewrite (view_scan_spec (Dn d) (Dn_closed d) W W_ok big k c _ _ Hbig Hl).
  rewrite (fwd_list_of_view d v k Hw d_ok). f_equal.
  (* the clamp of the index to the limit changes nothing: from the limit on the view lists nothing *)
  destruct (nspec_of (spec_of v)) as [| |l] eqn:E; try reflexivity.
  destruct (Nat.le_gt_cases (Z.to_nat (eff_lo v)) l) as [Hle|Hgt]; [rewrite Nat.min_l by lia; reflexivity|].
  rewrite Nat.min_r by lia.
  assert (Hn : forall p, (l <= p)%nat -> view_listing (Dn d) k (NLim l) p = []).
  { intros p Hp. destruct k as [|k']; [reflexivity|]. cbn [view_listing]. unfold Dview, in_spec. cbn [spec_limit].
    destruct (Nat.ltb_spec p l); [lia|reflexivity]. }
  rewrite (Hn l) by lia. rewrite Hn by lia. reflexivity.
Qed.

(* At *)
Theorem at_is_model c v p : wf v ->
  option_map Z.of_nat (view_at (Dn d) W c (nspec_of (spec_of v)) p)
  = (if below (Z.of_nat p) (eff_hi d v) then digit_at d (Z.of_nat p) else None).
Proof.
  intros Hw. rewrite (view_at_spec (Dn d) (Dn_closed d) W W_ok). unfold eff_hi. rewrite hi_spec_of.
  symmetry. apply at_of_view; [apply wf_spec_of; exact Hw|exact d_ok].
Qed.
End EndToEnd.

(* ---- pull iterators: the history model's HNX answers for a forward iterator (position next, bound h) are the
   consecutive (position, digit) pairs that the composed v1/v2 iterator stacks of LayerC3.v deliver ---- *)
Require Import LayerC3.

Fixpoint hnx_fwd (d : dsrc) (h : option Z) (p : Z) (n : nat) : list (option (Z * Z)) :=
  match n with
  | O => []
  | S n' =>
    match (if below p h then digit_at d p else None) with
    | Some x => Some (p, x) :: hnx_fwd d h (p + 1) n'
    | None => None :: hnx_fwd d h p n'
    end
  end.

Theorem hnx_is_pairs d sp : wf_spec sp -> digits_ok d -> forall n p,
  hnx_fwd d (omin2 (spec_hi sp) (dlen d)) (Z.of_nat p) n
  = map (option_map zpair) (expect_pairs (Dview (Dn d) (nspec_of sp)) n p).
Proof.
  intros Hw Hok. induction n as [|n IH]; intros p; cbn [hnx_fwd expect_pairs map]; [reflexivity|].
  rewrite (at_of_view d sp p Hw Hok).
  destruct (Dview (Dn d) (nspec_of sp) p) as [x|]; cbn [option_map map].
  - f_equal. replace (Z.of_nat p + 1) with (Z.of_nat (S p)) by lia. apply IH.
  - f_equal. apply IH.
Qed.

(* a limited view's digits are the parent's cut at the limit: Dview through NLim is LayerC3's Elim *)
Lemma Dview_lim D l p : Dview D (NLim l) p = Elim D l p.
Proof. reflexivity. Qed.

(* hnx_fwd is what the history model answers to repeated pulls of one forward iterator *)
Definition enc_pull (r : option (Z * Z)) : list Z := match r with Some (p, x) => [p; x] | None => [-1; -1] end.

Theorem run_ops_pulls ver d vs : forall n p h lo,
  run_ops ver d (mkH vs [Some (HistModel.mkIt p true h lo true)]) (repeat (HNX 0) n)
  = flat_map enc_pull (hnx_fwd d h p n).
Proof.
  induction n as [|n IH]; intros p h lo; [reflexivity|].
  cbn [repeat run_ops step nth h_its HistModel.it_fwd HistModel.it_next HistModel.it_hi HistModel.it_lo HistModel.it_pos hnx_fwd].
  destruct (if below p h then digit_at d p else None) as [x|] eqn:E.
  - cbn [firstn skipn app h_views]. cbn [flat_map enc_pull app]. f_equal. f_equal. apply IH.
  - cbn [flat_map enc_pull app]. f_equal. f_equal. apply IH.
Qed.
