From Coq Require Import ZArith Lia List.
Require Import Sqrt Norm.
Open Scope Z_scope.

(* the closure returned by computeRootDigits, as a step function on (num, rem, incr);
   result digit -1 = end of digits; None = digit loop out of fuel (never happens) *)
Definition gen_step (den : Z) (st : Z * Z * Z) : option (Z * (Z * Z * Z)) :=
  let '(num, rem, incr) := st in
  match next_group num den 100 with
  | None =>
    if rem =? 0 then Some (-1, st)
    else match sq_step 10 (rem, incr) 0 with
         | Some (r', i', d) => Some (d, (num, r', i'))
         | None => None
         end
  | Some (g, num') =>
    match sq_step 10 (rem, incr) g with
    | Some (r', i', d) => Some (d, (num', r', i'))
    | None => None
    end
  end.

(* run k steps; stop at the first -1. Returns (number of digits produced, their value P, final state) *)
Fixpoint gen_run (k : nat) (den : Z) (st : Z * Z * Z) (cnt : nat) (P : Z) : option (nat * Z * (Z * Z * Z) * bool) :=
  match k with
  | O => Some (cnt, P, st, false)
  | S k' =>
    match gen_step den st with
    | None => None
    | Some (d, st') =>
      if d =? -1 then Some (cnt, P, st, true)
      else gen_run k' den st' (S cnt) (10 * P + d)
    end
  end.

(* invariant tying the generator state after c digits to the radicand mantissa n/d *)
Definition RInv (n d : Z) (c : nat) (P : Z) (st : Z * Z * Z) : Prop :=
  let '(num, rem, incr) := st in
  let X := (n * 100 ^ Z.of_nat c) / d in
  num = (n * 100 ^ Z.of_nat c) mod d /\ rem = X - P * P /\ 0 <= rem <= 2 * P /\ incr = 20 * P + 1 /\ 0 <= P.

Lemma X_succ n d c : 0 < d -> 0 <= n ->
  let X := (n * 100 ^ Z.of_nat c) / d in
  let r := (n * 100 ^ Z.of_nat c) mod d in
  (n * 100 ^ Z.of_nat (S c)) / d = X * 100 + (r * 100) / d /\
  (n * 100 ^ Z.of_nat (S c)) mod d = (r * 100) mod d.
Proof.
  intros Hd Hn X r. rewrite Nat2Z.inj_succ, Z.pow_succ_r by lia.
  set (p := 100 ^ Z.of_nat c) in *.
  assert (E : n * (100 * p) = (X * 100) * d + r * 100).
  { pose proof (Z.div_mod (n * p) d ltac:(lia)). subst X r. nia. }
  rewrite E. split.
  - rewrite Z.div_add_l by lia. reflexivity.
  - rewrite Z.add_comm, Z.mod_add by lia. reflexivity.
Qed.

Lemma gen_step_inv n d c P st : 0 < d -> 0 <= n -> RInv n d c P st ->
  exists dg st', gen_step d st = Some (dg, st') /\
    ( (dg = -1 /\ (n * 100 ^ Z.of_nat c) mod d = 0 /\ P * P = (n * 100 ^ Z.of_nat c) / d)
    \/ (0 <= dg <= 9 /\ RInv n d (S c) (10 * P + dg) st' /\
        ~ ((n * 100 ^ Z.of_nat c) mod d = 0 /\ P * P = (n * 100 ^ Z.of_nat c) / d)) ).
Proof.
  intros Hd Hn. destruct st as [[num rem] incr]. intros (Hnum & Hrem & Hr & Hi & HP).
  destruct (X_succ n d c Hd Hn) as (HX & HM). cbn zeta in HX, HM.
  set (X := (n * 100 ^ Z.of_nat c) / d) in *. rewrite <- Hnum in HX, HM.
  pose proof (Z.mod_pos_bound (n * 100 ^ Z.of_nat c) d Hd) as Hb. rewrite <- Hnum in Hb.
  unfold gen_step, next_group.
  destruct (Z.eqb_spec num 0) as [Hz|Hnz].
  - destruct (Z.eqb_spec rem 0) as [Hr0|Hr0].
    + exists (-1), (num, rem, incr). split; [reflexivity|]. left. repeat split; try lia.
    + subst incr. destruct (sq_step_spec rem P 0 HP Hr ltac:(lia)) as (r' & dg & He & Hdg & Hr' & Heq).
      rewrite He. exists dg, (num, r', 20 * (10 * P + dg) + 1). split; [reflexivity|]. right.
      split; [lia|]. split; [|lia].
      assert (E1 : num * 100 / d = 0) by (rewrite Hz; apply Z.div_0_l; lia).
      assert (E2 : (num * 100) mod d = 0) by (rewrite Hz; apply Z.mod_0_l; lia).
      unfold RInv. rewrite HX, HM, E1, E2.
      repeat split; try lia.
  - subst incr.
    assert (Hg : 0 <= num * 100 / d < 100).
    { split; [apply Z.div_pos; lia|apply Z.div_lt_upper_bound; lia]. }
    destruct (sq_step_spec rem P (num * 100 / d) HP Hr Hg) as (r' & dg & He & Hdg & Hr' & Heq).
    rewrite He. exists dg, ((num * 100) mod d, r', 20 * (10 * P + dg) + 1). split; [reflexivity|]. right.
    split; [lia|]. split; [|lia].
    unfold RInv. rewrite HX, HM. repeat split; try lia.
Qed.

(* main statement in the model's natural form: after c digits with value P,
   P^2 * d <= n * 100^c < (P+1)^2 * d ; the run ends exactly when equality is reached with no remainder *)
Theorem gen_run_spec n d : 0 < d -> 0 <= n -> forall k c P st,
  RInv n d c P st ->
  exists c' P' st' ended, gen_run k d st c P = Some (c', P', st', ended) /\
    RInv n d c' P' st' /\ (c <= c' <= c + k)%nat /\
    (ended = false -> c' = (c + k)%nat) /\
    (ended = true -> (n * 100 ^ Z.of_nat c') mod d = 0 /\ P' * P' = (n * 100 ^ Z.of_nat c') / d).
Proof.
  intros Hd Hn. induction k as [|k IH]; intros c P st HI.
  - cbn. exists c, P, st, false. repeat split; auto; try lia; discriminate.
  - cbn [gen_run]. destruct (gen_step_inv n d c P st Hd Hn HI) as (dg & st' & Hs & Hc).
    rewrite Hs. destruct Hc as [(-> & H1 & H2)|(Hdg & HI' & _)].
    + cbn. exists c, P, st, true. repeat split; auto; try lia; discriminate.
    + destruct (Z.eqb_spec dg (-1)); [lia|].
      destruct (IH (S c) (10 * P + dg) st' HI') as (c' & P' & st'' & e & Hr & HI'' & Hc' & He1 & He2).
      exists c', P', st'', e. rewrite Hr. repeat split; auto; try lia.
      all: try (intros E; specialize (He1 E); lia).
      all: apply He2; assumption.
Qed.

Corollary sqrt_truncated n d c P st : 0 < d -> 0 <= n -> RInv n d c P st ->
  P * P * d <= n * 100 ^ Z.of_nat c < (P + 1) * (P + 1) * d.
Proof.
  intros Hd Hn. destruct st as [[num rem] incr]. intros (Hnum & Hrem & Hr & Hi & HP).
  set (N := n * 100 ^ Z.of_nat c) in *.
  pose proof (Z.div_mod N d ltac:(lia)). pose proof (Z.mod_pos_bound N d Hd). nia.
Qed.

Lemma RInv_init n d : 0 < d -> 0 <= n < d -> RInv n d 0 0 (n, 0, 1).
Proof.
  intros Hd Hn. unfold RInv. cbn. rewrite Z.mul_1_r. rewrite Z.mod_small, Z.div_small by lia. lia.
Qed.
Print Assumptions gen_run_spec.
Print Assumptions sqrt_truncated.
