(* C07: a chain of view operations denotes the intersection of the intervals, in any order. *)
From Coq Require Import ZArith List Lia Bool.
Require Import Views.
Import ListNotations.
Open Scope Z_scope.

(* the constraint an operation places on positions *)
Definition op_allows (o : vop) (p : Z) : Prop :=
  match o with
  | OpWithStart s | OpFiniteWithStart s => s <= p
  | OpWithEnd e | OpWithSignificant e => p < e
  end.

Theorem chain_view : forall ops v v', wf v -> apply_chain v ops = Ok v' ->
  wf v' /\ forall p, in_view v' p <-> in_view v p /\ Forall (fun o => op_allows o p) ops.
Proof.
  induction ops as [|o r IH]; intros v v' Hw H; cbn [apply_chain] in H.
  - inversion H; subst. split; auto. intros p. split; [intros Hp; split; auto|tauto].
  - assert (Hstep : exists v1, apply_op v o = Ok v1 /\ wf v1 /\ forall p, in_view v1 p <-> in_view v p /\ op_allows o p).
    { destruct o as [s|e|k|s]; cbn [apply_op op_allows] in *.
      - exists (with_start v s). split; auto. apply with_start_view; auto.
      - exists (with_end v e). split; auto. apply with_end_view; auto.
      - unfold with_significant in *.
        destruct v as [sp ex|sp st|[sp ex|?|?|?]|?]; try discriminate;
          destruct (Z.ltb_spec k 0); try discriminate;
          match goal with |- exists v1, Ok ?w = Ok v1 /\ _ => exists w; split; [reflexivity|apply with_end_view; auto] end.
      - unfold finite_with_start in *. destruct (is_finite_type v); [|discriminate].
        exists (with_start v s). split; auto. apply with_start_view; auto. }
    destruct Hstep as (v1 & E1 & W1 & V1). rewrite E1 in H.
    destruct (IH v1 v' W1 H) as (W' & V'). split; auto.
    intros p. rewrite V', V1. split.
    + intros ((A & B) & C). split; auto.
    + intros (A & C). inversion C; subst. tauto.
Qed.

(* the result depends only on the interval, not on the order of the chain *)
Corollary chain_order_free ops1 ops2 v v1 v2 : wf v ->
  (forall o, In o ops1 <-> In o ops2) ->
  apply_chain v ops1 = Ok v1 -> apply_chain v ops2 = Ok v2 ->
  forall p, in_view v1 p <-> in_view v2 p.
Proof.
  intros Hw Hperm H1 H2 p.
  destruct (chain_view ops1 v v1 Hw H1) as (_ & V1). destruct (chain_view ops2 v v2 Hw H2) as (_ & V2).
  rewrite V1, V2, !Forall_forall. split; intros (A & B); split; auto; intros o Ho; apply B; apply Hperm; auto.
Qed.

(* WithSignificant: negative limit panics; otherwise the exponent is kept when a digit can remain
   (limit > 0 on a non-zero number) and the zero number (exponent 0) results when limit = 0 *)
Lemma with_significant_cases sp e k :
  with_significant (FN sp e) k =
    if k <? 0 then Panic
    else Ok (fn_with_mantissa sp e (with_limit sp k)).
Proof. unfold with_significant. destruct (k <? 0); reflexivity. Qed.

Lemma with_significant_zero sp e : sp <> SNil -> with_significant (FN sp e) 0 = Ok zero.
Proof.
  intros Hsp. rewrite with_significant_cases. cbn. unfold fn_with_mantissa, with_limit. cbn.
  destruct sp; [congruence| |]; reflexivity.
Qed.

Lemma with_significant_keeps_exponent sp e k v : 0 < k -> sp <> SNil ->
  with_significant (FN sp e) k = Ok v -> exists sp', v = FN sp' e /\ sp' <> SNil.
Proof.
  intros Hk Hsp. rewrite with_significant_cases. destruct (Z.ltb_spec k 0); [lia|].
  intros Hv. inversion Hv; subst. clear Hv. unfold fn_with_mantissa.
  destruct (spec_eqb (with_limit sp k) sp) eqn:E; [exists sp; auto|].
  unfold with_limit in *. destruct (Z.leb_spec k 0); [lia|].
  destruct sp as [| |l]; [congruence| |].
  - exists (SLim k). split; [reflexivity|discriminate].
  - destruct (l <=? k); [exists (SLim l)|exists (SLim k)]; split; try reflexivity; discriminate.
Qed.
