From Coq Require Import ZArith List Lia Bool Arith.
Import ListNotations.
Require Import KmpModel KmpSpec.

Lemma getZ_nat l (k : nat) : getZ l (Z.of_nat k) = nth_error l k.
Proof. unfold getZ. destruct (Z.ltb_spec (Z.of_nat k) 0); [lia|]. now rewrite Nat2Z.id. Qed.

(* table correct for indices 0..n *)
Definition TblUpTo (pat tbl : list Z) (n : nat) : Prop :=
  length tbl = S n /\ nth_error tbl 0 = Some (-1)%Z /\
  forall j, (1 <= j <= n)%nat -> exists b, nth_error tbl j = Some (Z.of_nat b) /\ MaxBd pat j b.

Section Fallback.
Variables (pat tbl w : list Z) (c : Z) (n : nat).
Hypothesis Htbl : TblUpTo pat tbl n.

Definition Cand (k' : nat) := P pat w k' /\ nth_error pat k' = Some c.

Lemma fallback_spec : forall fuel k, (k < fuel)%nat -> (k < length pat)%nat -> (k <= n)%nat -> P pat w k ->
  exists r, fallback fuel pat tbl c (Z.of_nat k) = Some r /\
    ( (r = (-1)%Z /\ forall k', (k' <= k)%nat -> ~ Cand k')
    \/ (exists k', r = Z.of_nat k' /\ (k' <= k)%nat /\ Cand k' /\
                   forall k'', (k'' <= k)%nat -> Cand k'' -> (k'' <= k')%nat) ).
Proof.
  induction fuel as [|f IH]; intros k Hf Hm Hn HP; [lia|].
  cbn [fallback]. destruct (Z.eqb_spec (Z.of_nat k) (-1)); [lia|].
  rewrite getZ_nat. destruct (nth_error pat k) as [x|] eqn:Ex.
  2:{ apply nth_error_None in Ex. lia. }
  destruct (Z.eqb_spec c x) as [Heq|Hne].
  - (* found at k *)
    rewrite <- Heq in Ex. exists (Z.of_nat k). split; auto. right. exists k. unfold Cand. repeat split; auto; try lia; apply HP.
  - (* fall back *)
    rewrite getZ_nat.
    destruct Htbl as (Hlen & H0 & Hj).
    destruct k as [|k1].
    + rewrite H0. exists (-1)%Z. split.
      * destruct f; cbn; reflexivity.
      * left. split; auto. intros k' Hk' (HP' & Hc'). assert (k' = 0)%nat by lia. subst. congruence.
    + destruct (Hj (S k1) ltac:(lia)) as (b & Hb & (HBd & Hmax)).
      rewrite Hb.
      assert (Hblt : (b < S k1)%nat) by (destruct HBd; lia).
      assert (HPb : P pat w b) by (apply (P_below pat w (S k1) b HP Hblt); exact HBd).
      destruct (IH b ltac:(lia) ltac:(lia) ltac:(lia) HPb) as (r & Hr & Hcases).
      exists r. split; [exact Hr|].
      assert (Hbelow : forall k', (k' <= S k1)%nat -> Cand k' -> (k' <= b)%nat).
      { intros k' Hk' (HP' & Hc'). destruct (Nat.eq_dec k' (S k1)) as [->|Hd]; [congruence|].
        apply Hmax. apply (P_below pat w (S k1) k' HP ltac:(lia)). exact HP'. }
      destruct Hcases as [(-> & Hnone)|(k' & -> & Hk' & HC & Hbest)].
      * left. split; auto. intros k' Hk' HC. apply (Hnone k'); auto.
      * right. exists k'. split; [reflexivity|]. split; [lia|]. split; [exact HC|].
        intros k'' Hk'' HC''. apply Hbest; auto.
Qed.
End Fallback.

Definition St (pat w : list Z) (k : nat) : Prop :=
  (k < length pat)%nat /\ P pat w k /\
  forall k', (k' < length pat)%nat -> P pat w k' -> (k' <= k)%nat.

Lemma St_nil pat : (0 < length pat)%nat -> St pat [] 0.
Proof.
  intros H. repeat split; try lia; try apply P_zero.
  intros k' _ (Hk & _). cbn in Hk. lia.
Qed.

Lemma visit_spec pat tbl w k d :
  TblUpTo pat tbl (length pat) -> St pat w k ->
  exists k2 b, visit pat tbl (Z.of_nat k) d = Some (Z.of_nat k2, b) /\
               St pat (w ++ [d]) k2 /\ (b = true <-> P pat (w ++ [d]) (length pat)).
Proof.
  intros Htbl (Hk & HP & Hmax). unfold visit. rewrite getZ_nat.
  destruct (nth_error pat k) as [x|] eqn:Ex.
  2:{ apply nth_error_None in Ex. lia. }
  set (m := length pat) in *.
  destruct (Z.eqb_spec d x) as [Heq|Hne].
  - (* advance *)
    rewrite <- Heq in Ex.
    assert (HPs : P pat (w ++ [d]) (S k)) by (apply P_snoc; auto).
    destruct (Z.eqb_spec (Z.of_nat k + 1) (Z.of_nat m)) as [Hfull|Hnot].
    + (* full match: state := tbl[m] *)
      assert (Hkm : S k = m) by lia.
      destruct Htbl as (Hlen & H0 & Hj).
      destruct (Hj m ltac:(lia)) as (b & Hb & (HBd & HBmax)).
      replace (Z.of_nat k + 1)%Z with (Z.of_nat m) by lia. rewrite getZ_nat, Hb.
      exists b, true. split; [reflexivity|]. rewrite Hkm in HPs. split.
      * assert (b < m)%nat by (destruct HBd; lia).
        split; [lia|]. split.
        -- apply (P_below pat (w ++ [d]) m b HPs H). exact HBd.
        -- intros k' Hk' HP'. apply HBmax. apply (P_below pat (w ++ [d]) m k' HPs Hk'). exact HP'.
      * split; auto.
    + exists (S k), false. replace (Z.of_nat k + 1)%Z with (Z.of_nat (S k)) by lia.
      split; [reflexivity|]. split.
      * split; [lia|]. split; [exact HPs|].
        intros k' Hk' HP'. destruct k' as [|k0]; [lia|].
        apply P_snoc in HP'. destruct HP' as (HP0 & _).
        specialize (Hmax k0 ltac:(lia) HP0). lia.
      * split; [discriminate|]. intros HPm. exfalso.
        destruct m as [|m0]; [lia|]. apply P_snoc in HPm. destruct HPm as (HP0 & _).
        specialize (Hmax m0 ltac:(lia) HP0). lia.
  - (* mismatch: fall back *)
    destruct (fallback_spec pat tbl w d m Htbl (S k) k ltac:(lia) Hk ltac:(lia) HP) as (r & Hr & Hcases).
    replace (Z.to_nat (Z.of_nat k) + 1)%nat with (S k) by lia. rewrite Hr.
    assert (Hall : forall k0, (k0 < m)%nat -> P pat w k0 -> nth_error pat k0 = Some d -> (k0 <= k)%nat /\ k0 <> k).
    { intros k0 Hk0 HP0 Hc0. split; [apply Hmax; auto|]. intros ->. congruence. }
    destruct Hcases as [(-> & Hnone)|(k' & -> & Hk' & (HPk' & Hck') & Hbest)].
    + exists 0%nat, false. split; [reflexivity|]. split.
      * split; [lia|]. split; [apply P_zero|].
        intros k1 Hk1 HP1. destruct k1 as [|k0]; [lia|]. exfalso.
        apply P_snoc in HP1. destruct HP1 as (HP0 & Hc0).
        apply (Hnone k0); [apply Hall; auto; lia|split; auto].
      * split; [discriminate|]. intros HPm. exfalso.
        destruct m as [|m0]; [lia|]. apply P_snoc in HPm. destruct HPm as (HP0 & Hc0).
        apply (Hnone m0); [apply Hall; auto; lia|split; auto].
    + assert (k' <> k) by (intros ->; congruence).
      exists (S k'), false. replace (Z.of_nat k' + 1)%Z with (Z.of_nat (S k')) by lia.
      split; [reflexivity|]. split.
      * split; [lia|]. split; [apply P_snoc; auto|].
        intros k1 Hk1 HP1. destruct k1 as [|k0]; [lia|].
        apply P_snoc in HP1. destruct HP1 as (HP0 & Hc0).
        assert (k0 <= k')%nat; [|lia]. apply Hbest; [apply Hall; auto; lia|split; auto].
      * split; [discriminate|]. intros HPm. exfalso.
        destruct m as [|m0]; [lia|]. apply P_snoc in HPm. destruct HPm as (HP0 & Hc0).
        assert (m0 <= k')%nat; [|lia]. apply Hbest; [apply Hall; auto; lia|split; auto].
Qed.

(* ---- table construction ---- *)
Lemma firstn_S_snoc (l : list Z) i c : nth_error l i = Some c -> firstn (S i) l = firstn i l ++ [c].
Proof.
  revert i. induction l as [|a l IH]; intros i H; [destruct i; discriminate|].
  destruct i; cbn in *; [congruence|]. f_equal. apply IH. exact H.
Qed.

Lemma Bd_P pat j k : (j <= length pat)%nat -> (Bd pat j k <-> ((k < j)%nat /\ P pat (firstn j pat) k)).
Proof.
  intros Hj. unfold Bd, P. rewrite firstn_length_le by lia. split.
  - intros (H1 & H2 & H3). repeat split; try lia.
    intros i Hi. rewrite nth_error_firstn_lt by lia. apply H3; lia.
  - intros (H1 & H2 & H3 & H4). repeat split; try lia.
    intros i Hi. rewrite H4 by lia. apply nth_error_firstn_lt. lia.
Qed.

Lemma TblUpTo_snoc pat tbl n b :
  TblUpTo pat tbl n -> MaxBd pat (S n) b -> TblUpTo pat (tbl ++ [Z.of_nat b]) (S n).
Proof.
  intros (Hlen & H0 & Hj) Hb. repeat split.
  - rewrite app_length. cbn. lia.
  - rewrite nth_error_app1 by lia. exact H0.
  - intros j Hjr. destruct (Nat.eq_dec j (S n)) as [->|Hne].
    + exists b. split; auto. rewrite nth_error_app2 by lia. rewrite Hlen, Nat.sub_diag. reflexivity.
    + destruct (Hj j ltac:(lia)) as (b' & Hb' & HM). exists b'. split; auto.
      rewrite nth_error_app1 by lia. exact Hb'.
Qed.

Lemma MaxBd_one pat : (1 <= length pat)%nat -> MaxBd pat 1 0.
Proof.
  intros H. split.
  - repeat split; try lia.
  - intros k (Hk & _). lia.
Qed.

Lemma tt_step pat tbl i b c :
  (1 <= i)%nat -> (i < length pat)%nat ->
  TblUpTo pat tbl (i - 1) -> MaxBd pat i b -> nth_error pat i = Some c ->
  exists r b', fallback (b + 1) pat (tbl ++ [Z.of_nat b]) c (Z.of_nat b) = Some r /\
               (r + 1)%Z = Z.of_nat b' /\ MaxBd pat (S i) b' /\ TblUpTo pat (tbl ++ [Z.of_nat b]) i.
Proof.
  intros Hi Him Htbl HM Hc.
  assert (Htbl1 : TblUpTo pat (tbl ++ [Z.of_nat b]) i).
  { pose proof (TblUpTo_snoc pat tbl (i - 1) b Htbl) as H. replace (S (i - 1)) with i in H by lia. apply H. exact HM. }
  destruct HM as (HBd & HBmax).
  assert (Hbi : (b < i)%nat) by (destruct HBd; lia).
  set (w := firstn i pat).
  assert (HPb : P pat w b) by (apply (Bd_P pat i b ltac:(lia)); exact HBd).
  destruct (fallback_spec pat (tbl ++ [Z.of_nat b]) w c i Htbl1 (b + 1) b ltac:(lia) ltac:(lia) ltac:(lia) HPb)
    as (r & Hr & Hcases).
  assert (Hsn : firstn (S i) pat = w ++ [c]) by (apply firstn_S_snoc; exact Hc).
  (* characterisation of borders of pat[0..S i) *)
  assert (HbS : forall k', Bd pat (S i) (S k') <-> ((k' < i)%nat /\ P pat w k' /\ nth_error pat k' = Some c)).
  { intros k'. rewrite (Bd_P pat (S i) (S k')) by lia. rewrite Hsn, P_snoc. split.
    - intros (H1 & H2 & H3). split; [lia|]. split; assumption.
    - intros (H1 & H2 & H3). split; [lia|]. split; assumption. }
  assert (Hle : forall k', (k' < i)%nat -> P pat w k' -> (k' <= b)%nat).
  { intros k' Hk' HP'. apply HBmax. apply (Bd_P pat i k' ltac:(lia)). split; auto. }
  exists r. destruct Hcases as [(-> & Hnone)|(k' & -> & Hk' & (HPk' & Hck') & Hbest)].
  - exists 0%nat. split; [exact Hr|]. split; [reflexivity|]. split; [|exact Htbl1].
    split.
    + repeat split; try lia.
    + intros k HB. destruct k as [|k0]; [lia|]. exfalso.
      apply HbS in HB. destruct HB as (H1 & H2 & H3).
      apply (Hnone k0); [apply Hle; auto|split; auto].
  - exists (S k'). split; [exact Hr|]. split; [lia|]. split; [|exact Htbl1].
    split.
    + apply HbS. split; [lia|]. split; assumption.
    + intros k HB. destruct k as [|k0]; [lia|].
      apply HbS in HB. destruct HB as (H1 & H2 & H3).
      assert (k0 <= k')%nat; [|lia]. apply Hbest; [apply Hle; auto|split; auto].
Qed.

Lemma tt_loop_spec pat : forall n i tbl b,
  (1 <= i)%nat -> (i + n = length pat)%nat ->
  TblUpTo pat tbl (i - 1) -> MaxBd pat i b ->
  exists tbl' b', tt_loop n (Z.of_nat i) pat tbl (Z.of_nat b - 1) = Some (tbl', (Z.of_nat b' - 1)%Z) /\
                  TblUpTo pat tbl' (length pat - 1) /\ MaxBd pat (length pat) b'.
Proof.
  induction n as [|n IH]; intros i tbl b Hi Hn Htbl HM.
  - cbn. exists tbl, b. replace (length pat - 1)%nat with (i - 1)%nat by lia.
    replace (length pat) with i by lia. auto.
  - cbn [tt_loop]. replace (Z.of_nat b - 1 + 1)%Z with (Z.of_nat b) by lia.
    rewrite getZ_nat. destruct (nth_error pat i) as [c|] eqn:Ec.
    2:{ apply nth_error_None in Ec. lia. }
    destruct (tt_step pat tbl i b c Hi ltac:(lia) Htbl HM Ec) as (r & b' & Hr & Hrb & HM' & Htbl').
    replace (Z.to_nat (Z.of_nat b) + 1)%nat with (b + 1)%nat by lia. rewrite Hr.
    replace r with (Z.of_nat b' - 1)%Z by lia.
    replace (Z.of_nat i + 1)%Z with (Z.of_nat (S i)) by lia.
    apply (IH (S i) (tbl ++ [Z.of_nat b]) b'); auto; try lia.
    replace (S i - 1)%nat with i by lia. exact Htbl'.
Qed.

Theorem ttable_spec pat : (1 <= length pat)%nat ->
  exists tbl, ttable pat = Some tbl /\ TblUpTo pat tbl (length pat).
Proof.
  intros Hm. unfold ttable.
  assert (H0 : TblUpTo pat [(-1)%Z] (1 - 1)).
  { repeat split; auto. intros j Hj. lia. }
  destruct (tt_loop_spec pat (length pat - 1) 1 [(-1)%Z] 0 ltac:(lia) ltac:(lia) H0 (MaxBd_one pat Hm))
    as (tbl' & b' & Hl & Htbl & HM).
  change (Z.of_nat 1) with 1%Z in Hl. change (Z.of_nat 0 - 1)%Z with (-1)%Z in Hl. rewrite Hl.
  exists (tbl' ++ [(Z.of_nat b' - 1 + 1)%Z]). split; auto.
  replace (Z.of_nat b' - 1 + 1)%Z with (Z.of_nat b') by lia.
  pose proof (TblUpTo_snoc pat tbl' (length pat - 1) b' Htbl) as H.
  replace (S (length pat - 1)) with (length pat) in H by lia. apply H. exact HM.
Qed.

Print Assumptions ttable_spec.
Print Assumptions visit_spec.

(* ---- boolean reflection of P and the whole-text theorem ---- *)
Definition opt_eqb (a b : option Z) : bool :=
  match a, b with Some x, Some y => Z.eqb x y | None, None => true | _, _ => false end.
Lemma opt_eqb_spec a b : opt_eqb a b = true <-> a = b.
Proof.
  destruct a, b; cbn; split; intros H; try discriminate; try reflexivity.
  - apply Z.eqb_eq in H. now subst.
  - inversion H. apply Z.eqb_refl.
Qed.

Definition Pb (pat w : list Z) (k : nat) : bool :=
  (k <=? length w)%nat && (k <=? length pat)%nat &&
  forallb (fun j => opt_eqb (nth_error pat j) (nth_error w (length w - k + j))) (seq 0 k).

Lemma Pb_spec pat w k : Pb pat w k = true <-> P pat w k.
Proof.
  unfold Pb, P. rewrite !andb_true_iff, forallb_forall, !Nat.leb_le. split.
  - intros ((H1 & H2) & H3). repeat split; auto. intros j Hj.
    apply opt_eqb_spec. apply H3. apply in_seq. lia.
  - intros (H1 & H2 & H3). repeat split; auto. intros j Hj. apply in_seq in Hj.
    apply opt_eqb_spec. apply H3. lia.
Qed.

(* positions q (index of the last character) at which pat occurs in w *)
Definition spec_ends (pat w : list Z) (from n : nat) : list Z :=
  map Z.of_nat (filter (fun q => Pb pat (firstn (S q) w) (length pat)) (seq from n)).

Lemma firstn_app_snoc (w : list Z) d w' : firstn (S (length w)) (w ++ d :: w') = w ++ [d].
Proof.
  rewrite firstn_app. replace (S (length w) - length w)%nat with 1%nat by lia.
  rewrite firstn_all2 by lia. reflexivity.
Qed.

Lemma run_spec pat tbl : TblUpTo pat tbl (length pat) ->
  forall w' w k acc, St pat w k ->
  exists k', run pat tbl (Z.of_nat k) (Z.of_nat (length w)) w' acc =
               Some (Z.of_nat k', rev acc ++ spec_ends pat (w ++ w') (length w) (length w'))
             /\ St pat (w ++ w') k'.
Proof.
  intros Htbl. induction w' as [|d w' IH]; intros w k acc HSt.
  - cbn. exists k. rewrite !app_nil_r. auto.
  - cbn [run]. destruct (visit_spec pat tbl w k d Htbl HSt) as (k2 & b & Hv & HSt2 & Hb).
    rewrite Hv.
    replace (Z.of_nat (length w) + 1)%Z with (Z.of_nat (length (w ++ [d]))) by (rewrite app_length; cbn; lia).
    destruct (IH (w ++ [d]) k2 (if b then Z.of_nat (length w) :: acc else acc) HSt2) as (k' & Hrun & HSt').
    exists k'. rewrite <- app_assoc in Hrun, HSt'. cbn [app] in Hrun, HSt'. split; [|exact HSt'].
    rewrite Hrun. f_equal. f_equal.
    unfold spec_ends. cbn [length seq filter]. rewrite firstn_app_snoc.
    rewrite app_length. cbn [length]. replace (length w + 1)%nat with (S (length w)) by lia.
    destruct b.
    + assert (Pb pat (w ++ [d]) (length pat) = true) as -> by (apply Pb_spec, Hb; reflexivity).
      cbn [rev map]. rewrite <- app_assoc. reflexivity.
    + assert (Pb pat (w ++ [d]) (length pat) = false) as ->.
      { destruct (Pb pat (w ++ [d]) (length pat)) eqn:E; auto. apply Pb_spec, Hb in E. discriminate. }
      reflexivity.
Qed.

Theorem kmp_all_spec pat w : (1 <= length pat)%nat ->
  kmp_all pat w = Some (spec_ends pat w 0 (length w)).
Proof.
  intros Hm. unfold kmp_all. destruct (ttable_spec pat Hm) as (tbl & -> & Htbl).
  destruct (run_spec pat tbl Htbl w [] 0%nat [] (St_nil pat ltac:(lia))) as (k' & Hrun & _).
  cbn in Hrun. rewrite Hrun. reflexivity.
Qed.
Print Assumptions kmp_all_spec.
