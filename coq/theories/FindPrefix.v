(* C15: the first n matches are determined by the text up to the end of the n-th match: extending the text
   never changes them (so a search that stops there has lost nothing, and needs nothing beyond). *)
From Coq Require Import ZArith List Lia Bool Arith.
Require Import KmpModel KmpSpec KmpProof FindModel.
Import ListNotations.
Local Close Scope Z_scope.

Lemma filter_seq_ext (f g : nat -> bool) a n : (forall q, a <= q < a + n -> f q = g q) ->
  filter f (seq a n) = filter g (seq a n).
Proof.
  revert a. induction n as [|n IH]; intros a H; cbn; auto.
  rewrite (H a) by lia. rewrite (IH (S a)) by (intros; apply H; lia). reflexivity.
Qed.

Lemma firstn_app_le {A} (n : nat) (l1 l2 : list A) : n <= length l1 -> firstn n (l1 ++ l2) = firstn n l1.
Proof. intros H. rewrite firstn_app. replace (n - length l1) with 0 by lia. cbn. apply app_nil_r. Qed.

Theorem spec_ends_app pat w1 w2 :
  spec_ends pat (w1 ++ w2) 0 (length (w1 ++ w2)) =
  spec_ends pat w1 0 (length w1) ++ spec_ends pat (w1 ++ w2) (length w1) (length w2).
Proof.
  unfold spec_ends. rewrite app_length, seq_app, filter_app, map_app. f_equal. f_equal.
  apply filter_seq_ext. intros q Hq. rewrite firstn_app_le by lia. reflexivity.
Qed.

(* forward occurrences of a prefix are a prefix of the forward occurrences of the whole text *)
Theorem occ_fwd_prefix pat lo w1 w2 : pat <> [] ->
  exists more, occ_fwd pat lo (w1 ++ w2) = occ_fwd pat lo w1 ++ more.
Proof.
  intros Hp. unfold occ_fwd. destruct pat as [|p pat']; [congruence|]. cbn [is_empty].
  rewrite spec_ends_app, map_app. eexists. reflexivity.
Qed.

(* hence FindFirstN / FindFirst / Matches-with-early-exit, once the n matches exist in the text read so far,
   return the same answer whatever follows *)
Theorem first_n_stable pat lo w1 w2 (n : nat) : pat <> [] ->
  n <= length (occ_fwd pat lo w1) ->
  firstn n (occ_fwd pat lo (w1 ++ w2)) = firstn n (occ_fwd pat lo w1).
Proof.
  intros Hp Hn. destruct (occ_fwd_prefix pat lo w1 w2 Hp) as (more & ->).
  rewrite firstn_app. replace (n - length (occ_fwd pat lo w1)) with 0 by lia. cbn. apply app_nil_r.
Qed.

Corollary find_first_stable pat lo w1 w2 : pat <> [] -> occ_fwd pat lo w1 <> [] ->
  first_or (occ_fwd pat lo (w1 ++ w2)) = first_or (occ_fwd pat lo w1).
Proof.
  intros Hp Hne. pose proof (first_n_stable pat lo w1 w2 1 Hp) as H.
  destruct (occ_fwd pat lo w1) as [|x r] eqn:E; [congruence|]. specialize (H ltac:(cbn; lia)).
  destruct (occ_fwd pat lo (w1 ++ w2)) as [|y r']; cbn in H; [discriminate|]. inversion H. reflexivity.
Qed.

(* every search on a finite text returns (the model is total: no fuel runs out, no index leaves its slice) *)
Theorem find_terminates fn n pat lo w : exists res, find_model fn n pat lo w = Some res.
Proof. eexists. apply find_model_spec. Qed.
