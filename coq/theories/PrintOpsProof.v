(* C12: the operation-level printer emits exactly the bytes of the code-point-level printer (hence of the canonical
   layout), and run through bufio over any faulting writer it satisfies the count / prefix / latch / error clauses. *)
From Coq Require Import ZArith List Lia Bool.
Require Import Pos PosHist Views HistModel PrnModel PrnProof PrintModel PrintProof Bufio PrintOps.
Import ListNotations.
Open Scope Z_scope.

Definition bytes_of (ops : list (op * tag)) : list Z := concat (map op_bytes (map fst ops)).

Lemma bytes_of_app a b : bytes_of (a ++ b) = bytes_of a ++ bytes_of b.
Proof. unfold bytes_of. rewrite !map_app, concat_app. reflexivity. Qed.

Lemma utf8_all_app a b : utf8_all (a ++ b) = utf8_all a ++ utf8_all b.
Proof. unfold utf8_all. apply flat_map_app. Qed.

Lemma bytes_of_tagged t l : bytes_of (map (fun o => (o, t)) l) = concat (map op_bytes l).
Proof. unfold bytes_of. induction l as [|x l IH]; cbn; [reflexivity|]. f_equal. exact IH. Qed.

Lemma map_fst_tagged (t : tag) (l : list op) : map fst (map (fun o => (o, t)) l) = l.
Proof. induction l as [|x l IH]; cbn; [reflexivity|]. f_equal. exact IH. Qed.

Section Sim.
Variables (R C : Z) (missing : Z) (count_on : bool).
Variables (zero_s : list Z) (nz : Z -> list Z).
Variables (zero_ops : list op) (nz_ops : Z -> list op).
Hypothesis zero_ok : concat (map op_bytes zero_ops) = utf8_all zero_s.
Hypothesis nz_ok : forall i, concat (map op_bytes (nz_ops i)) = utf8_all (nz i).

Notation pre := (pre R C zero_s nz).
Notation pre_ops := (pre_ops R C zero_ops nz_ops).

Definition Rel (so : ost) (sp : list Z * Z * Z) : Prop :=
  let '(ops, first, idx, inrow) := so in
  let '(out, idx', inrow') := sp in
  bytes_of ops = utf8_all out /\ first = is_nil out /\ idx = idx' /\ inrow = inrow'.

Lemma pre_sim first idx inrow :
  concat (map op_bytes (fst (pre_ops first idx inrow))) = utf8_all (fst (pre first idx inrow)) /\
  snd (pre_ops first idx inrow) = snd (pre first idx inrow).
Proof.
  unfold PrintOps.pre_ops, PrnModel.pre. destruct (idx =? 0); [cbn; auto|].
  destruct ((0 <? R) && (idx mod R =? 0)).
  - cbn [fst snd]. split; [|reflexivity]. rewrite map_app, concat_app, utf8_all_app, nz_ok.
    destruct first; reflexivity.
  - destruct ((0 <? C) && (inrow mod C =? 0)); cbn; auto.
Qed.

Lemma raw_consume_sim t so sp ch : Rel so sp ->
  Rel (raw_consume_ops R C zero_ops nz_ops t so ch) (raw_consume R C zero_s nz sp ch).
Proof.
  destruct so as [[[ops first] idx] inrow]. destruct sp as [[out idx'] inrow'].
  intros (Hb & Hf & -> & ->). unfold raw_consume_ops, raw_consume. subst first.
  destruct (pre_sim (is_nil out) idx' inrow') as (P1 & P2).
  destruct (pre_ops (is_nil out) idx' inrow') as [po ir]. destruct (pre (is_nil out) idx' inrow') as [pp ir'].
  cbn [fst snd] in P1, P2. subst ir'. unfold Rel. split; [|split; [|split; reflexivity]].
  - rewrite bytes_of_app, bytes_of_tagged, map_app, concat_app, P1, Hb, !utf8_all_app. cbn. rewrite app_nil_r. reflexivity.
  - rewrite !is_nil_app. cbn. rewrite !andb_false_r. reflexivity.
Qed.

Lemma skip_rows_sim so sp posit : Rel so sp -> Rel (skip_rows_ops R so posit) (skip_rows R sp posit).
Proof.
  destruct so as [[[ops first] idx] inrow]. destruct sp as [[out idx'] inrow'].
  intros (Hb & Hf & -> & ->). unfold skip_rows_ops, skip_rows.
  destruct (idx' mod R =? 0); [repeat split; auto|]. destruct (idx' / R <? posit / R); repeat split; auto.
Qed.

Lemma fill_sim t n : forall so sp, Rel so sp ->
  Rel (fill_ops R C missing zero_ops nz_ops t n so) (fill R C missing zero_s nz n sp).
Proof. induction n as [|n IH]; intros so sp H; cbn; auto. apply IH. apply raw_consume_sim. exact H. Qed.

Lemma Rel_idx so sp : Rel so sp -> oidx so = idx_of sp.
Proof. destruct so as [[[? ?] ?] ?]. destruct sp as [[? ?] ?]. intros (_ & _ & -> & _). reflexivity. Qed.

Lemma consume_sim so sp posit digit : Rel so sp ->
  Rel (consume_ops R C missing count_on zero_ops nz_ops so posit digit) (consume R C missing zero_s nz count_on sp posit digit).
Proof.
  intros H. unfold consume_ops, consume. rewrite (Rel_idx so sp H).
  apply raw_consume_sim. destruct (idx_of sp <? posit); [|exact H].
  cbn zeta. destruct ((0 <? R) && count_on).
  - pose proof (skip_rows_sim so sp posit H) as H1. rewrite (Rel_idx _ _ H1). apply fill_sim. exact H1.
  - rewrite (Rel_idx _ _ H). apply fill_sim. exact H.
Qed.

Lemma consume_all_sim shown : forall so sp, Rel so sp ->
  Rel (consume_all_ops R C missing count_on zero_ops nz_ops so shown) (consume_all R C missing zero_s nz count_on sp shown).
Proof.
  induction shown as [|[p d] r IH]; intros so sp H; cbn; auto. apply IH. apply consume_sim. exact H.
Qed.

Theorem print_ops_bytes shown :
  bytes_of (print_ops R C missing count_on zero_ops nz_ops shown) = utf8_all (print_all R C missing zero_s nz count_on shown).
Proof.
  unfold print_ops, print_all.
  pose proof (consume_all_sim shown ([], true, 0, 0) ([], 0, 0)) as H.
  destruct (consume_all_ops R C missing count_on zero_ops nz_ops ([], true, 0, 0) shown) as [[[ops first] idx] inrow].
  destruct (consume_all R C missing zero_s nz count_on ([], 0, 0) shown) as [[out idx'] inrow'].
  cbn [fst]. apply H. repeat split; reflexivity.
Qed.
End Sim.

(* starters are plain ASCII: their UTF-8 encoding is themselves *)
Definition ascii (l : list Z) : Prop := Forall (fun c => 0 <= c < 128) l.
Lemma utf8_ascii l : ascii l -> utf8_all l = l.
Proof.
  induction 1 as [|c l Hc Hl IH]; [reflexivity|].
  change (utf8_all (c :: l)) with (utf8 c ++ utf8_all l). rewrite IH. unfold utf8.
  destruct (Z.ltb_spec c 128); [reflexivity|lia].
Qed.

Lemma ascii_app a b : ascii a -> ascii b -> ascii (a ++ b).
Proof. intros. apply Forall_app. split; assumption. Qed.
Lemma ascii_spaces n : ascii (spaces n).
Proof. unfold spaces, ascii. apply Forall_forall. intros x Hx. apply repeat_spec in Hx. subst. lia. Qed.

Lemma ascii_dec_rev : forall fuel n, ascii (dec_rev fuel n).
Proof.
  induction fuel as [|f IH]; intros n; cbn [dec_rev]; [constructor|]. destruct (n <=? 0); [constructor|].
  constructor; [|apply IH]. pose proof (Z.mod_pos_bound n 10 ltac:(lia)). lia.
Qed.
Lemma ascii_dec n : ascii (dec n).
Proof.
  unfold dec. destruct (n <=? 0); [repeat constructor; lia|]. unfold ascii. apply Forall_rev. apply ascii_dec_rev.
Qed.
Lemma ascii_pad w l : ascii l -> ascii (pad_left w l).
Proof. intros H. unfold pad_left. apply ascii_app; auto. apply ascii_spaces. Qed.

Lemma firstn_skipn_bytes (l : list Z) n : firstn n l ++ skipn n l ++ [] = l.
Proof. rewrite app_nil_r. apply firstn_skipn. Qed.

Theorem fprint_ops_bytes v3 o maxd shown :
  bytes_of (fprint_ops v3 o maxd shown) = utf8_all (sprint_points o maxd shown).
Proof.
  unfold fprint_ops, sprint_points. unfold starters.
  assert (Hl : forall w i, ascii (pad_left w (dec i) ++ [32; 32])).
  { intros. apply ascii_app; [apply ascii_pad, ascii_dec|repeat constructor; lia]. }
  assert (Hz1 : forall w, ascii (spaces w ++ [48; 46])) by (intros; apply ascii_app; [apply ascii_spaces|repeat constructor; lia]).
  assert (Hz2 : forall w, ascii (spaces w ++ [48; 32; 32])) by (intros; apply ascii_app; [apply ascii_spaces|repeat constructor; lia]).
  assert (Main : forall z nz con, ascii z -> (forall i, ascii (nz i)) ->
     bytes_of (print_ops (o_R o) (o_C o) (fix_rune (o_missing o)) con (zero_ops_of v3 z) (nz_ops_of v3 con nz) shown
               ++ (if o_trail o then [(OWrite [10], (-1, false))] else []))
     = utf8_all (print_all (o_R o) (o_C o) (fix_rune (o_missing o)) z nz con shown ++ (if o_trail o then [10] else []))).
  { intros z nz con Hz Hnz. rewrite bytes_of_app, utf8_all_app. f_equal.
    - apply print_ops_bytes.
      + unfold zero_ops_of. destruct v3; cbn; rewrite app_nil_r; symmetry; apply utf8_ascii; auto.
      + intros i. unfold nz_ops_of. rewrite (utf8_ascii _ (Hnz i)).
        destruct v3; [destruct con; cbn; apply app_nil_r|]. destruct con; [|cbn; apply app_nil_r].
        cbn [map concat op_bytes]. apply firstn_skipn_bytes.
    - destruct (o_trail o); reflexivity. }
  destruct (dcw o maxd <=? 0).
  - destruct (o_lead o); [|destruct (o_show o)]; apply Main; try (repeat constructor; lia); intros; repeat constructor; lia.
  - destruct (o_lead o); apply Main; auto.
Qed.

(* ---- C12 for the whole call: any underlying writer, any buffer size ---- *)
Theorem fprint_faults (wst : Type) (wstep : wst -> list Z -> nat * bool * wst) (size : nat) (w0 : wst)
        fuel v3 o maxd shown s1 rem issued :
  (0 < size)%nat ->
  let ops := map fst (fprint_ops v3 o maxd shown) in
  exec wst wstep size fuel (mk wst [] [] false w0 0 0 0) ops 0 = Some (s1, rem, issued) ->
  let sF := flush wst wstep s1 in
  let T := utf8_all (sprint_points o maxd shown) in                       (* the fault-free output *)
  (exists rest, T = acc wst sF ++ rest) /\                                 (* accepted bytes: a prefix of it *)
  after_err wst sF = 0%nat /\                                              (* nothing reaches the writer after the latch *)
  (berr wst sF = false -> acc wst sF = T /\ issued = length ops) /\        (* no error => complete *)
  (berr wst sF = true -> (0 < nfault wst sF)%nat).                         (* error => some call faulted *)
Proof.
  intros Hsize ops He sF T.
  assert (Hok : Forall op_ok ops).
  { unfold ops, fprint_ops. destruct (starters o maxd) as [[z nz] con]. rewrite map_app. apply Forall_app. split.
    - (* every ORune carries the encoding of one rune: at most 4 bytes *)
      unfold print_ops.
      assert (G : forall sh so, Forall op_ok (map fst (fst (fst (fst so)))) ->
                 Forall op_ok (map fst (fst (fst (fst (consume_all_ops (o_R o) (o_C o) (fix_rune (o_missing o)) con
                                                         (zero_ops_of v3 z) (nz_ops_of v3 con nz) so sh)))))).
      { assert (Hutf : forall c, (length (utf8 c) <= 4)%nat).
        { intros c. unfold utf8. destruct (c <? 128); [cbn; lia|]. destruct (c <? 2048); [cbn; lia|]. destruct (c <? 65536); cbn; lia. }
        assert (Hraw : forall t so ch, Forall op_ok (map fst (fst (fst (fst so)))) ->
                  Forall op_ok (map fst (fst (fst (fst (raw_consume_ops (o_R o) (o_C o) (zero_ops_of v3 z) (nz_ops_of v3 con nz) t so ch)))))).
        { intros t [[[ops0 f0] i0] r0] ch H0. unfold raw_consume_ops.
          destruct (pre_ops (o_R o) (o_C o) (zero_ops_of v3 z) (nz_ops_of v3 con nz) f0 i0 r0) as [po ir] eqn:Ep.
          cbn [fst]. rewrite map_app, map_fst_tagged. apply Forall_app. split; [exact H0|].
          apply Forall_app. split.
          - unfold pre_ops in Ep. destruct (i0 =? 0).
            + inversion Ep; subst. unfold zero_ops_of. destruct v3; repeat constructor.
            + destruct ((0 <? o_R o) && (i0 mod o_R o =? 0)).
              * inversion Ep; subst. apply Forall_app. split; [destruct f0; repeat constructor|].
                unfold nz_ops_of. destruct v3; destruct con; repeat constructor.
              * destruct ((0 <? o_C o) && (r0 mod o_C o =? 0)); inversion Ep; subst; repeat constructor.
          - constructor; [cbn; apply Hutf|constructor]. }
        assert (Hfill : forall t n so, Forall op_ok (map fst (fst (fst (fst so)))) ->
                  Forall op_ok (map fst (fst (fst (fst (fill_ops (o_R o) (o_C o) (fix_rune (o_missing o)) (zero_ops_of v3 z) (nz_ops_of v3 con nz) t n so)))))).
        { intros t n. induction n as [|n IHn]; intros so H0; cbn; auto. }
        induction sh as [|[p d] r IH]; intros so H0; cbn [consume_all_ops]; auto.
        apply IH. unfold consume_ops. apply Hraw. destruct (oidx so <? p); auto.
        destruct ((0 <? o_R o) && con); apply Hfill; auto.
        destruct so as [[[ops0 f0] i0] r0]. unfold skip_rows_ops. destruct (i0 mod o_R o =? 0); auto.
        destruct (i0 / o_R o <? p / o_R o); auto. }
      apply G. constructor.
    - destruct (o_trail o); repeat constructor. }
  destruct (client_faults wst wstep size Hsize fuel ops w0 s1 rem issued Hok He) as (A & B & Cc & D).
  fold sF in A, B, Cc, D.
  assert (ET : concat (map op_bytes ops) = T).
  { unfold ops, T. rewrite <- (fprint_ops_bytes v3). reflexivity. }
  rewrite ET in A, Cc. auto.
Qed.
