From Coq Require Import ZArith List Lia Bool.
Import ListNotations.
Open Scope Z_scope.
Local Arguments Z.add : simpl never.

(* ---- model of the streaming number formatter (formatters.go: formatter.add / Consume / Finish) ---- *)
Definition zeros (n : Z) : list Z := repeat 48 (Z.to_nat n).

(* addLeadingZeros(count) *)
Definition lead_zeros (count : Z) : list Z := 48 :: (if 0 <? count then 46 :: zeros count else []).

Definition add (exp : Z) (st : list Z * Z) (d : Z) : list Z * Z :=
  let '(out, idx) := st in
  let out1 := if (idx =? 0) && (exp <=? 0) then out ++ lead_zeros (- exp) else out in
  let out2 := if idx =? exp then out1 ++ [46] else out1 in
  (out2 ++ [48 + d], idx + 1).

(* fromMantissa / FromIntGenerator: feed digits while CanConsume (index < sigDigits) *)
Fixpoint feed (ds : list Z) (sig exp : Z) (st : list Z * Z) : list Z * Z :=
  match ds with
  | [] => st
  | d :: r => if snd st <? sig then feed r sig exp (add exp st d) else st
  end.

Fixpoint pad (n : nat) (exp : Z) (st : list Z * Z) : list Z * Z :=
  match n with O => st | S n' => pad n' exp (add exp st 0) end.

Definition finish (sig exp : Z) (exact : bool) (st : list Z * Z) : list Z :=
  let maxd := if exact then sig else exp in
  let st1 := pad (Z.to_nat (maxd - snd st)) exp st in
  if snd st1 =? 0 then fst st1 ++ lead_zeros (if exact then sig - exp else - exp) else fst st1.

Definition print_fixed (sig exp : Z) (exact : bool) (ds : list Z) : list Z :=
  finish sig exp exact (feed ds sig exp ([], 0)).

(* ---- shape ---- *)
Definition chars (l : list Z) : list Z := map (fun d => 48 + d) l.

(* rendering of a non-empty list of emitted digits with the point after `exp` digits *)
Definition rp (exp : Z) (L : list Z) : list Z :=
  match L with
  | [] => []
  | _ =>
    if exp <=? 0 then 48 :: 46 :: zeros (- exp) ++ chars L
    else chars (firstn (Z.to_nat exp) L) ++
         (if exp <? Z.of_nat (length L) then 46 :: chars (skipn (Z.to_nat exp) L) else [])
  end.

Lemma lead_zeros_nonpos exp : exp <= 0 ->
  lead_zeros (- exp) ++ (if 0 =? exp then [46] else []) = 48 :: 46 :: zeros (- exp).
Proof.
  intros H. unfold lead_zeros. destruct (Z.ltb_spec 0 (- exp)).
  - destruct (Z.eqb_spec 0 exp); [lia|]. now rewrite app_nil_r.
  - assert (exp = 0) by lia. subst. reflexivity.
Qed.

Lemma chars_app a b : chars (a ++ b) = chars a ++ chars b.
Proof. apply map_app. Qed.

Lemma add_rp exp L d : add exp (rp exp L, Z.of_nat (length L)) d = (rp exp (L ++ [d]), Z.of_nat (length (L ++ [d]))).
Proof.
  unfold add. rewrite app_length. cbn [length]. f_equal; [|lia].
  destruct L as [|a L'].
  - (* first digit *)
    cbn [length Z.of_nat rp app]. destruct (Z.leb_spec exp 0) as [Hle|Hgt]; cbn [andb Z.eqb].
    + destruct exp as [|p|p]; [reflexivity|lia|]. cbn. reflexivity.
    + destruct exp as [|p|p]; try lia. cbn [Z.eqb app Z.to_nat].
      pose proof (Pos2Nat.is_pos p). destruct (Pos.to_nat p) as [|k] eqn:Ek; [lia|].
      cbn [firstn chars map]. rewrite firstn_nil. cbn [app length Z.of_nat].
      change (Z.pos (Pos.of_succ_nat 0)) with 1.
      destruct (Z.ltb_spec (Z.pos p) 1); [lia|]. reflexivity.
  - (* later digits *)
    set (L := a :: L') in *. assert (HL : L <> []) by discriminate.
    assert (Hlen : 0 < Z.of_nat (length L)) by (unfold L; cbn [length]; lia).
    destruct (Z.eqb_spec (Z.of_nat (length L)) 0); [lia|]. cbn [andb].
    unfold rp. destruct (L ++ [d]) eqn:E; [destruct L; discriminate|]. rewrite <- E. clear E.
    destruct L as [|a0 L0] eqn:EL; [congruence|]. rewrite <- EL in *.
    destruct (Z.leb_spec exp 0) as [Hle|Hgt].
    + destruct (Z.eqb_spec (Z.of_nat (length L)) exp); [lia|].
      rewrite chars_app. cbn. rewrite <- !app_assoc. reflexivity.
    + rewrite app_length. cbn [length].
      destruct (Z.eqb_spec (Z.of_nat (length L)) exp) as [Ee|Ene].
      * (* the point goes right here *)
        destruct (Z.ltb_spec exp (Z.of_nat (length L))); [lia|].
        destruct (Z.ltb_spec exp (Z.of_nat (length L + 1))); [|lia].
        rewrite app_nil_r. rewrite firstn_all2 by lia.
        rewrite firstn_app, firstn_all2 by lia. replace (Z.to_nat exp - length L)%nat with 0%nat by lia.
        cbn [firstn]. rewrite app_nil_r.
        rewrite skipn_app, skipn_all2 by lia. replace (Z.to_nat exp - length L)%nat with 0%nat by lia.
        cbn. rewrite <- app_assoc. reflexivity.
      * destruct (Z.ltb_spec exp (Z.of_nat (length L))) as [Hlt|Hge].
        -- destruct (Z.ltb_spec exp (Z.of_nat (length L + 1))); [|lia].
           rewrite firstn_app. replace (Z.to_nat exp - length L)%nat with 0%nat by lia.
           cbn [firstn]. rewrite app_nil_r.
           rewrite skipn_app. replace (Z.to_nat exp - length L)%nat with 0%nat by lia.
           cbn [skipn]. rewrite chars_app. cbn. rewrite <- !app_assoc. reflexivity.
        -- destruct (Z.ltb_spec exp (Z.of_nat (length L + 1))); [lia|].
           rewrite !app_nil_r. rewrite firstn_all2 by lia. rewrite firstn_all2 by (rewrite app_length; cbn [length]; lia).
           rewrite chars_app. reflexivity.
Qed.

Lemma feed_rp sig exp : forall ds L,
  feed ds sig exp (rp exp L, Z.of_nat (length L)) =
  let k := Nat.min (length ds) (Z.to_nat (sig - Z.of_nat (length L))) in
  (rp exp (L ++ firstn k ds), Z.of_nat (length (L ++ firstn k ds))).
Proof.
  induction ds as [|d r IH]; intros L; cbn [feed snd].
  - cbn. now rewrite app_nil_r.
  - destruct (Z.ltb_spec (Z.of_nat (length L)) sig) as [Hlt|Hge].
    + rewrite add_rp, IH. cbn zeta. rewrite app_length. cbn [length].
      replace (Z.to_nat (sig - Z.of_nat (length L))) with (S (Z.to_nat (sig - Z.of_nat (length L + 1)))) by lia.
      cbn [Nat.min firstn]. rewrite <- app_assoc. reflexivity.
    + replace (Z.to_nat (sig - Z.of_nat (length L))) with 0%nat by lia.
      rewrite Nat.min_0_r. cbn. now rewrite app_nil_r.
Qed.

Lemma pad_rp exp : forall n L,
  pad n exp (rp exp L, Z.of_nat (length L)) = (rp exp (L ++ repeat 0 n), Z.of_nat (length (L ++ repeat 0 n))).
Proof.
  induction n as [|n IH]; intros L; cbn [pad repeat].
  - now rewrite app_nil_r.
  - rewrite add_rp, IH. rewrite <- app_assoc. reflexivity.
Qed.

(* the digits that end up in the text: the first sigDigits digits of the number, zero padded *)
Definition emitted (sig exp : Z) (exact : bool) (ds : list Z) : list Z :=
  let t := firstn (Z.to_nat sig) ds in
  t ++ repeat 0 (Z.to_nat ((if exact then sig else exp) - Z.of_nat (length t))).

Theorem print_fixed_shape sig exp exact ds :
  print_fixed sig exp exact ds =
  match emitted sig exp exact ds with
  | [] => lead_zeros (if exact then sig - exp else - exp)
  | E => rp exp E
  end.
Proof.
  unfold print_fixed, finish. change ([], 0) with (rp exp [], Z.of_nat (length (@nil Z))).
  rewrite feed_rp. cbn zeta. cbn [length app Z.of_nat]. rewrite Z.sub_0_r.
  assert (Ef : firstn (Nat.min (length ds) (Z.to_nat sig)) ds = firstn (Z.to_nat sig) ds).
  { destruct (Nat.le_ge_cases (length ds) (Z.to_nat sig)).
    - rewrite Nat.min_l by lia. now rewrite !firstn_all2 by lia.
    - now rewrite Nat.min_r by lia. }
  rewrite Ef. cbn [snd]. rewrite pad_rp. cbn [fst snd]. fold (emitted sig exp exact ds).
  destruct (emitted sig exp exact ds) as [|e E] eqn:Ee.
  - reflexivity.
  - cbn [length]. destruct (Z.eqb_spec (Z.of_nat (S (length E))) 0); [lia|]. reflexivity.
Qed.

(* ---- value: reading the text back as a decimal ---- *)
Definition val (l : list Z) : Z := fold_left (fun a d => 10 * a + d) l 0.

Fixpoint split_dot (t : list Z) : list Z * list Z :=
  match t with
  | [] => ([], [])
  | c :: r => if c =? 46 then ([], r) else let '(a, b) := split_dot r in (c :: a, b)
  end.

(* (numerator, number of fractional digits): the text denotes numerator / 10^fractional *)
Definition dec_value (t : list Z) : Z * Z :=
  let '(a, b) := split_dot t in
  (val (map (fun c => c - 48) (a ++ b)), Z.of_nat (length b)).

Definition digits (l : list Z) : Prop := Forall (fun d => 0 <= d <= 9) l.

Lemma split_dot_chars A rest : digits A -> split_dot (chars A ++ rest) = (let '(a, b) := split_dot rest in (chars A ++ a, b)).
Proof.
  induction A as [|d A IH]; intros H; cbn [chars map app split_dot].
  - destruct (split_dot rest); reflexivity.
  - inversion H; subst. destruct (Z.eqb_spec (48 + d) 46); [lia|].
    fold (chars A). rewrite IH by assumption. destruct (split_dot rest). reflexivity.
Qed.

Lemma unchars l : map (fun c => c - 48) (chars l) = l.
Proof. unfold chars. rewrite map_map. rewrite <- (map_id l) at 2. apply map_ext. intros; lia. Qed.

Lemma fold_acc l : forall acc,
  fold_left (fun a d => 10 * a + d) l acc = acc * 10 ^ Z.of_nat (length l) + fold_left (fun a d => 10 * a + d) l 0.
Proof.
  induction l as [|d l IH]; intros acc; cbn [fold_left length].
  - cbn. lia.
  - rewrite IH, (IH (10 * 0 + d)). rewrite Nat2Z.inj_succ, Z.pow_succ_r by lia. ring.
Qed.

Lemma val_app a b : val (a ++ b) = val a * 10 ^ Z.of_nat (length b) + val b.
Proof. unfold val. rewrite fold_left_app. apply fold_acc. Qed.

Lemma val_zeros n : val (repeat 0 n) = 0.
Proof. unfold val. induction n as [|n IH]; cbn; auto. Qed.

Lemma val_lead0 l : val (0 :: l) = val l.
Proof. reflexivity. Qed.

Lemma val_lead_zeros n l : val (repeat 0 n ++ l) = val l.
Proof. rewrite val_app, val_zeros. lia. Qed.

Lemma zeros_chars n : zeros (Z.of_nat n) = chars (repeat 0 n).
Proof. unfold zeros, chars. rewrite Nat2Z.id. induction n as [|n IH]; cbn [repeat map]; [reflexivity|]. rewrite IH. reflexivity. Qed.

Lemma in_firstn {A} n : forall (l : list A) x, In x (firstn n l) -> In x l.
Proof.
  induction n as [|n IH]; intros l x H; [destruct H|]. destruct l as [|a l]; [destruct H|].
  cbn in H. destruct H as [->|H]; [now left|right; auto].
Qed.

Lemma digits_firstn n l : digits l -> digits (firstn n l).
Proof.
  intros H. apply Forall_forall. intros x Hx. apply (proj1 (Forall_forall _ _) H). eapply in_firstn; eauto.
Qed.

Lemma split_dot_0dot rest : split_dot (48 :: 46 :: rest) = ([48], rest).
Proof. reflexivity. Qed.

(* reading back a rendered non-empty digit list: numerator = value of the digits,
   fractional digits = |E| - exp (when the point position does not exceed the digits) *)
Theorem rp_value exp E : E <> [] -> digits E -> exp <= Z.of_nat (length E) ->
  dec_value (rp exp E) = (val E, Z.of_nat (length E) - exp).
Proof.
  intros Hne Hd Hle. unfold rp. destruct E as [|e0 E0] eqn:EE; [congruence|]. rewrite <- EE in *. clear EE Hne.
  unfold dec_value. destruct (Z.leb_spec exp 0) as [H0|H0].
  - (* 0.000ddd *)
    replace (- exp) with (Z.of_nat (Z.to_nat (- exp))) by lia. rewrite zeros_chars, <- chars_app.
    rewrite split_dot_0dot.
    change ([48] ++ chars (repeat 0 (Z.to_nat (- exp)) ++ E)) with (chars (0 :: repeat 0 (Z.to_nat (- exp)) ++ E)).
    rewrite unchars, val_lead0, val_lead_zeros. f_equal.
    unfold chars. rewrite map_length, app_length, repeat_length. lia.
  - destruct (Z.ltb_spec exp (Z.of_nat (length E))) as [Hlt|Hge].
    + (* int.frac *)
      assert (Hd1 : digits (firstn (Z.to_nat exp) E)).
      { now apply digits_firstn. }
      rewrite (split_dot_chars _ _ Hd1). cbn [split_dot]. rewrite Z.eqb_refl. cbn beta iota.
      rewrite app_nil_r, <- chars_app, firstn_skipn, unchars. f_equal.
      unfold chars. rewrite map_length, skipn_length. lia.
    + (* all digits are integer digits *)
      rewrite app_nil_r. rewrite firstn_all2 by lia.
      rewrite <- (app_nil_r (chars E)). rewrite (split_dot_chars _ _ Hd). cbn [split_dot].
      rewrite !app_nil_r, unchars. f_equal. cbn [length]. lia.
Qed.

(* the formatter never rounds up and denotes exactly the number truncated to the requested digits:
   if ds are the digits of the number (mantissa 0.ds * 10^exp), the text reads back as
   val(first sig digits) * 10^(exp - that many digits) *)
Theorem print_fixed_value sig exp exact ds :
  digits ds -> exp <= sig -> emitted sig exp exact ds <> [] ->
  let E := emitted sig exp exact ds in
  let t := firstn (Z.to_nat sig) ds in
  dec_value (print_fixed sig exp exact ds) = (val E, Z.of_nat (length E) - exp) /\
  val E = val t * 10 ^ Z.of_nat (length E - length t) /\ exp <= Z.of_nat (length E).
Proof.
  intros Hd Hes Hne E t. rewrite print_fixed_shape. fold E.
  assert (HdE : digits E).
  { unfold E, emitted. apply Forall_app. split.
    - now apply digits_firstn.
    - apply Forall_forall. intros x Hx. apply repeat_spec in Hx. subst. lia. }
  assert (Hlen : exp <= Z.of_nat (length E)).
  { unfold E, emitted. fold t. rewrite app_length, repeat_length. destruct exact; lia. }
  split; [|split; auto].
  - destruct E as [|e0 E0] eqn:EE; [exfalso; apply Hne; exact EE|]. rewrite <- EE in *.
    apply rp_value; auto; rewrite EE; discriminate.
  - unfold E, emitted. fold t. rewrite val_app, val_zeros, app_length, repeat_length.
    replace (length t + _ - length t)%nat with (Z.to_nat ((if exact then sig else exp) - Z.of_nat (length t))) by lia.
    lia.
Qed.
Print Assumptions print_fixed_value.
Print Assumptions print_fixed_shape.
