(* Layer C, continued: the remaining read-path wrappers, each against ANY oracle for memoizer.wait that satisfies
   the wait contract: v3's lazily initialised IteratorAt(index, limit), limitSpec.At, limitSpec's v1/v2 iterator
   wrapper (clamp + own counter), the prefetching fullIteratorAt of v1/v2, and FirstN (all backward reads). *)
From Coq Require Import Arith List Lia Bool.
Require Import LayerC.
Import ListNotations.

Section Clients2.
Variable D : nat -> option nat.
Hypothesis D_closed : forall i, D i = None -> D (S i) = None.
Variable W : nat -> nat -> nat * bool.
Hypothesis W_ok : forall c i, WaitOK D i (W c i).

Notation get := (LayerC.get D).
Notation Snap := (LayerC.Snap D).

(* D cut at a limit: the digit string of a limited view *)
Definition Dlim (limit : nat) (p : nat) : option nat := if p <? limit then D p else None.

(* ---- v3 memoizer.IteratorAt(index, limit): the first wait is deferred to the first pull ---- *)
Record it3 := mkIt3 { j_idx : nat; j_len : nat; j_ok : bool; j_init : bool; j_limit : nat }.

Definition it3_new (idx limit : nat) : it3 := mkIt3 idx 0 false false limit.

Definition it3_next (c1 c2 : nat) (s : it3) : option nat * it3 :=
  let '(len, ok) := if j_init s then (j_len s, j_ok s) else W c1 (j_idx s) in
  if negb ok || (j_limit s <=? j_idx s) then (None, mkIt3 (j_idx s) len ok true (j_limit s))
  else
    let idx' := S (j_idx s) in
    (Some (get (j_idx s)),
     if idx' =? len then let '(l2, o2) := W c2 idx' in mkIt3 idx' l2 o2 true (j_limit s)
     else mkIt3 idx' len ok true (j_limit s)).

Definition It3Inv (s : it3) : Prop := j_init s = true -> Snap (j_idx s) (j_len s) (j_ok s).

Lemma it3_new_inv idx limit : It3Inv (it3_new idx limit).
Proof. unfold It3Inv, it3_new. cbn. discriminate. Qed.

Theorem it3_next_spec c1 c2 s : It3Inv s ->
  let '(r, s') := it3_next c1 c2 s in
  r = Dlim (j_limit s) (j_idx s) /\ It3Inv s' /\ j_limit s' = j_limit s /\
  j_idx s' = (if r then S (j_idx s) else j_idx s).
Proof.
  intros Hinv. unfold it3_next.
  assert (Hsnap : let '(len, ok) := (if j_init s then (j_len s, j_ok s) else W c1 (j_idx s)) in Snap (j_idx s) len ok).
  { destruct (j_init s) eqn:Ei; [apply Hinv; exact Ei|].
    pose proof (W_ok c1 (j_idx s)) as Hw. destruct (W c1 (j_idx s)) as [l o]. exact Hw. }
  destruct (if j_init s then (j_len s, j_ok s) else W c1 (j_idx s)) as [len ok].
  destruct Hsnap as (H1 & H2 & H3). unfold Dlim.
  destruct ok eqn:Eok; cbn [negb orb].
  - symmetry in H2. apply Nat.ltb_lt in H2.
    destruct (Nat.leb_spec (j_limit s) (j_idx s)) as [Hl|Hl].
    + destruct (Nat.ltb_spec (j_idx s) (j_limit s)); [lia|].
      split; [reflexivity|]. split; [|split; reflexivity].
      unfold It3Inv. cbn. intros _. split; [exact H1|]. split; [symmetry; apply Nat.ltb_lt; exact H2|discriminate].
    + destruct (Nat.ltb_spec (j_idx s) (j_limit s)); [|lia].
      pose proof (H1 _ H2) as Hd. unfold get. destruct (D (j_idx s)) as [d|] eqn:Ed; [|congruence].
      split; [reflexivity|].
      destruct (Nat.eqb_spec (S (j_idx s)) len) as [He|He].
      * pose proof (W_ok c2 (S (j_idx s))) as Hw. destruct (W c2 (S (j_idx s))) as [l2 o2].
        split; [unfold It3Inv; cbn; intros _; exact Hw|]. split; reflexivity.
      * split; [|split; reflexivity]. unfold It3Inv. cbn. intros _.
        split; [exact H1|]. split; [symmetry; apply Nat.ltb_lt; lia|discriminate].
  - symmetry in H2. apply Nat.ltb_ge in H2. specialize (H3 eq_refl).
    assert (Hnone : D (j_idx s) = None) by (apply (D_mono D D_closed len); auto).
    split; [destruct (j_idx s <? j_limit s); [symmetry; exact Hnone|reflexivity]|].
    split; [|split; reflexivity].
    unfold It3Inv. cbn. intros _. split; [exact H1|]. split; [symmetry; apply Nat.ltb_ge; exact H2|intros _; exact H3].
Qed.

(* ---- limitSpec.At(index) ---- *)
Definition lim_at (c : nat) (limit index : nat) : option nat :=
  if limit <=? index then None          (* delegate.At(limit) is called for its effect on the demand only *)
  else at_ D W c index.

Theorem lim_at_spec c limit index : lim_at c limit index = Dlim limit index.
Proof.
  unfold lim_at, Dlim. destruct (Nat.leb_spec limit index).
  - destruct (Nat.ltb_spec index limit); [lia|reflexivity].
  - destruct (Nat.ltb_spec index limit); [|lia]. apply at_spec; auto.
Qed.

(* ---- FirstN(n): wait(n-1), then data[:n] when longer.  The length of the returned slice ---- *)
Definition first_n_len (c n : nat) : nat :=
  match n with
  | O => 0
  | S m => let '(len, _) := W c m in Nat.min len n
  end.

Theorem first_n_spec c n :
  let L := first_n_len c n in
  L <= n /\ (forall j, j < L -> D j <> None) /\ (L < n -> D L = None).
Proof.
  unfold first_n_len. destruct n as [|m]; [cbn; repeat split; try lia; intros; lia|].
  pose proof (W_ok c m) as Hw. destruct (W c m) as [len ok]. destruct Hw as (H1 & H2 & H3).
  split; [lia|]. split.
  - intros j Hj. apply H1. lia.
  - intros Hlt. assert (len <= m) by lia.
    assert (ok = false) by (rewrite H2; apply Nat.ltb_ge; lia).
    rewrite Nat.min_l by lia. auto.
Qed.

(* ---- wrappers over ANY inner pull iterator that delivers a digit function E consecutively ---- *)
Section Wrap.
  Variable E : nat -> option nat.                     (* what the inner iterator delivers: E at its position *)
  Hypothesis E_closed : forall i, E i = None -> E (S i) = None.
  Variable St : Type.
  Variable inner_next : nat -> St -> option nat * St.  (* one pull under call counter c *)
  Variable pos : St -> nat.
  Variable InvI : St -> Prop.
  Hypothesis inner_spec : forall c s, InvI s ->
    let '(r, s') := inner_next c s in r = E (pos s) /\ InvI s' /\ pos s' = (if r then S (pos s) else pos s).

  (* v1/v2 limitSpec.IteratorAt: own index, stops at the limit without pulling the delegate *)
  Definition lim_next (limit : nat) (c : nat) (st : nat * St) : option nat * (nat * St) :=
    let '(index, s) := st in
    if index =? limit then (None, st)
    else let '(r, s') := inner_next c s in (r, (S index, s')).

  (* as long as the wrapper's index equals the inner position (true at creation: both start at min(index, limit))
     every pull delivers E cut at the limit, and the correspondence is kept while digits are delivered *)
  Theorem lim_next_spec limit c index s : InvI s -> pos s = index -> index <= limit ->
    let '(r, (index', s')) := lim_next limit c (index, s) in
    r = (if index <? limit then E index else None) /\ InvI s' /\
    (r <> None -> pos s' = index' /\ index' <= limit).
  Proof.
    intros Hi Hp Hle. unfold lim_next. destruct (Nat.eqb_spec index limit) as [->|Hne].
    - rewrite Nat.ltb_irrefl. split; [reflexivity|]. split; [exact Hi|]. intros H; congruence.
    - destruct (Nat.ltb_spec index limit); [|lia].
      pose proof (inner_spec c s Hi) as H1. destruct (inner_next c s) as [r s'].
      destruct H1 as (Hr & Hi' & Hpos). subst index. split; [exact Hr|]. split; [exact Hi'|].
      intros Hn. destruct r; [|congruence]. rewrite Hpos. lia.
  Qed.

  (* v1/v2 fullIteratorAt: one digit is prefetched; a pull returns the prefetched digit with its position and
     prefetches the next one *)
  Definition full_new (c : nat) (s : St) : nat * option nat * St :=
    let p := pos s in let '(r, s') := inner_next c s in (p, r, s').

  Definition full_next (c : nat) (st : nat * option nat * St) : option (nat * nat) * (nat * option nat * St) :=
    let '(index, dig, s) := st in
    match dig with
    | None => (None, st)
    | Some d => let '(r, s') := inner_next c s in (Some (index, d), (S index, r, s'))
    end.

  Definition FullInv (st : nat * option nat * St) : Prop :=
    let '(index, dig, s) := st in
    InvI s /\ dig = E index /\ pos s = (if dig then S index else index).

  Lemma full_new_inv c s : InvI s -> FullInv (full_new c s) /\ fst (fst (full_new c s)) = pos s.
  Proof.
    intros Hi. unfold full_new. pose proof (inner_spec c s Hi) as H. destruct (inner_next c s) as [r s'].
    destruct H as (Hr & Hi' & Hp). cbn. split; [|reflexivity]. split; [exact Hi'|]. split; [exact Hr|exact Hp].
  Qed.

  Theorem full_next_spec c st : FullInv st ->
    let index := fst (fst st) in
    let '(r, st') := full_next c st in
    r = (match E index with Some d => Some (index, d) | None => None end) /\ FullInv st' /\
    fst (fst st') = (if r then S index else index).
  Proof.
    destruct st as [[index dig] s]. intros (Hi & Hd & Hp). cbn [fst]. unfold full_next.
    destruct dig as [d|].
    - rewrite <- Hd. pose proof (inner_spec c s Hi) as H. destruct (inner_next c s) as [r s'].
      destruct H as (Hr & Hi' & Hp'). split; [reflexivity|]. split; [|reflexivity].
      unfold FullInv. split; [exact Hi'|]. rewrite Hp in Hr, Hp'. split; [exact Hr|exact Hp'].
    - rewrite <- Hd. split; [reflexivity|]. split; [|reflexivity]. unfold FullInv. auto.
  Qed.
End Wrap.
End Clients2.
