(* C09 - pattern search reports exactly the occurrences, in order. *)
From Coq Require Import ZArith List Lia Bool Arith.
Require Import KmpModel KmpSpec KmpProof FindModel FindBackward.
Import ListNotations.

(* the failure table is the longest-proper-border function (tbl[j] = longest k < j with pat[0..k) a suffix of
   pat[0..j)), tbl[0] = -1; ttable never fails (no index out of range, inner loop terminates within its fuel) *)
Theorem C09_table : forall pat, (1 <= length pat)%nat ->
  exists tbl, ttable pat = Some tbl /\ TblUpTo pat tbl (length pat).
Proof. exact ttable_spec. Qed.
Print Assumptions C09_table.

(* the automaton over a whole text reports exactly the positions q at which the |pat| characters ending at q
   equal pat (overlapping occurrences included), ascending; Visit never indexes out of range *)
Theorem C09_kmp_all : forall pat w, (1 <= length pat)%nat ->
  kmp_all pat w = Some (spec_ends pat w 0 (length w)).
Proof. exact kmp_all_spec. Qed.
Print Assumptions C09_kmp_all.

(* Pb is the boolean reading of "pat[0..k) is a suffix of w" *)
Theorem C09_occurrence_meaning : forall pat w k, Pb pat w k = true <-> P pat w k.
Proof. exact Pb_spec. Qed.

(* every search entry point (first / firstN / all / last / lastN / pull iterators / push iterators with early exit)
   over a text starting at position lo returns the corresponding selection of the declarative occurrence lists:
   forward = start positions ascending, backward = the occurrences of the reversed pattern in the reversed text
   mapped back to start positions (descending); the empty pattern matches at every position; never a panic *)
Theorem C09_find : forall fn n pat lo w,
  find_model fn n pat lo w = Some (find_spec fn n pat lo w).
Proof. exact find_model_spec. Qed.
Print Assumptions C09_find.

(* the backward searches (BackwardMatches, FindR, FindLast, FindLastN) report the same occurrences as the forward ones,
   in descending order *)
Theorem C09_backward_is_reverse : forall pat lo w, occ_bwd pat lo w = rev (occ_fwd pat lo w).
Proof. exact occ_bwd_is_rev. Qed.
Print Assumptions C09_backward_is_reverse.

(* a pattern containing a value that no digit of the text equals matches nowhere *)
Theorem C09_bad_digit : forall pat w x, In x pat -> ~ In x w -> (1 <= length pat)%nat ->
  spec_ends pat w 0 (length w) = [].
Proof.
  intros pat w x Hin Hnot Hlen. unfold spec_ends.
  assert (G : forall l, filter (fun q => Pb pat (firstn (S q) w) (length pat)) l = []).
  { induction l as [|q l IH]; cbn [filter]; auto.
    destruct (Pb pat (firstn (S q) w) (length pat)) eqn:E; auto. exfalso.
    apply Pb_spec in E. destruct E as (E1 & E2 & E3).
    destruct (In_nth_error _ _ Hin) as (j & Hj).
    assert (Hjl : (j < length pat)%nat) by (apply nth_error_Some; congruence).
    specialize (E3 j Hjl). rewrite Hj in E3. symmetry in E3.
    apply nth_error_In in E3. apply Hnot.
    rewrite <- (firstn_skipn (S q) w). apply in_or_app. left. exact E3. }
  rewrite G. reflexivity.
Qed.
Print Assumptions C09_bad_digit.

Example C09_ex_overlap : find_model 2 0 [1; 2; 1]%Z 10 [1; 2; 1; 2; 1; 3; 1; 2; 1]%Z = Some [10; 12; 16]%Z.
Proof. vm_compute. reflexivity. Qed.
Example C09_ex_backward : find_model 4 2 [1; 2; 1]%Z 10 [1; 2; 1; 2; 1; 3; 1; 2; 1]%Z = Some [16; 12]%Z.
Proof. vm_compute. reflexivity. Qed.
Example C09_ex_empty : find_model 1 3 [] 5 [7; 7; 7; 7]%Z = Some [5; 6; 7]%Z.
Proof. vm_compute. reflexivity. Qed.
