(* C03 - a root's digit sequence ends exactly when the root is a terminating decimal. *)
From Coq Require Import ZArith List Lia Bool.
Require Import RunList Compute ComputeProof C01Form.
Import ListNotations.
Open Scope Z_scope.

(* (1) if the end is reported after the digits ds, those digits are exact; no shorter prefix is *)
Theorem C03_end_exact : forall k num den n, 0 < num -> 0 < den ->
  exists e ds ended, ctor k num den n = RNum e ds ended /\
    (ended = true -> exact_at k num den e (length ds) (val ds)) /\
    (forall j, (j < length ds)%nat -> ~ exact_at k num den e j (val (firstn j ds))).
Proof.
  intros k num den n Hn Hd. destruct (ctor_total k num den n Hn Hd) as (e & ds & en & Hc & S).
  exists e, ds, en. split; [exact Hc|]. split; [apply (cs_end _ _ _ _ _ _ _ S)|apply (cs_notyet _ _ _ _ _ _ _ S)].
Qed.
Print Assumptions C03_end_exact.

(* (2) conversely: if n digits were produced without seeing the end, the end comes right after them
       if and only if they are exact *)
Theorem C03_ends_iff_exact : forall k num den n e ds, 0 < num -> 0 < den ->
  ctor k num den n = RNum e ds false ->
  (exact_at k num den e n (val ds) <-> ctor k num den (S n) = RNum e ds true).
Proof. exact ctor_ends_iff_exact. Qed.
Print Assumptions C03_ends_iff_exact.

(* (3) in the finite case the last digit is not zero *)
Theorem C03_last_digit : forall k num den n e ds r dl, 0 < den ->
  ctor_spec k num den n e ds true -> ds = r ++ [dl] -> dl <> 0.
Proof. exact ctor_last_digit. Qed.
Print Assumptions C03_last_digit.

(* (4) infinite case: if no prefix length is exact the sequence never ends; every position holds a digit 0..9 *)
Theorem C03_never_ends : forall k num den n e ds ended,
  ctor_spec k num den n e ds ended ->
  (forall L M, ~ exact_at k num den e L M) -> ended = false /\ length ds = n /\ Forall (fun d => 0 <= d <= 9) ds.
Proof. exact ctor_never_ends. Qed.
Print Assumptions C03_never_ends.

Example C03_ex_finite : ctor KSqrt 1522756 1 10 = RNum 4 [1; 2; 3; 4] true.
Proof. vm_compute. reflexivity. Qed.
Example C03_ex_finite_small : ctor KCube 1 1000 3 = RNum 0 [1] true.
Proof. vm_compute. reflexivity. Qed.
Example C03_ex_infinite : ctor KSqrt 1 9 6 = RNum 0 [3; 3; 3; 3; 3; 3] false.
Proof. vm_compute. reflexivity. Qed.

(* the constants these theorems are about are the ones in the Go sources now (Generated/SrcParams.v, rewritten on
   every run by harness/cmd/srcparams) *)
Require SrcParamsOK.
Definition C03_source_constants := (SrcParamsOK.compute_constants_v1, SrcParamsOK.compute_constants_v2, SrcParamsOK.compute_constants_v3,
  SrcParamsOK.cube_next_digit_identities, SrcParamsOK.format_constants).
