(* C02 - cube-root digits and exponent are the exact truncated root.
   ctor KCube num den n is the model of the four cube-root constructors of every version (they all reduce to
   nRootFrac / newNRootGenerator on (num, den)); RNum e ds ended = reported exponent, first digits, end seen. *)
From Coq Require Import ZArith List Lia Bool.
Require Import RunList Compute ComputeProof C01Form.
Import ListNotations.
Open Scope Z_scope.

(* For every positive radicand num/den and every depth n the model returns a number whose first j digits
   (every j up to the number of digits it has) spell M with
     M^p * 10^[p(e-j)] * den <= num * 10^[p(j-e)] < (M+1)^p * 10^[p(e-j)] * den     (10^[x] = 10^max(0,x)),
   digits in 0..9, first digit >= 1; never Panic, never out of fuel. *)
Theorem C02_exact : forall num den n, 0 < num -> 0 < den ->
  exists e ds ended, ctor KCube num den n = RNum e ds ended /\ ctor_spec KCube num den n e ds ended.
Proof. exact ctor_cube_spec. Qed.
Print Assumptions C02_exact.

Theorem C02_zero : forall den n, 0 < den -> ctor KCube 0 den n = RZero.
Proof. exact (ctor_zero KCube). Qed.
Print Assumptions C02_zero.

Theorem C02_panic_iff : forall num den n, ctor KCube num den n = RPanic <-> (den <= 0 \/ num < 0).
Proof. exact (ctor_panic_iff KCube). Qed.
Print Assumptions C02_panic_iff.

(* the extracted checker run on the implementation's observations is sound for the statement above *)
Theorem C02_checker_sound : forall num den n e ds ended,
  ctor_check KCube num den n e ds ended = true -> ctor_spec KCube num den n e ds ended.
Proof. exact (ctor_check_sound KCube). Qed.
Print Assumptions C02_checker_sound.

Example C02_ex1 : ctor KCube 2 1 8 = RNum 1 [1; 2; 5; 9; 9; 2; 1; 0] false.
Proof. vm_compute. reflexivity. Qed.
Example C02_ex2 : ctor KCube 1729 1000 4 = RNum 1 [1; 2; 0; 0] false.
Proof. vm_compute. reflexivity. Qed.
Example C02_ex3 : ctor KCube 35223040952 1 9 = RNum 4 [3; 2; 7; 8] true.
Proof. vm_compute. reflexivity. Qed.

(* the constants these theorems are about are the ones in the Go sources now (Generated/SrcParams.v, rewritten on
   every run by harness/cmd/srcparams) *)
Require SrcParamsOK.
Definition C02_source_constants := (SrcParamsOK.compute_constants_v1, SrcParamsOK.compute_constants_v2, SrcParamsOK.compute_constants_v3,
  SrcParamsOK.cube_next_digit_identities, SrcParamsOK.format_constants).

(* the result depends only on the value of the radicand / rational: equal fractions, whatever constructor or
   representation supplied them (big.Rat reduces, int64 pairs do not), give the same exponent, digits and end *)
Require ValueOnly.
Theorem C02_value_only : forall num den num' den' n, (0 < den)%Z -> (0 < den')%Z -> (num * den' = num' * den)%Z ->
  ctor KCube num den n = ctor KCube num' den' n.
Proof. exact (ValueOnly.ctor_value_only KCube). Qed.
Print Assumptions C02_value_only.

(* checking the full length is as good as checking every prefix (CheckLast.v): the truncation property of the
   longest prefix implies that of every shorter one, so one comparison of big numbers decides a digit string of any
   length; the last-only checker is sound for the property and accepts whatever the per-prefix checker accepts *)
Require CheckLast.
Theorem C02_last_prefix_suffices : forall num den e ds, (0 < den)%Z -> Forall (fun d => (0 <= d <= 9)%Z) ds ->
  trunc_ok KCube num den e (length ds) (val ds) ->
  forall j, (j <= length ds)%nat -> trunc_ok KCube num den e j (val (firstn j ds)).
Proof. exact (CheckLast.trunc_all_prefixes KCube). Qed.
Theorem C02_checker_last_sound : forall num den n e ds ended, (0 < den)%Z ->
  CheckLast.ctor_check_last KCube num den n e ds ended = true -> ctor_spec KCube num den n e ds ended.
Proof. exact (CheckLast.ctor_check_last_sound KCube). Qed.
Print Assumptions C02_checker_last_sound.
