(* C17 - finite interface types are held only by sequences bounded by construction (v3). *)
From Coq Require Import ZArith List Lia Bool.
Require Import Views ViewsChain HistModel.
Import ListNotations.
Open Scope Z_scope.

(* is_finite_type v: the dynamic type of v implements FiniteSequence (FN = *FiniteNumber, MWS = *mantissaWithStart;
   the opaque wrappers embed only the Number / Sequence interface and so do not).  bounded: the statement's
   "bounded by construction". *)
Theorem C17_iff : forall ops v v', wf v -> apply_chain v ops = Ok v' ->
  wf v' /\ is_finite_type v' = bounded (is_finite_type v) ops.
Proof. exact finite_iff_bounded. Qed.
Print Assumptions C17_iff.

Theorem C17_never : forall e ss v',
  apply_chain (base_unbounded e) (map OpWithStart ss) = Ok v' -> is_finite_type v' = false.
Proof. exact never_finite_by_with_start. Qed.
Print Assumptions C17_never.

(* *FiniteNumber implies FiniteSequence in the tag table *)
Theorem C17_ptr_finite : forall v, is_ptr_finite_number v = true -> is_finite_type v = true.
Proof. intros [ | | | ]; cbn; auto. Qed.

Example C17_example_unbounded :
  run_history 3 0 [1; 4] [2] 1 [HWS 0 3; HWS 1 5; HFWS 2 7; HWE 2 9]
  = [3; 0; 0; 0; 0; 0;  3; 0; 0; 0; 0; 0;  -9;  1; 1; 0; 0; 0; 0].
Proof. vm_compute. reflexivity. Qed.
