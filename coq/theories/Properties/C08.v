(* C08 - formatting renders the truncated value in the requested shape. *)
From Coq Require Import ZArith List Lia Bool.
Require Import Views HistModel Fmt PrintModel FormatModel FormatProof.
Import ListNotations.
Open Scope Z_scope.

(* Shape of the streaming formatter (formatter.add / Consume / Finish) for every sigDigits, exponent, exact flag and
   digit list: the text is the rendering rp of the emitted digits - the first sigDigits digits of the number, zero
   padded to sigDigits (exact digit count: f, e) or to the exponent (g) - with the point after `exponent` digits,
   "0.000ddd" for exponents <= 0, and "0" / "0.000" when nothing is emitted. *)
Theorem C08_shape : forall sig exp exact ds,
  print_fixed sig exp exact ds =
  match emitted sig exp exact ds with
  | [] => lead_zeros (if exact then sig - exp else - exp)
  | E => rp exp E
  end.
Proof. exact print_fixed_shape. Qed.
Print Assumptions C08_shape.

(* Value: parsing the text back as a decimal gives exactly the number truncated toward zero to the requested digit
   count (numerator = value of the first sigDigits digits, scaled; never rounded up). *)
Theorem C08_value : forall sig exp exact ds,
  digits ds -> exp <= sig -> emitted sig exp exact ds <> [] ->
  let E := emitted sig exp exact ds in
  let t := firstn (Z.to_nat sig) ds in
  dec_value (print_fixed sig exp exact ds) = (Fmt.val E, Z.of_nat (length E) - exp) /\
  Fmt.val E = Fmt.val t * 10 ^ Z.of_nat (length E - length t) /\ exp <= Z.of_nat (length E).
Proof. exact print_fixed_value. Qed.
Print Assumptions C08_value.

(* %g / %G / %v: precision 0 counts as 1; scientific form iff precision < exponent, exponent < -3 or exponent > 6 *)
Theorem C08_g_rule : forall verb prec e f, is_verb verb [103; 71; 118] = true -> is_verb verb [102; 70] = false ->
  new_format_spec verb prec e = Some f ->
  let p := match prec with Some p => p | None => 16 end in
  let P := if p =? 0 then 1 else p in
  fs_sig f = P /\ fs_exact f = false /\ (fs_sci f = true <-> (P < e \/ e < -3 \/ 6 < e)).
Proof. exact g_rule. Qed.

(* width: spaces on the left, or on the right with '-', never truncating *)
Theorem C08_width : forall width minus t,
  exists pad, (forall c, In c pad -> c = 32) /\
    pad_field width minus t = (if minus then t ++ pad else pad ++ t) /\
    Z.of_nat (length pad) = match width with Some w => Z.max 0 (w - Z.of_nat (length t)) | None => 0 end.
Proof. exact pad_field_spec. Qed.

Theorem C08_bad_verb : forall d v verb prec width minus, new_format_spec verb prec (exponent_of v) = None ->
  format d v verb prec width minus = [37; 33] ++ [fix_rune verb] ++ [40; 110; 117; 109; 98; 101; 114; 61] ++ string_of d v ++ [41].
Proof. exact bad_verb. Qed.

Theorem C08_string_is_g : forall d v, string_of d v = format d v 103 None None false.
Proof. exact string_is_g. Qed.
Print Assumptions C08_string_is_g.

(* non-vacuity: sqrt(2)-like 1.4142135..., %.3f, %8.2e with '-', %g of 0.00012 (exponent -3), bad verb *)
Example C08_ex1 : format (mkD [1;4;1;4;2;1;3;5] [6]) (ON (FN SMemo 1)) 102 (Some 3) None false = [49;46;52;49;52].
Proof. vm_compute. reflexivity. Qed.
Example C08_ex2 : format (mkD [1;4;1;4;2] [] ) (FN SMemo 1) 101 (Some 2) (Some 10) true = [48;46;49;52;101;43;48;49;32;32].
Proof. vm_compute. reflexivity. Qed.
Example C08_ex3 : format (mkD [1;2] []) (FN SMemo (-3)) 103 None None false = [48;46;48;48;48;49;50].
Proof. vm_compute. reflexivity. Qed.
Example C08_ex4 : format (mkD [5] []) (FN SMemo 1) 100 None None false = [37;33;100;40;110;117;109;98;101;114;61;53;41].
Proof. vm_compute. reflexivity. Qed.

(* the constants these theorems are about are the ones in the Go sources now (Generated/SrcParams.v, rewritten on
   every run by harness/cmd/srcparams) *)
Require SrcParamsOK.
Definition C08_source_constants := (SrcParamsOK.compute_constants_v1, SrcParamsOK.compute_constants_v2, SrcParamsOK.compute_constants_v3,
  SrcParamsOK.cube_next_digit_identities, SrcParamsOK.format_constants).

(* the 0.ddde+XX form: the mantissa is print_fixed with exponent 0 (C08_shape / C08_value apply with exp = 0), then
   e or E, then the exponent as a sign and at least two decimal digits denoting |exponent| *)
Require DecProof.
Theorem C08_sci_form : forall f d v e, fs_sci f = true -> - 10 ^ 80 < e < 10 ^ 80 ->
  exists ds, print_number f d v e =
             print_fixed (fs_sig f) 0 (fs_exact f) (digits_for d v (fs_sig f))
             ++ [if fs_capital f then 69 else 101] ++ (if e <? 0 then 45 else 43) :: ds /\
             (2 <= length ds)%nat /\ Forall (fun c => 48 <= c <= 57) ds /\ DecProof.codes_value ds = Z.abs e.
Proof. exact sci_form. Qed.
Print Assumptions C08_sci_form.
