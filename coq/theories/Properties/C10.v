(* C10 - printed digit tables place every digit at its true position: the text is byte-identical to the
   canonical layout determined by the options alone. *)
From Coq Require Import ZArith List Lia Bool.
Require Import Pos PosHist Views HistModel PrnModel PrnProof PrintModel PrintProof DecProof.
Import ListNotations.
Open Scope Z_scope.

(* The streaming printer (rawPrinter.Consume, printer.Consume with row skipping and gap filling), for every value
   of digits-per-row, digits-per-column, missing rune, starter strings and count switch, and every ascending list
   of shown (position, digit) pairs, emits exactly the declarative layout:
     cells  = all q <= p_max when labels are off, else those in a row that holds a shown position;
     a cell = its digit when shown, else the missing rune;
     before a cell: the zero starter (first cell), "\n" + label starter at a row boundary, one space at a column boundary. *)
Theorem C10_printer_is_layout : forall R C missing zero_s nz count_on shown, asc 0 shown ->
  print_all R C missing zero_s nz count_on shown = layout R C missing zero_s nz count_on shown.
Proof. exact print_is_layout. Qed.
Print Assumptions C10_printer_is_layout.

(* Sprint / Fprint: for every well-formed view, digit string, list of AddRange calls and option record *)
Theorem C10_sprint : forall o d v rs, wf v ->
  sprint o d v rs = canonical o (end_of (positions_of rs)) (shown_of d v (positions_of rs)).
Proof. exact sprint_is_layout. Qed.
Print Assumptions C10_sprint.

(* Swrite / Fwrite (v3) *)
Theorem C10_swrite : forall o d v n, span d v = Some n ->
  let shown := fwd_list d (eff_hi d v) (eff_lo v) n in
  swrite o d v = canonical o (match rev shown with [] => 0 | (p, _) :: _ => p + 1 end) shown.
Proof. exact swrite_is_layout. Qed.
Print Assumptions C10_swrite.

(* every shown pair is a requested position that exists in the sequence, with its true digit *)
Theorem C10_shown_true : forall d v s e q x n, wf v ->
  In (q, x) (fwd_list d (eff_hi d (with_end (with_start v s) e)) (eff_lo (with_end (with_start v s) e)) n) ->
  s <= q < e /\ 0 <= q.
Proof. intros d v s e q x n Hw. exact (window_bounds d v s e q x Hw n). Qed.

(* when counts are shown, the label printed at a row start is the decimal numeral of the position of the row's first
   column (right aligned, followed by two spaces); the declarative layout places it exactly before the cells q with
   q mod R = 0 (PrnModel.pre) *)
Theorem C10_label_is_position : forall o maxd q, 0 < dcw o maxd -> 0 <= q < 10 ^ 80 ->
  let '(_, nz, con) := starters o maxd in
  con = true /\ exists sp, nz q = sp ++ dec q ++ [32; 32] /\ Forall (fun c => c = 32) sp /\ codes_value (dec q) = q.
Proof. exact row_label_denotes_position. Qed.
Print Assumptions C10_label_is_position.

(* non-vacuity: Sqrt(2)-like digits, rows of 10, columns of 5, positions {0..3} u {23..26} *)
Example C10_example :
  sprint (mkO 10 5 true 46 true false) (mkD [1;4;1;4;2;1;3;5;6;2;3;7;3;0;9;5;0;4;8;8;0;1;6;8;8;7;2;4;2;0] []) (FN SMemo 1)
         [(0, 4); (23, 27)]
  = [32;32;48;46;49;52;49;52;46;32;46;46;46;46;46;10;50;48;32;32;46;46;46;56;56;32;55;50].
Proof. vm_compute. reflexivity. Qed.

(* ---- the clauses of the property read off the canonical layout (LayoutFacts.v): the layout is the rendering of
   a list of cells (position, character); for every option value and every ascending list of shown pairs ---- *)
Require LayoutFacts.
(* every requested existing position is displayed with its digit *)
Theorem C10_shown_is_displayed : forall R missing (nz : Z -> list Z) count_on shown p d, asc 0 shown -> In (p, d) shown ->
  In (p, 48 + d) (LayoutFacts.cells R missing count_on shown).
Proof. exact LayoutFacts.shown_is_displayed. Qed.
(* every other displayed position shows the missing-digit rune, and nothing lies beyond the last shown digit *)
Theorem C10_not_shown_is_missing : forall R missing (nz : Z -> list Z) count_on shown q ch,
  In (q, ch) (LayoutFacts.cells R missing count_on shown) -> ~ In q (positions shown) -> ch = missing.
Proof. exact LayoutFacts.not_shown_is_missing. Qed.
Theorem C10_nothing_beyond : forall R missing (nz : Z -> list Z) count_on shown q ch,
  In (q, ch) (LayoutFacts.cells R missing count_on shown) -> 0 <= q <= pmax shown.
Proof. exact LayoutFacts.nothing_beyond. Qed.
(* with labels displayed, rows without any shown digit are omitted *)
Theorem C10_rows_have_a_shown_digit : forall R missing (nz : Z -> list Z) count_on shown q ch,
  rows_on R count_on = true -> In (q, ch) (LayoutFacts.cells R missing count_on shown) ->
  exists p, In p (positions shown) /\ p / R = q / R.
Proof. exact LayoutFacts.rows_have_a_shown_digit. Qed.
(* in front of a cell: at a row boundary a line feed (not at the very start) and the row starter of the cell's own
   position (C10_label_is_position: its decimal numeral); at a column boundary exactly one space; else nothing *)
Theorem C10_before_cell : forall R C zero_s nz first q, q <> 0 ->
  cell_pre R C zero_s nz first q =
  if (0 <? R) && (q mod R =? 0) then (if first then [] else [10]) ++ nz q
  else if (0 <? C) && (canon R q mod C =? 0) then [32] else [].
Proof. exact LayoutFacts.before_cell. Qed.
Theorem C10_layout_is_cells : forall R C missing zero_s nz count_on shown,
  layout R C missing zero_s nz count_on shown = render R C zero_s nz true (LayoutFacts.cells R missing count_on shown).
Proof. exact LayoutFacts.layout_is_render. Qed.
Print Assumptions C10_shown_is_displayed.
