(* C13 - non-root constructors reproduce exactly the digits they were given.
   Part 1 (this file, so far): NewNumberFromBigRat = ctor KRat (long division at base 10). *)
From Coq Require Import ZArith List Lia Bool.
Require Import RunList Compute ComputeProof C01Form.
Import ListNotations.
Open Scope Z_scope.

(* pw KRat M = M and power_of KRat = 1: the first j digits spell M with
   M * 10^[e-j] * den <= num * 10^[j-e] < (M+1) * 10^[e-j] * den, i.e. M = floor(v * 10^(j-e)); with j = 0:
   10^(e-1) <= v < 10^e follows from the first digit being >= 1 and trunc at j = 0 and j = 1. *)
Theorem C13_rat : forall num den n, 0 < num -> 0 < den ->
  exists e ds ended, ctor KRat num den n = RNum e ds ended /\ ctor_spec KRat num den n e ds ended.
Proof. exact ctor_rat_spec. Qed.
Print Assumptions C13_rat.

Theorem C13_rat_zero : forall den n, 0 < den -> ctor KRat 0 den n = RZero.
Proof. exact (ctor_zero KRat). Qed.

Theorem C13_rat_panic_iff : forall num den n, ctor KRat num den n = RPanic <-> (den <= 0 \/ num < 0).
Proof. exact (ctor_panic_iff KRat). Qed.

Theorem C13_rat_ends_iff : forall num den n e ds, 0 < num -> 0 < den ->
  ctor KRat num den n = RNum e ds false ->
  (exact_at KRat num den e n (val ds) <-> ctor KRat num den (S n) = RNum e ds true).
Proof. exact (ctor_ends_iff_exact KRat). Qed.
Print Assumptions C13_rat_ends_iff.

Theorem C13_rat_no_trailing_zero : forall num den n e ds r dl, 0 < den ->
  ctor_spec KRat num den n e ds true -> ds = r ++ [dl] -> dl <> 0.
Proof. exact (ctor_last_digit KRat). Qed.

Theorem C13_checker_sound : forall num den n e ds ended,
  ctor_check KRat num den n e ds ended = true -> ctor_spec KRat num den n e ds ended.
Proof. exact (ctor_check_sound KRat). Qed.

Example C13_ex1 : ctor KRat 1 8 6 = RNum 0 [1; 2; 5] true.
Proof. vm_compute. reflexivity. Qed.
Example C13_ex2 : ctor KRat 22 7 6 = RNum 1 [3; 1; 4; 2; 8; 5] false.
Proof. vm_compute. reflexivity. Qed.
Example C13_ex3 : ctor KRat 3 70000 4 = RNum (-4) [4; 2; 8; 5] false.
Proof. vm_compute. reflexivity. Qed.

(* ---- Part 2: NewNumberForTesting / NewFiniteNumber and NewNumber(g) ---- *)
Require Import Views HistModel HistProof.

(* NewNumberForTesting(fixed, rep, e): zero number iff both lists are empty; error iff some value is outside
   0..9 or the first digit would be 0; otherwise digits fixed ++ rep^omega (digit_at), exponent e, finite type
   in v3 exactly when rep = [] (base_of) *)
Theorem C13_test_status : forall fixed rep,
  (test_number_status fixed rep = 1 <-> fixed = [] /\ rep = []) /\
  (test_number_status fixed rep = 2 <->
     (fixed ++ rep <> [] /\ (Exists (fun x => in_range x = false) (fixed ++ rep) \/ exists r, fixed ++ rep = 0 :: r))).
Proof. exact test_number_status_spec. Qed.
Print Assumptions C13_test_status.

(* NewNumber(g): exactly the longest prefix of g's stream whose values are all within 0..9 *)
Theorem C13_gen_prefix : forall raw rep,
  let d := valid_prefix raw rep in
  Forall (fun x => in_range x = true) (d_fixed d ++ d_rep d) /\
  ((d = mkD raw rep /\ Forall (fun x => in_range x = true) (raw ++ rep))
   \/ (d_rep d = [] /\ exists x r, (raw ++ rep) = d_fixed d ++ x :: r /\ in_range x = false)).
Proof. exact valid_prefix_spec. Qed.
Print Assumptions C13_gen_prefix.

Example C13_gen_example :
  run_history 3 1 [1; 2; 3; 263; 4; 5] [] 2 [HWS 0 0; HRUN 0 0 10; HAT 0 3]
  = [2; 0; 0; 1; 2; 0;  3; 0; 1; 1; 2; 2; 3;  -1].
Proof. vm_compute. reflexivity. Qed.
Example C13_gen_zero : run_history 3 1 [0; 5] [] 2 [HWS 0 0] = [0; 1; 1; 1; 0; 1].
Proof. vm_compute. reflexivity. Qed.

(* the constants these theorems are about are the ones in the Go sources now (Generated/SrcParams.v, rewritten on
   every run by harness/cmd/srcparams) *)
Require SrcParamsOK.
Definition C13_source_constants := (SrcParamsOK.compute_constants_v1, SrcParamsOK.compute_constants_v2, SrcParamsOK.compute_constants_v3,
  SrcParamsOK.cube_next_digit_identities, SrcParamsOK.format_constants).

(* the result depends only on the value of the radicand / rational: equal fractions, whatever constructor or
   representation supplied them (big.Rat reduces, int64 pairs do not), give the same exponent, digits and end *)
Require ValueOnly.
Theorem C13_value_only : forall num den num' den' n, (0 < den)%Z -> (0 < den')%Z -> (num * den' = num' * den)%Z ->
  ctor KRat num den n = ctor KRat num' den' n.
Proof. exact (ValueOnly.ctor_value_only KRat). Qed.
Print Assumptions C13_value_only.

(* the statement's own formula: digit p = floor(v * 10^(p+1-e)) mod 10 (division-free exponents: 10^[x] = 10^max(0,x)) *)
Theorem C13_rat_digit_formula : forall num den n e ds ended p d, 0 < den ->
  ctor_spec KRat num den n e ds ended -> nth_error ds p = Some d ->
  d = ((num * p10 (Z.of_nat (S p) - e)) / (p10 (e - Z.of_nat (S p)) * den)) mod 10.
Proof. exact rat_digit_formula. Qed.
Print Assumptions C13_rat_digit_formula.
