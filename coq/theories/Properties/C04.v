(* C04 - all read paths agree on every digit, independent of access history.
   Layer C (LayerC.v): the read paths as coded, against ANY oracle for memoizer.wait that satisfies the wait
   contract WaitOK (returned slice is a prefix of D, ok iff index inside it, not ok only when D is complete).
   Every interleaving, block size and timing is one such oracle (M_contract in Conc.v: C05). *)
From Coq Require Import Arith List Lia Bool ZArith.
Require Import LayerC LayerC2 HistModel HistProof.
Import ListNotations.

(* At(i) is D[i] or absent, for every oracle and every call number (history) *)
Theorem C04_at : forall (D : nat -> option nat), (forall i, D i = None -> D (S i) = None) ->
  forall (W : nat -> nat -> nat * bool), (forall c i, WaitOK D i (W c i)) ->
  forall c i, at_ D W c i = D i.
Proof. exact at_spec. Qed.
Print Assumptions C04_at.

(* v3 Scan / ScanValues with early exit after k items = the first k positions of [idx, limit) present in D *)
Theorem C04_scan : forall (D : nat -> option nat), (forall i, D i = None -> D (S i) = None) ->
  forall (W : nat -> nat -> nat * bool), (forall c i, WaitOK D i (W c i)) ->
  forall k c idx limit, scan D W k c idx limit = listing D k idx limit.
Proof. exact scan_spec. Qed.
Print Assumptions C04_scan.

(* pull iterators: any sequence of pulls, with arbitrary other activity in between (the oracle call numbers cs
   are arbitrary), delivers consecutive positions of D from the iterator's index, then "end" forever *)
Theorem C04_pulls : forall (D : nat -> option nat), (forall i, D i = None -> D (S i) = None) ->
  forall (W : nat -> nat -> nat * bool), (forall c i, WaitOK D i (W c i)) ->
  forall cs s, ItInv D s -> it_pulls D W cs s = expect D (length cs) (i_idx s).
Proof. exact it_pulls_spec. Qed.
Print Assumptions C04_pulls.

Theorem C04_history_independent : forall (D : nat -> option nat), (forall i, D i = None -> D (S i) = None) ->
  forall (W : nat -> nat -> nat * bool), (forall c i, WaitOK D i (W c i)) ->
  forall cs1 cs2 c1 c2 idx, length cs1 = length cs2 ->
  it_pulls D W cs1 (it_new W c1 idx) = it_pulls D W cs2 (it_new W c2 idx).
Proof. exact it_history_independent. Qed.
Print Assumptions C04_history_independent.

Local Close Scope Z_scope.
(* ---- the remaining wrappers (LayerC2.v), each for every oracle ---- *)
(* v3 IteratorAt(index, limit) with its deferred first wait: every pull delivers D cut at the limit at the iterator's
   own position, whatever happened before the first pull and between pulls *)
Theorem C04_v3_iterator : forall (D : nat -> option nat), (forall i, D i = None -> D (S i) = None) ->
  forall (W : nat -> nat -> nat * bool), (forall c i, WaitOK D i (W c i)) ->
  forall c1 c2 s, It3Inv D s ->
  let '(r, s') := it3_next D W c1 c2 s in
  r = Dlim D (j_limit s) (j_idx s) /\ It3Inv D s' /\ j_limit s' = j_limit s /\
  j_idx s' = (if r then S (j_idx s) else j_idx s).
Proof. exact it3_next_spec. Qed.
Print Assumptions C04_v3_iterator.

(* limitSpec.At *)
Theorem C04_limit_at : forall (D : nat -> option nat), (forall i, D i = None -> D (S i) = None) ->
  forall (W : nat -> nat -> nat * bool), (forall c i, WaitOK D i (W c i)) ->
  forall c limit index, lim_at D W c limit index = Dlim D limit index.
Proof. exact lim_at_spec. Qed.

(* FirstN(n) (behind Reverse, Backward, FullReverse, NumDigits, allDigits): exactly the digits below n that exist *)
Theorem C04_first_n : forall (D : nat -> option nat) (W : nat -> nat -> nat * bool), (forall c i, WaitOK D i (W c i)) ->
  forall c n, let L := first_n_len W c n in
  L <= n /\ (forall j, j < L -> D j <> None) /\ (L < n -> D L = None).
Proof. exact first_n_spec. Qed.
Print Assumptions C04_first_n.

(* v1/v2 limitSpec.IteratorAt over any inner pull iterator delivering E: E cut at the limit *)
Theorem C04_limit_iterator : forall (E : nat -> option nat) (St : Type) (inner_next : nat -> St -> option nat * St)
    (pos : St -> nat) (InvI : St -> Prop),
  (forall c s, InvI s -> let '(r, s') := inner_next c s in r = E (pos s) /\ InvI s' /\ pos s' = (if r then S (pos s) else pos s)) ->
  forall limit c index s, InvI s -> pos s = index -> index <= limit ->
  let '(r, (index', s')) := lim_next St inner_next limit c (index, s) in
  r = (if index <? limit then E index else None) /\ InvI s' /\ (r <> None -> pos s' = index' /\ index' <= limit).
Proof. exact lim_next_spec. Qed.

(* v1/v2 fullIteratorAt (FullIterator, v2 Iterator): prefetching wrapper delivers (position, digit) consecutively *)
Theorem C04_full_iterator : forall (E : nat -> option nat) (St : Type) (inner_next : nat -> St -> option nat * St)
    (pos : St -> nat) (InvI : St -> Prop),
  (forall c s, InvI s -> let '(r, s') := inner_next c s in r = E (pos s) /\ InvI s' /\ pos s' = (if r then S (pos s) else pos s)) ->
  forall c st, FullInv E St pos InvI st ->
  let index := fst (fst st) in
  let '(r, st') := full_next St inner_next c st in
  r = (match E index with Some d => Some (index, d) | None => None end) /\ FullInv E St pos InvI st' /\
  fst (fst st') = (if r then S index else index).
Proof. exact full_next_spec. Qed.
Print Assumptions C04_full_iterator.

(* the reference listing used by the correspondence run is consecutive, carries the true digits and stops
   exactly at the end of the view *)
Theorem C04_listing_consecutive : forall d h k p,
  let l := fwd_list d h p k in
  (length l <= k)%nat /\
  (forall i pv, nth_error l i = Some pv ->
     fst pv = (p + Z.of_nat i)%Z /\ digit_at d (fst pv) = Some (snd pv) /\ below (fst pv) h = true) /\
  ((length l < k)%nat -> below (p + Z.of_nat (length l))%Z h = false \/ digit_at d (p + Z.of_nat (length l))%Z = None).
Proof. exact fwd_list_spec. Qed.
Print Assumptions C04_listing_consecutive.

(* non-vacuity: a history over a 3-digit number: At, a pull iterator interleaved with a run, absence beyond the end *)
Example C04_example :
  run_history 3 0 [1; 4; 2]%Z [] 1%Z [HAT 0 1%Z; HNEW 0 0%Z 0%Z; HNX 0; HRUN 0 0%Z (-1)%Z; HNX 0; HNX 0; HNX 0; HAT 0 3%Z; HAT 0 (-1)%Z]
  = [4; 0; 0; 1; 3; 0; 1; 1; 4; 2; 2; 1; 4; 2; 2; -1; -1; -1; -1]%Z.
Proof. vm_compute. reflexivity. Qed.

(* ---- end to end (HistReads.v): the history model that the correspondence runs compare the implementation with
   answers exactly what the code's read paths through a view's numberSpec deliver against ANY wait oracle:
   Scan / All / Values stopped after k items, and At ---- *)
Require Views HistModel ViewReads HistReads.
Theorem C04_scan_is_model : forall d, HistReads.digits_ok d ->
  forall (W : nat -> nat -> nat * bool), (forall c i, WaitOK (HistReads.Dn d) i (W c i)) ->
  forall big k c v, Views.wf v ->
  (forall q, q < Z.to_nat (HistModel.eff_lo v) + k -> HistReads.Dn d q <> None -> q < big) ->
  (match HistReads.nspec_of (HistReads.spec_of v) with ViewReads.NLim l => l <= big | _ => True end) ->
  map HistReads.zpair (ViewReads.view_scan (HistReads.Dn d) W big k c (HistReads.nspec_of (HistReads.spec_of v))
                         (Z.to_nat (HistModel.eff_lo v)))
  = HistModel.fwd_list d (HistModel.eff_hi d v) (HistModel.eff_lo v) k.
Proof. exact HistReads.scan_is_model. Qed.
Print Assumptions C04_scan_is_model.

Theorem C04_at_is_model : forall d, HistReads.digits_ok d ->
  forall (W : nat -> nat -> nat * bool), (forall c i, WaitOK (HistReads.Dn d) i (W c i)) ->
  forall c v p, Views.wf v ->
  option_map Z.of_nat (ViewReads.view_at (HistReads.Dn d) W c (HistReads.nspec_of (HistReads.spec_of v)) p)
  = (if HistModel.below (Z.of_nat p) (HistModel.eff_hi d v) then HistModel.digit_at d (Z.of_nat p) else None).
Proof. exact HistReads.at_is_model. Qed.
Print Assumptions C04_at_is_model.

(* non-vacuity: an oracle that has published everything satisfies the contract, and the view [2, 5) of 1.41421 lists 1 4 2 *)
Definition C04_ex_d := HistModel.mkD [1; 4; 1; 4; 2; 1]%Z [].
Definition C04_ex_W (c i : nat) : nat * bool := (6, Nat.ltb i 6).
Example C04_end_to_end_example :
  (forall c i, WaitOK (HistReads.Dn C04_ex_d) i (C04_ex_W c i)) /\
  map HistReads.zpair (ViewReads.view_scan (HistReads.Dn C04_ex_d) C04_ex_W 1000 10 0 (ViewReads.NLim 5) 2)
  = [(2, 1); (3, 4); (4, 2)]%Z.
Proof.
  split; [|vm_compute; reflexivity].
  intros c i. unfold C04_ex_W. cbn [WaitOK]. split; [|split; [reflexivity|]].
  - intros j Hj. do 6 (destruct j as [|j]; [vm_compute; discriminate|]). lia.
  - intros _. vm_compute. reflexivity.
Qed.

(* ---- the v1/v2 pull-iterator stacks as the exported methods build them (LayerC3.v), for every wait oracle and
   every history of other activity between pulls (the call numbers cs, c0, c1 are arbitrary):
   FullIterator / v2 Iterator of a Number, and of a Number limited by WithSignificant / WithEnd ---- *)
Require LayerC3.
Theorem C04_full_iterator_of_number : forall (D : nat -> option nat), (forall i, D i = None -> D (S i) = None) ->
  forall (W : nat -> nat -> nat * bool), (forall c i, WaitOK D i (W c i)) ->
  forall cs c0 c1 start,
  LayerC3.full_pulls LayerC.it (LayerC.it_next D W) cs (LayerC2.full_new LayerC.it (LayerC.it_next D W) LayerC.i_idx c1 (LayerC.it_new W c0 start))
  = LayerC3.expect_pairs D (length cs) start.
Proof. exact LayerC3.full_over_memo. Qed.
Print Assumptions C04_full_iterator_of_number.

Theorem C04_full_iterator_of_limited_number : forall (D : nat -> option nat), (forall i, D i = None -> D (S i) = None) ->
  forall (W : nat -> nat -> nat * bool), (forall c i, WaitOK D i (W c i)) ->
  forall cs c0 c1 start limit,
  let idx := Nat.min start limit in
  LayerC3.full_pulls (nat * LayerC.it) (LayerC2.lim_next LayerC.it (LayerC.it_next D W) limit) cs
    (LayerC2.full_new (nat * LayerC.it) (LayerC2.lim_next LayerC.it (LayerC.it_next D W) limit) fst c1 (idx, LayerC.it_new W c0 idx))
  = LayerC3.expect_pairs (LayerC3.Elim D limit) (length cs) idx.
Proof. exact LayerC3.full_over_limit_over_memo. Qed.
Print Assumptions C04_full_iterator_of_limited_number.

(* v1 Iterator() / IteratorAt(start) of a limited Number: any number of pulls *)
Theorem C04_limited_iterator_pulls : forall (D : nat -> option nat), (forall i, D i = None -> D (S i) = None) ->
  forall (W : nat -> nat -> nat * bool), (forall c i, WaitOK D i (W c i)) ->
  forall cs c0 start limit,
  let idx := Nat.min start limit in
  LayerC3.lim_pulls D W limit cs (idx, LayerC.it_new W c0 idx) = LayerC3.expectE (LayerC3.Elim D limit) (length cs) idx.
Proof. exact LayerC3.limited_iterator_pulls. Qed.
Print Assumptions C04_limited_iterator_pulls.

(* the history model's answers to successive pulls of a forward iterator = the pairs the composed iterator stacks
   deliver (C04_full_iterator_of_number / _of_limited_number), so the pull paths are tied end to end as well *)
Theorem C04_pulls_are_model : forall d sp, Views.wf_spec sp -> HistReads.digits_ok d -> forall n p,
  HistReads.hnx_fwd d (HistModel.omin2 (Views.spec_hi sp) (HistModel.dlen d)) (Z.of_nat p) n
  = map (option_map HistReads.zpair)
        (LayerC3.expect_pairs (ViewReads.Dview (HistReads.Dn d) (HistReads.nspec_of sp)) n p).
Proof. exact HistReads.hnx_is_pairs. Qed.
Print Assumptions C04_pulls_are_model.

(* and hnx_fwd is literally what the executable history model (the oracle of the correspondence runs) answers to
   n successive NX operations on one forward iterator *)
Theorem C04_model_pulls : forall ver d vs n p h lo,
  HistModel.run_ops ver d (HistModel.mkH vs [Some (HistModel.mkIt p true h lo true)]) (repeat (HistModel.HNX 0) n)
  = flat_map HistReads.enc_pull (HistReads.hnx_fwd d h p n).
Proof. exact HistReads.run_ops_pulls. Qed.
