(* C04 - all read paths agree on every digit, independent of access history.
   Layer C (LayerC.v): the read paths as coded, against ANY oracle for memoizer.wait that satisfies the wait
   contract WaitOK (returned slice is a prefix of D, ok iff index inside it, not ok only when D is complete).
   Every interleaving, block size and timing is one such oracle (M_contract in Conc.v: C05). *)
From Coq Require Import Arith List Lia Bool ZArith.
Require Import LayerC LayerC2 HistModel HistProof.
Import ListNotations.

(* At(i) is D[i] or absent, for every oracle and every call number (history) *)
Theorem C04_at : forall (D : nat -> option nat), (forall i, D i = None -> D (S i) = None) ->
  forall (W : nat -> nat -> nat * bool), (forall c i, WaitOK D i (W c i)) ->
  forall c i, at_ D W c i = D i.
Proof. exact at_spec. Qed.
Print Assumptions C04_at.

(* v3 Scan / ScanValues with early exit after k items = the first k positions of [idx, limit) present in D *)
Theorem C04_scan : forall (D : nat -> option nat), (forall i, D i = None -> D (S i) = None) ->
  forall (W : nat -> nat -> nat * bool), (forall c i, WaitOK D i (W c i)) ->
  forall k c idx limit, scan D W k c idx limit = listing D k idx limit.
Proof. exact scan_spec. Qed.
Print Assumptions C04_scan.

(* pull iterators: any sequence of pulls, with arbitrary other activity in between (the oracle call numbers cs
   are arbitrary), delivers consecutive positions of D from the iterator's index, then "end" forever *)
Theorem C04_pulls : forall (D : nat -> option nat), (forall i, D i = None -> D (S i) = None) ->
  forall (W : nat -> nat -> nat * bool), (forall c i, WaitOK D i (W c i)) ->
  forall cs s, ItInv D s -> it_pulls D W cs s = expect D (length cs) (i_idx s).
Proof. exact it_pulls_spec. Qed.
Print Assumptions C04_pulls.

Theorem C04_history_independent : forall (D : nat -> option nat), (forall i, D i = None -> D (S i) = None) ->
  forall (W : nat -> nat -> nat * bool), (forall c i, WaitOK D i (W c i)) ->
  forall cs1 cs2 c1 c2 idx, length cs1 = length cs2 ->
  it_pulls D W cs1 (it_new W c1 idx) = it_pulls D W cs2 (it_new W c2 idx).
Proof. exact it_history_independent. Qed.
Print Assumptions C04_history_independent.

Local Close Scope Z_scope.
(* ---- the remaining wrappers (LayerC2.v), each for every oracle ---- *)
(* v3 IteratorAt(index, limit) with its deferred first wait: every pull delivers D cut at the limit at the iterator's
   own position, whatever happened before the first pull and between pulls *)
Theorem C04_v3_iterator : forall (D : nat -> option nat), (forall i, D i = None -> D (S i) = None) ->
  forall (W : nat -> nat -> nat * bool), (forall c i, WaitOK D i (W c i)) ->
  forall c1 c2 s, It3Inv D s ->
  let '(r, s') := it3_next D W c1 c2 s in
  r = Dlim D (j_limit s) (j_idx s) /\ It3Inv D s' /\ j_limit s' = j_limit s /\
  j_idx s' = (if r then S (j_idx s) else j_idx s).
Proof. exact it3_next_spec. Qed.
Print Assumptions C04_v3_iterator.

(* limitSpec.At *)
Theorem C04_limit_at : forall (D : nat -> option nat), (forall i, D i = None -> D (S i) = None) ->
  forall (W : nat -> nat -> nat * bool), (forall c i, WaitOK D i (W c i)) ->
  forall c limit index, lim_at D W c limit index = Dlim D limit index.
Proof. exact lim_at_spec. Qed.

(* FirstN(n) (behind Reverse, Backward, FullReverse, NumDigits, allDigits): exactly the digits below n that exist *)
Theorem C04_first_n : forall (D : nat -> option nat) (W : nat -> nat -> nat * bool), (forall c i, WaitOK D i (W c i)) ->
  forall c n, let L := first_n_len W c n in
  L <= n /\ (forall j, j < L -> D j <> None) /\ (L < n -> D L = None).
Proof. exact first_n_spec. Qed.
Print Assumptions C04_first_n.

(* v1/v2 limitSpec.IteratorAt over any inner pull iterator delivering E: E cut at the limit *)
Theorem C04_limit_iterator : forall (E : nat -> option nat) (St : Type) (inner_next : nat -> St -> option nat * St)
    (pos : St -> nat) (InvI : St -> Prop),
  (forall c s, InvI s -> let '(r, s') := inner_next c s in r = E (pos s) /\ InvI s' /\ pos s' = (if r then S (pos s) else pos s)) ->
  forall limit c index s, InvI s -> pos s = index -> index <= limit ->
  let '(r, (index', s')) := lim_next St inner_next limit c (index, s) in
  r = (if index <? limit then E index else None) /\ InvI s' /\ (r <> None -> pos s' = index' /\ index' <= limit).
Proof. exact lim_next_spec. Qed.

(* v1/v2 fullIteratorAt (FullIterator, v2 Iterator): prefetching wrapper delivers (position, digit) consecutively *)
Theorem C04_full_iterator : forall (E : nat -> option nat) (St : Type) (inner_next : nat -> St -> option nat * St)
    (pos : St -> nat) (InvI : St -> Prop),
  (forall c s, InvI s -> let '(r, s') := inner_next c s in r = E (pos s) /\ InvI s' /\ pos s' = (if r then S (pos s) else pos s)) ->
  forall c st, FullInv E St pos InvI st ->
  let index := fst (fst st) in
  let '(r, st') := full_next St inner_next c st in
  r = (match E index with Some d => Some (index, d) | None => None end) /\ FullInv E St pos InvI st' /\
  fst (fst st') = (if r then S index else index).
Proof. exact full_next_spec. Qed.
Print Assumptions C04_full_iterator.

(* the reference listing used by the correspondence run is consecutive, carries the true digits and stops
   exactly at the end of the view *)
Theorem C04_listing_consecutive : forall d h k p,
  let l := fwd_list d h p k in
  (length l <= k)%nat /\
  (forall i pv, nth_error l i = Some pv ->
     fst pv = (p + Z.of_nat i)%Z /\ digit_at d (fst pv) = Some (snd pv) /\ below (fst pv) h = true) /\
  ((length l < k)%nat -> below (p + Z.of_nat (length l))%Z h = false \/ digit_at d (p + Z.of_nat (length l))%Z = None).
Proof. exact fwd_list_spec. Qed.
Print Assumptions C04_listing_consecutive.

(* non-vacuity: a history over a 3-digit number: At, a pull iterator interleaved with a run, absence beyond the end *)
Example C04_example :
  run_history 3 0 [1; 4; 2]%Z [] 1%Z [HAT 0 1%Z; HNEW 0 0%Z 0%Z; HNX 0; HRUN 0 0%Z (-1)%Z; HNX 0; HNX 0; HNX 0; HAT 0 3%Z; HAT 0 (-1)%Z]
  = [4; 0; 0; 1; 3; 0; 1; 1; 4; 2; 2; 1; 4; 2; 2; -1; -1; -1; -1]%Z.
Proof. vm_compute. reflexivity. Qed.
