(* C15 - searches on infinite sequences stop at the answer. *)
From Coq Require Import ZArith List Lia Bool Arith.
Require Import KmpModel KmpSpec KmpProof FindModel FindPrefix Conc.
Import ListNotations.
Local Close Scope Z_scope.

(* the first n matches are determined by the text up to the end of the n-th match: whatever follows (w2) cannot
   change them; a search that returns once it has them (push iterators return as soon as yield is false, Take
   stops at its count, FromIntGenerator checks CanConsume before each pull) has consulted nothing it needed beyond *)
Theorem C15_first_n_stable : forall pat lo w1 w2 (n : nat), pat <> [] ->
  n <= length (occ_fwd pat lo w1) ->
  firstn n (occ_fwd pat lo (w1 ++ w2)) = firstn n (occ_fwd pat lo w1).
Proof. exact first_n_stable. Qed.
Print Assumptions C15_first_n_stable.

Theorem C15_find_first_stable : forall pat lo w1 w2, pat <> [] -> occ_fwd pat lo w1 <> [] ->
  first_or (occ_fwd pat lo (w1 ++ w2)) = first_or (occ_fwd pat lo w1).
Proof. exact find_first_stable. Qed.

(* on a finite sequence every entry point returns (no fuel exhausted, no index out of range) *)
Theorem C15_finite_terminates : forall fn n pat lo w, exists res, find_model fn n pat lo w = Some res.
Proof. exact find_terminates. Qed.
Print Assumptions C15_finite_terminates.

(* digits consulted: at most (largest index waited for) + B, in every schedule (C06) *)
Theorem C15_consulted : forall B K valid s, 0 < B -> reach B K valid s -> plocal s <= imax s + B.
Proof. intros B K valid s HB Hr. exact (proj1 (readahead B K HB valid s Hr)). Qed.
Print Assumptions C15_consulted.

Example C15_example : first_or (occ_fwd [7; 7]%Z 0%Z ([1; 2; 7; 7; 3]%Z ++ [7; 7; 7; 9]%Z)) = 2%Z.
Proof. vm_compute. reflexivity. Qed.

(* the searches as streaming computations (FindStream.v): kmpKernel.Visit driven one digit at a time and stopped
   once n matches have been reported returns exactly the first n occurrences, and the digits it has consumed end
   with the last digit of the n-th occurrence; asked for 0 matches it consumes nothing; with fewer than n
   occurrences it consumes the whole (finite) text.  With C15_consulted this is the bound of the statement. *)
Require Import FindStream.
Local Close Scope Z_scope.
Theorem C15_stops_at_nth_match : forall pat lo w n, 1 <= length pat ->
  exists c, stream_find pat lo w n = Some (firstn n (occ_fwd pat lo w), c) /\
    c <= length w /\
    (n = 0 -> c = 0) /\
    (0 < n <= length (occ_fwd pat lo w) ->
       (lo + Z.of_nat c = nth (n - 1) (occ_fwd pat lo w) (-1) + Z.of_nat (length pat))%Z) /\
    (length (occ_fwd pat lo w) < n -> c = length w).
Proof. exact stream_find_spec. Qed.
Print Assumptions C15_stops_at_nth_match.

Example C15_stream_example :
  stream_find [7; 7]%Z 100%Z [1; 2; 7; 7; 3; 7; 7; 7; 9; 7; 7]%Z 2 = Some ([102; 105]%Z, 7).
Proof. vm_compute. reflexivity. Qed.

(* the three pieces together (SearchDemand.v): a forward search over the window starting at idx, fed by memoizer.Scan
   and stopped after its n-th match, reports the first n occurrences, and every index it makes the memoizer wait
   for is at most idx + c - the position just after the last digit of the n-th occurrence.  By C15_consulted the
   source has then been consulted for at most that position + B digits. *)
Require SearchDemand LayerC Demand.
Theorem C15_search_stops_at_answer : forall (D : nat -> option nat), (forall i, D i = None -> D (S i) = None) ->
  forall (W : nat -> nat -> nat * bool), (forall c i, LayerC.WaitOK D i (W c i)) ->
  forall pat (w : list Z) n cnt idx limit, 1 <= length pat ->
  exists c, stream_find pat (Z.of_nat idx) w n = Some (firstn n (occ_fwd pat (Z.of_nat idx) w), c) /\
    (forall x, In x (Demand.scan_demand W c cnt idx limit) -> x <= idx + c) /\
    (0 < n <= length (occ_fwd pat (Z.of_nat idx) w) ->
       Z.of_nat (idx + c) = (nth (n - 1) (occ_fwd pat (Z.of_nat idx) w) (-1) + Z.of_nat (length pat))%Z) /\
    (length (occ_fwd pat (Z.of_nat idx) w) < n -> c = length w).
Proof. exact SearchDemand.search_stops_at_answer. Qed.
Print Assumptions C15_search_stops_at_answer.
