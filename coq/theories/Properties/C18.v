(* C18 - the three shipped module versions agree wherever their APIs overlap.
   The models of compute.go (ctor), positions.go (build / run_hist), the formatter (format, string_of), the KMP
   search (find_model) and the printer's layout (sprint) are single functions used for all three versions: the
   per-version correspondence runs tie each version's code to the same function, so agreement on those parts is by
   construction of the development.  The places where the versions' code differs are covered by the theorems below. *)
From Coq Require Import ZArith List Lia Bool.
Require Import Views HistModel PrintModel PrintOps PrintOpsProof Versions.
Import ListNotations.

Theorem C18_print : forall o maxd shown,
  bytes_of (fprint_ops true o maxd shown) = bytes_of (fprint_ops false o maxd shown).
Proof. exact print_versions_agree. Qed.
Print Assumptions C18_print.

Theorem C18_histories_v1_v2 : forall d ops st, forallb common_op ops = true -> run_ops 1 d st ops = run_ops 2 d st ops.
Proof. exact histories_v1_v2. Qed.
Print Assumptions C18_histories_v1_v2.
