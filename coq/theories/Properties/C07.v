(* C07 - views compose as interval intersection over the parent's digits. *)
From Coq Require Import ZArith List Lia Bool.
Require Import Views ViewsChain HistModel.
Import ListNotations.
Open Scope Z_scope.

(* a chain of WithStart / WithEnd / FiniteWithStart / WithSignificant (any integer arguments) applied to a
   well-formed value yields a well-formed value whose positions are exactly those of the receiver that satisfy
   every start and every end of the chain *)
Theorem C07_interval : forall ops v v', wf v -> apply_chain v ops = Ok v' ->
  wf v' /\ forall p, in_view v' p <-> in_view v p /\ Forall (fun o => op_allows o p) ops.
Proof. exact chain_view. Qed.
Print Assumptions C07_interval.

Theorem C07_order_free : forall ops1 ops2 v v1 v2, wf v ->
  (forall o, In o ops1 <-> In o ops2) ->
  apply_chain v ops1 = Ok v1 -> apply_chain v ops2 = Ok v2 ->
  forall p, in_view v1 p <-> in_view v2 p.
Proof. exact chain_order_free. Qed.
Print Assumptions C07_order_free.

(* views are values: the methods are functions of the receiver, so parent and siblings are unaffected by
   construction of the model; that the code shares no mutable state between them is what the correspondence
   run checks (histories re-read parents and siblings after deriving children). *)

Theorem C07_significant_zero : forall sp e, sp <> SNil -> with_significant (FN sp e) 0 = Ok zero.
Proof. exact with_significant_zero. Qed.
Theorem C07_significant_keeps_exponent : forall sp e k v, 0 < k -> sp <> SNil ->
  with_significant (FN sp e) k = Ok v -> exists sp', v = FN sp' e /\ sp' <> SNil.
Proof. exact with_significant_keeps_exponent. Qed.
Print Assumptions C07_significant_keeps_exponent.

Example C07_example :
  run_history 3 0 [1; 4; 1; 4; 2; 1] [] 1 [HWE 0 5; HWS 1 2; HWS 0 2; HWE 3 5; HRUN 2 0 (-1); HRUN 4 2 (-1)]
  = [0; 1; 1; 1; 1; 0;  1; 1; 0; 0; 0; 0;  1; 1; 0; 0; 0; 0;  1; 1; 0; 0; 0; 0;
     3; 2; 1; 3; 4; 4; 2;   3; 4; 2; 3; 4; 2; 1].
Proof. vm_compute. reflexivity. Qed.

(* ---- the read paths through a view's numberSpec as coded (ViewReads.v): the nil / memoizer / limitSpec
   dispatch with the index and limit clamping of limitSpec.At / Scan / FirstN, against ANY wait oracle,
   delivers exactly the parent's digits below the view's limit ---- *)
Require ViewReads LayerC.
Local Close Scope Z_scope.
Theorem C07_view_at : forall (D : nat -> option nat), (forall i, D i = None -> D (S i) = None) ->
  forall (W : nat -> nat -> nat * bool), (forall c i, LayerC.WaitOK D i (W c i)) ->
  forall c sp p, ViewReads.view_at D W c sp p = ViewReads.Dview D sp p.
Proof. exact ViewReads.view_at_spec. Qed.
Theorem C07_view_scan : forall (D : nat -> option nat), (forall i, D i = None -> D (S i) = None) ->
  forall (W : nat -> nat -> nat * bool), (forall c i, LayerC.WaitOK D i (W c i)) ->
  forall big k c sp start, (forall q, q < start + k -> D q <> None -> q < big) ->
  (match sp with ViewReads.NLim l => l <= big | _ => True end) ->
  ViewReads.view_scan D W big k c sp start =
  ViewReads.view_listing D k sp (match sp with ViewReads.NLim l => Nat.min start l | _ => start end).
Proof. exact ViewReads.view_scan_spec. Qed.
Theorem C07_view_all_len : forall (D : nat -> option nat) (W : nat -> nat -> nat * bool),
  (forall c i, LayerC.WaitOK D i (W c i)) ->
  forall big c sp, (forall q, D q <> None -> q < big) ->
  let L := ViewReads.view_all_len W big c sp in
  (forall j, j < L -> ViewReads.Dview D sp j <> None) /\ ViewReads.Dview D sp L = None.
Proof. exact ViewReads.view_all_len_spec. Qed.
Print Assumptions C07_view_scan.
Print Assumptions C07_view_all_len.

(* backward traversal (mantissa.ReverseScan / ReverseTo over allDigits, stopped after k items) is the exact
   reverse of the complete forward traversal from the same start, for every wait oracle *)
Theorem C07_view_backward_is_reverse : forall (D : nat -> option nat), (forall i, D i = None -> D (S i) = None) ->
  forall (W : nat -> nat -> nat * bool), (forall c i, LayerC.WaitOK D i (W c i)) ->
  forall big k c sp start n, (forall q, D q <> None -> q < big) ->
  ViewReads.view_all_len W big c sp - start < n ->
  ViewReads.view_rev D W big k c sp start = firstn k (rev (ViewReads.view_listing D n sp start)).
Proof. exact ViewReads.view_rev_spec. Qed.
Print Assumptions C07_view_backward_is_reverse.
