(* C11 - Positions are a normalised set: sorted, disjoint, exact union.
   Only statements, `exact`, Print Assumptions and non-vacuity examples live here. *)
From Coq Require Import ZArith List Lia Bool.
Require Import Pos PosHist.
Import ListNotations.
Open Scope Z_scope.

(* Every Positions value built in any history of Add / AddRange / Build calls on one builder
   (builder reuse included) is in normal form and denotes exactly the union of what was added
   since the previous Build. *)
Theorem C11_history : forall ops,
  Forall2 built_ok (run_hist ops empty_builder) (segments ops []).
Proof. exact history_normal_form. Qed.
Print Assumptions C11_history.

(* normal = non-empty ranges, start >= 0, strictly increasing, disjoint and non-adjacent *)
Theorem C11_normal_union : forall cs,
  let b := fold_left apply_call cs empty_builder in
  normal (fst (build b)) /\ (forall p, mem p (fst (build b)) <-> mem p (added cs)) /\ snd (build b) = empty_builder.
Proof. exact positions_normal_form. Qed.
Print Assumptions C11_normal_union.

(* "added" in the property's words: the non-negative positions of every call; Add a for a < MaxInt *)
Theorem C11_union_words : forall cs,
  Forall (fun c => match c with CAdd a => min_int <= a < max_int | _ => True end) cs ->
  forall p, mem p (added cs) <-> exists c, In c cs /\ call_adds c p.
Proof. exact added_mem_iff. Qed.
Print Assumptions C11_union_words.

Theorem C11_end : forall ps, normal ps ->
  (ps = [] -> end_of ps = 0) /\
  (ps <> [] -> mem (end_of ps - 1) ps /\ forall p, mem p ps -> p < end_of ps).
Proof. exact end_of_spec. Qed.
Print Assumptions C11_end.

Theorem C11_upto_between : forall s e,
  between s e = match clamp s e with Some r => [r] | None => [] end.
Proof. exact between_spec. Qed.
Print Assumptions C11_upto_between.

Theorem C11_reset : forall b, snd (build b) = empty_builder.
Proof. exact build_resets. Qed.
Print Assumptions C11_reset.

Theorem C11_checker_sound : forall cs ps, c11_check cs ps = true -> built_ok ps cs.
Proof. exact c11_check_sound. Qed.
Print Assumptions C11_checker_sound.

(* Known finding (DESIGN 9.3): Add(MaxInt) is dropped because posit+1 wraps. The full statement
   "union = non-negative positions added" is refuted for a = MaxInt by this witness. *)
Theorem C11_add_maxint_refuted :
  exists cs, cs = [CAdd max_int] /\ fst (build (fold_left apply_call cs empty_builder)) = [].
Proof. exists [CAdd max_int]. split; [reflexivity|vm_compute; reflexivity]. Qed.
Print Assumptions C11_add_maxint_refuted.

(* non-vacuity: a history with reuse, out-of-order, overlapping, adjacent, negative and empty arguments *)
Example C11_example :
  run_hist [HAddRange 5 9; HAdd 3; HAddRange (-4) 2; HAdd 9; HAddRange 7 7; HBuild; HAdd 1; HBuild; HBuild] empty_builder
  = [[(0, 2); (3, 4); (5, 10)]; [(1, 2)]; []].
Proof. vm_compute. reflexivity. Qed.
