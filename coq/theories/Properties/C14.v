(* C14 - no aliasing: caller data is neither modified nor retained live. *)
From Coq Require Import ZArith List Lia Bool.
Require Import RunList Compute FindModel Heap.
Import ListNotations.

(* no library operation writes to caller-owned locations *)
Theorem C14_args_untouched : forall st o, is_mutate o = false -> fst (fst (exec_op st o)) = fst st.
Proof. exact args_untouched. Qed.
Print Assumptions C14_args_untouched.

(* for every heap, every set of already constructed values, every caller mutation (any location, any replacement
   value) and every later sequence of reads, searches and further mutations: the answers are those of the history
   without the mutation *)
Theorem C14_no_retention : forall h vs l c ops,
  (forall o, In o ops -> match o with OConstruct _ _ _ | OMatcher _ _ _ => False | _ => True end) ->
  exec (h, vs) (OMutate l c :: ops) = ANone :: exec (h, vs) ops.
Proof. exact no_retention. Qed.
Print Assumptions C14_no_retention.
