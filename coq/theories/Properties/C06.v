(* C06 - digits are computed lazily, in order, once per Number, with bounded read-ahead.
   Conc.v: the memoizer as a transition system (one producer, any number of readers, any interleaving);
   plocal s = number of digits obtained from the source so far, imax s = largest index any wait call has carried. *)
From Coq Require Import Arith List Lia Bool ZArith.
Require Import Conc ConcTrace SrcParams SrcParamsOK LayerC Demand.
Import ListNotations.
Local Close Scope Z_scope.

(* bounded read-ahead, for every reachable state of every schedule: the source has been consulted for at most
   imax + B positions, and for none at all before the first wait call raises the demand (construction, deriving
   views and creating v3 iterators issue no wait call) *)
Theorem C06_readahead : forall B K valid s, 0 < B -> reach B K valid s ->
  plocal s <= imax s + B /\ (maxlen s = 0 -> plocal s = 0).
Proof. intros B K valid s HB. exact (readahead B K HB valid s). Qed.
Print Assumptions C06_readahead.

(* with the block size of the sources (Generated/SrcParams.v), B <= 1000: at most i + 1000 digits, plus the one
   call that sees the end marker *)
Theorem C06_block_size_ok : (0 < chunk_v1 <= 1000 /\ 0 < chunk_v2 <= 1000 /\ 0 < chunk_v3 <= 1000)%Z.
Proof. exact (conj chunk_bound_v1 (conj chunk_bound_v2 chunk_bound_v3)). Qed.

(* the source is consulted strictly in position order, each position once: along any trace plocal grows by exactly
   the number of successful source calls, and each call consults position plocal *)
Theorem C06_in_order : forall B K, 0 < B -> forall valid s tr s', steps B K valid s tr s' -> plocal s' = plocal s + iters tr.
Proof. exact calls_in_order. Qed.
Print Assumptions C06_in_order.

(* only the producer consults the source, one call at a time (a call is one atomic step of the producer in its
   compute loop, holding no lock and touching no shared field) *)
Theorem C06_only_producer : forall B K valid s ok s', step B K valid s (LIter ok) s' ->
  (exists i j, ppc s = PComp i j /\ j < B) /\ ok = valid (plocal s) /\
  plocal s' = (if ok then S (plocal s) else plocal s) /\ lock s' = lock s /\ rpc s' = rpc s.
Proof. exact iter_step. Qed.

(* never again after the source has signalled the end *)
Theorem C06_never_after_end : forall B K valid s s1 tr s', step B K valid s (LIter false) s1 -> steps B K valid s1 tr s' ->
  iters tr = 0 /\ Forall (fun l => forall ok, l <> LIter ok) tr.
Proof.
  intros B K valid s s1 tr s' H1 H2. apply (no_call_after_end B K valid s1 tr s'); auto.
  apply (end_marker_ends B K valid s s1 H1).
Qed.
Print Assumptions C06_never_after_end.

(* demand side: the read paths never wait for an index beyond the position they are about to deliver.
   Scan / ScanValues (All, Values, Matches...) stopped after k items: every waited index is the start or at most
   start + (items delivered), and never beyond the limit; a pull of the v1/v2 iterator waits only for the position
   after the one it delivers; At(i) waits for i. With C06_readahead this bounds the digits consulted by
   (highest position delivered or asked about) + 1 + B. *)
Theorem C06_demand_scan : forall (D : nat -> option nat) (W : nat -> nat -> nat * bool) k c idx limit x,
  In x (scan_demand W k c idx limit) ->
  x = idx \/ (idx < x <= idx + length (scan D W k c idx limit) /\ x <= limit).
Proof. exact scan_demand_bound. Qed.
Print Assumptions C06_demand_scan.

Theorem C06_demand_pull : forall s x, In x (it_next_demand s) -> x = S (i_idx s) /\ i_ok s = true.
Proof. exact it_next_demand_bound. Qed.

(* the bound as the property states it: when no wait call has carried an index beyond the position after the
   highest delivered one (i + 1: C06_demand_scan, C06_demand_pull; At(i) carries i), at most i + 1 + 1000 digits
   have been obtained from the source, for every block size up to 1000, every schedule and every number of readers *)
Theorem C06_bound : forall B K valid s i, 0 < B <= 1000 -> reach B K valid s -> imax s <= i + 1 ->
  plocal s <= i + 1 + 1000.
Proof. exact readahead_bound. Qed.
Print Assumptions C06_bound.

(* through a view (ViewDemand.v): a forward traversal of any view stopped after k items waits for nothing beyond
   its (clamped) start + k, and never beyond the view's limit *)
Require ViewReads ViewDemand.
Theorem C06_demand_view_scan : forall (D : nat -> option nat), (forall i, D i = None -> D (S i) = None) ->
  forall (W : nat -> nat -> nat * bool), (forall c i, WaitOK D i (W c i)) ->
  forall big k c sp start x, In x (ViewDemand.view_scan_demand W big k c sp start) ->
  x <= (match sp with ViewReads.NLim l => Nat.min start l | _ => start end) + k /\
  (match sp with ViewReads.NLim l => x <= l | _ => True end).
Proof. exact ViewDemand.view_scan_demand_bound. Qed.
Print Assumptions C06_demand_view_scan.
