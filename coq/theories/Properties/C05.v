(* C05 - concurrent use is safe: sequential answers, no data race, no lost wake-up.
   Conc.v: numberspec.go as a labelled transition system whose steps are the sync events of the code (Lock,
   Unlock, Cond.Wait = park, re-lock after wake-up, Signal, Broadcast), one producer and ANY number of readers
   each issuing ANY sequence of wait(index) calls, every interleaving. *)
From Coq Require Import Arith List Lia Bool.
Require Import Conc ConcExec LayerC.
Import ListNotations.

(* lock discipline and parked invariants hold in every reachable state:
   - the mutex is held exactly by the thread at a lock-holding program point (all accesses to data / maxLength /
     done are made inside those points: the model performs them in the steps of the holder only);
   - a parked producer has no unmet demand (maxlen <= dlen) and a parked reader's wake-up condition is false
     (not done, dlen <= x) while its demand is registered: nobody sleeps through its wake-up *)
Theorem C05_invariant : forall B K valid s, 0 < B -> reach B K valid s -> Inv B K s.
Proof. intros B K valid s HB. exact (reach_inv B K HB valid s). Qed.
Print Assumptions C05_invariant.

(* every return of wait(x) satisfies the wait contract: the returned slice is the published prefix, ok iff x is
   inside it, and not ok only when the sequence is complete - so Layer C (C04) applies to every interleaving *)
Theorem C05_return_contract : forall B K valid s t x len ok s', 0 < B ->
  reach B K valid s -> step B K valid s (LReturn t x len ok) s' ->
  len = dlen s /\ (ok = true <-> x < len) /\ (ok = false -> done s = true).
Proof. intros B K valid s t x len ok s' HB. exact (return_contract B K HB valid s t x len ok s'). Qed.
Print Assumptions C05_return_contract.

(* no deadlock: whenever some reader is inside a call, some thread can take a step *)
Theorem C05_deadlock_free : forall B K valid s, 0 < B -> reach B K valid s ->
  (exists t, rpc s t <> RIdle) -> can_move B K valid s.
Proof. intros B K valid s HB. exact (deadlock_free B K HB valid s). Qed.
Print Assumptions C05_deadlock_free.

(* no livelock / lost wake-up: from every reachable state every pending call can still complete (a
   lexicographic measure decreases along the helpful steps) *)
Theorem C05_can_complete : forall B K valid t s, 0 < B -> reach B K valid s ->
  exists s', isteps B K valid s s' /\ reach B K valid s' /\ rpc s' t = RIdle.
Proof. intros B K valid t s HB. exact (can_complete B K HB valid t s). Qed.
Print Assumptions C05_can_complete.

(* the executable acceptor used for trace validation only accepts steps of the transition system *)
Theorem C05_acceptor_sound : forall B K valid s l s', exec_step B K valid s l = Some s' -> step B K valid s l s'.
Proof. exact exec_step_sound. Qed.
Print Assumptions C05_acceptor_sound.

(* sequential answers: with the contract above, At returns D[i] whatever the oracle (interleaving) *)
Theorem C05_sequential_answers : forall (D : nat -> option nat), (forall i, D i = None -> D (S i) = None) ->
  forall (W : nat -> nat -> nat * bool), (forall c i, WaitOK D i (W c i)) -> forall c i, at_ D W c i = D i.
Proof. exact at_spec. Qed.

(* ---- every schedule, not only a helpful one (ConcTerm.v) ----
   Between calls nothing can spin: from a reachable state whose pending calls belong to readers below n, every
   schedule of k internal steps satisfies k + G(end) <= G(start) for the explicit measure G, so all schedules are
   finite; and a schedule that cannot be extended has returned every pending call.  No fairness assumption. *)
Require ConcTerm.
Theorem C05_reach_support : forall B K valid s, 0 < B -> reach B K valid s -> exists n, ConcTerm.support s n.
Proof. intros B K valid s HB. exact (ConcTerm.reach_support B K HB valid s). Qed.
Theorem C05_internal_runs_bounded : forall B K valid k s s' n, 0 < B -> reach B K valid s -> ConcTerm.support s n ->
  ConcTerm.isteps_n B K valid k s s' ->
  reach B K valid s' /\ ConcTerm.support s' n /\ k + ConcTerm.G B K n s' <= ConcTerm.G B K n s.
Proof. intros B K valid k s s' n HB. exact (ConcTerm.internal_runs_bounded B K HB valid k s s' n). Qed.
Print Assumptions C05_internal_runs_bounded.
Theorem C05_maximal_schedules_return_every_call : forall B K valid k s s' n, 0 < B -> reach B K valid s ->
  ConcTerm.support s n -> ConcTerm.isteps_n B K valid k s s' ->
  (forall l s'', step B K valid s' l s'' -> is_call l = true) -> forall t, rpc s' t = RIdle.
Proof. intros B K valid k s s' n HB. exact (ConcTerm.stuck_means_all_returned B K HB valid k s s' n). Qed.
Print Assumptions C05_maximal_schedules_return_every_call.

(* ---- the link to Layer C (ConcContract.v): every return of every schedule is an answer the wait contract
   allows, for the digit string "position j exists iff source calls 0..j all returned digits" - so the clients of
   LayerC / LayerC2 / ViewReads (At, Scan, iterators, FirstN, views), proved against every WaitOK oracle, are proved
   for the memoizer under every interleaving ---- *)
Require ConcContract.
Theorem C05_wait_contract : forall B K valid s t x len ok s', 0 < B -> reach B K valid s ->
  step B K valid s (LReturn t x len ok) s' -> WaitOK (ConcContract.Dv B K valid) x (len, ok).
Proof. intros B K valid s t x len ok s' HB. exact (ConcContract.return_is_WaitOK B K HB valid s t x len ok s'). Qed.
Print Assumptions C05_wait_contract.
Theorem C05_digit_string_closed : forall B K valid i, 0 < B -> ConcContract.Dv B K valid i = None -> ConcContract.Dv B K valid (S i) = None.
Proof. intros B K valid i HB. exact (ConcContract.Dv_closed B K HB valid i). Qed.
