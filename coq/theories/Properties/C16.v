(* C16 - panics occur only for documented preconditions, at the call site. *)
From Coq Require Import ZArith List Lia Bool Arith.
Require Import RunList Compute ComputeProof Views ApiSpec KmpModel KmpProof FindModel Conc ConcTrace.
Import ListNotations.
Open Scope Z_scope.

(* the root / rational constructors panic exactly for a negative numerator or a non-positive denominator, and they
   do so in the caller before any goroutine is started (ctor decides before it builds the digit stream) *)
Theorem C16_ctor_int : forall k a n, ctor k a 1 n = RPanic <-> api_panics 1 a 0 = true.
Proof. exact api_ctor_int. Qed.
Theorem C16_ctor_rat : forall k a b n, ctor k a b n = RPanic <-> api_panics 2 a b = true.
Proof. exact api_ctor_rat. Qed.
Print Assumptions C16_ctor_rat.

(* on valid arguments the digit computation never fails (no fuel exhausted, no division by a non-positive number):
   the producer goroutine, which only runs this computation, cannot panic *)
Theorem C16_producer_total : forall k num den n, 0 < num -> 0 < den ->
  exists e ds ended, ctor k num den n = RNum e ds ended.
Proof. intros k num den n Hn Hd. destruct (ctor_total k num den n Hn Hd) as (e & ds & en & H & _). eauto. Qed.
Print Assumptions C16_producer_total.

Theorem C16_with_significant : forall sp e k, with_significant (FN sp e) k = Panic <-> api_panics 4 k 0 = true.
Proof. exact api_with_significant. Qed.

(* the search automaton never indexes out of range (model result is Some for every pattern, text, entry point) *)
Theorem C16_search_total : forall fn n pat lo w, exists res, find_model fn n pat lo w = Some res.
Proof. intros. eexists. apply find_model_spec. Qed.
Print Assumptions C16_search_total.

(* view operations other than WithSignificant never panic (the model's functions are total) and well-formedness is kept *)
Theorem C16_views_total : forall v s e, wf v -> wf (with_start v s) /\ wf (with_end v e).
Proof. intros v s e H. split; [apply (with_start_view v s H)|apply (with_end_view v e H)]. Qed.
