(* C12 - printing to a failing writer reports exact byte counts and a clean prefix. *)
From Coq Require Import ZArith List Lia Bool.
Require Import Views HistModel PrnModel PrintModel Bufio PrintOps PrintOpsProof BufioTerm.
Import ListNotations.
Open Scope Z_scope.

(* The bufio operations issued by Fprint / Fwrite (v3 flag: row starters; otherwise the v1/v2 literals) carry
   exactly the UTF-8 bytes of the fault-free text (which C10 proves to be the canonical layout). *)
Theorem C12_ops_bytes : forall v3 o maxd shown,
  bytes_of (fprint_ops v3 o maxd shown) = utf8_all (sprint_points o maxd shown).
Proof. exact fprint_ops_bytes. Qed.
Print Assumptions C12_ops_bytes.

(* For EVERY underlying writer (wstep: any function of its own state and the bytes offered, so every failure
   point, error with partial write, short write without error, error followed by recovery, ...), every buffer
   size >= 1 and every layout: after the call (operations until one reports an error, then Flush)
     - the accepted bytes are a prefix of the fault-free output, and the returned count is their number
       (run_fprint returns length (acc sF));
     - no call reaches the writer after an error has been latched (recovery is never observed);
     - no error reported  => everything was delivered;   error reported => some call faulted. *)
Theorem C12_count_prefix_latch : forall (wst : Type) (wstep : wst -> list Z -> nat * bool * wst) (size : nat) (w0 : wst)
        fuel v3 o maxd shown s1 rem issued,
  (0 < size)%nat ->
  let ops := map fst (fprint_ops v3 o maxd shown) in
  exec wst wstep size fuel (mk wst [] [] false w0 0 0 0) ops 0 = Some (s1, rem, issued) ->
  let sF := flush wst wstep s1 in
  let T := utf8_all (sprint_points o maxd shown) in
  (exists rest, T = acc wst sF ++ rest) /\
  after_err wst sF = 0%nat /\
  (berr wst sF = false -> acc wst sF = T /\ issued = length ops) /\
  (berr wst sF = true -> (0 < nfault wst sF)%nat).
Proof. exact fprint_faults. Qed.
Print Assumptions C12_count_prefix_latch.

(* Fprint / Fwrite return: for every underlying writer that, on a non-empty Write, accepts at least one byte or
   reports an error (only writers answering (0, nil) are excluded: on those bufio.Writer.Write itself never returns),
   every buffer size >= 1 and every operation sequence, the model needs at most 2*|bytes|+2 units of fuel per
   operation - no operation loops, and (with the repaired gap loop) neither does the call *)
Theorem C12_returns : forall (wst : Type) (wstep : wst -> list Z -> nat * bool * wst) (size : nat),
  (0 < size)%nat ->
  (forall w p, p <> [] -> let '(n, e, _) := wstep w p in (0 < n)%nat \/ e = true) ->
  forall fuel ops (s : bst wst) issued,
  Forall (fun o => (2 * length (op_bytes o) + 2 <= fuel)%nat) ops ->
  exists r, exec wst wstep size fuel s ops issued = Some r.
Proof. exact exec_terminates. Qed.
Print Assumptions C12_returns.

(* in particular for the property's writer class (k more bytes, then error / short write / recovery) *)
Theorem C12_returns_fault_writers : forall size w0 ops fuel, (0 < size)%nat ->
  Forall (fun o => (2 * length (op_bytes (fst o)) + 2 <= fuel)%nat) ops ->
  exists r, run_fprint fuel size w0 ops = Some r.
Proof. exact fprint_returns. Qed.

(* The gap loop of printer.Consume as pinned (`for p.index < posit { rawPrinter.Consume(missing) }`) does not
   terminate once an error is latched inside a gap: rawPrinter.Consume returns without advancing index.
   Model of that loop with fuel: out of fuel for every fuel when err is set and index < posit. *)
Fixpoint gap_loop_pinned (fuel : nat) (err : bool) (index posit : Z) : option Z :=
  if index <? posit then
    match fuel with
    | O => None
    | S f => gap_loop_pinned f err (if err then index else index + 1) posit
    end
  else Some index.

Theorem C12_returns_refuted_pinned : forall fuel index posit, index < posit ->
  gap_loop_pinned fuel true index posit = None.
Proof.
  induction fuel as [|f IH]; intros index posit H; cbn [gap_loop_pinned]; destruct (Z.ltb_spec index posit); try lia; auto.
Qed.

(* the repaired loop (`for p.index < posit && p.CanConsume()`) returns at once *)
Definition gap_loop_fixed (fuel : nat) (err : bool) (index posit : Z) : option Z :=
  if err then Some index else gap_loop_pinned fuel false index posit.
Theorem C12_gap_loop_fixed_returns : forall index posit, index <= posit ->
  gap_loop_fixed (Z.to_nat (posit - index)) true index posit = Some index /\
  gap_loop_fixed (Z.to_nat (posit - index)) false index posit = Some posit.
Proof.
  intros index posit H. split; [reflexivity|]. unfold gap_loop_fixed.
  remember (Z.to_nat (posit - index)) as n eqn:En. revert index H En.
  induction n as [|n IH]; intros index H En; cbn [gap_loop_pinned].
  - destruct (Z.ltb_spec index posit); [lia|f_equal; lia].
  - destruct (Z.ltb_spec index posit); [|lia]. apply IH; lia.
Qed.
Print Assumptions C12_gap_loop_fixed_returns.

(* non-vacuity: 2 shown digits with a gap, buffer of 1, writer failing after 6 bytes with a partial write *)
Example C12_example :
  match run_fprint 1000 1 (mkFw 6 0 false) (fprint_ops true (mkO 10 5 false 46 true false) 9 [(0, 1); (8, 4)]) with
  | Some r => (pr_n r, pr_err r, pr_acc r)
  | None => (-1, false, [])
  end = (6, true, [48; 46; 49; 46; 46; 46]).
Proof. vm_compute. reflexivity. Qed.
