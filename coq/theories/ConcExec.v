(* Executable acceptor for traces of the memoizer's transition system (Conc.v), used to validate event traces
   recorded from the real numberspec.go under the deterministic scheduler.  exec_step is sound for Conc.step. *)
From Coq Require Import Arith List Lia Bool.
Require Import Conc.
Import ListNotations.

Section Exec.
Variable B K : nat.
Variable valid : nat -> bool.

Notation st := Conc.st.
Notation newmax := (Conc.newmax B K).

Definition is_none {A} (o : option A) : bool := match o with None => true | _ => false end.

Definition exec_step (s : st) (l : label) : option st :=
  match l with
  | LLock P =>
    if negb (is_none (lock s)) then None else
    match ppc s with
    | PTop i => if i <? K then Some (mk (Some P) (dlen s) (done s) (maxlen s) (PWtg i) (plocal s) (rpc s) (imax s)) else None
    | PPubWant f i => Some (mk (Some P) (dlen s) (done s) (maxlen s) (PPub f i) (plocal s) (rpc s) (imax s))
    | _ => None
    end
  | LTau P =>
    match ppc s with
    | PTop i => if i =? K then Some (mk (lock s) (dlen s) (done s) (maxlen s) (PPubWant true K) (plocal s) (rpc s) (imax s)) else None
    | PComp i j => if j =? B then Some (mk (lock s) (dlen s) (done s) (maxlen s) (PPubWant false i) (plocal s) (rpc s) (imax s)) else None
    | _ => None
    end
  | LPark P =>
    match ppc s with
    | PWtg i => if maxlen s <=? dlen s then Some (mk None (dlen s) (done s) (maxlen s) (PParked i) (plocal s) (rpc s) (imax s)) else None
    | _ => None
    end
  | LUnlock P =>
    match ppc s with
    | PWtg i => if dlen s <? maxlen s then Some (mk None (dlen s) (done s) (maxlen s) (PComp i 0) (plocal s) (rpc s) (imax s)) else None
    | PPubU f i => Some (mk None (dlen s) (done s) (maxlen s) (if f then PExit else PTop (S i)) (plocal s) (rpc s) (imax s))
    | _ => None
    end
  | LResume P =>
    match ppc s with
    | PWoken i => if is_none (lock s) then Some (mk (Some P) (dlen s) (done s) (maxlen s) (PWtg i) (plocal s) (rpc s) (imax s)) else None
    | _ => None
    end
  | LIter ok =>
    match ppc s with
    | PComp i j =>
      if (j <? B) && Bool.eqb (valid (plocal s)) ok then
        if ok then Some (mk (lock s) (dlen s) (done s) (maxlen s) (PComp i (S j)) (S (plocal s)) (rpc s) (imax s))
        else Some (mk (lock s) (dlen s) (done s) (maxlen s) (PPubWant true i) (plocal s) (rpc s) (imax s))
      else None
    | _ => None
    end
  | LBroadcast =>
    match ppc s with
    | PPub f i => Some (mk (lock s) (plocal s) f (maxlen s) (PPubU f i) (plocal s) (wake_all (rpc s)) (imax s))
    | _ => None
    end
  | LCall t x =>
    match rpc s t with
    | RIdle => Some (mk (lock s) (dlen s) (done s) (maxlen s) (ppc s) (plocal s) (upd (rpc s) t (RWant x)) (Nat.max (imax s) x))
    | _ => None
    end
  | LLock (R t) =>
    match rpc s t with
    | RWant x => if is_none (lock s) then Some (mk (Some (R t)) (dlen s) (done s) (maxlen s) (ppc s) (plocal s) (upd (rpc s) t (RLocked x)) (imax s)) else None
    | _ => None
    end
  | LSignal t =>
    match rpc s t with
    | RLocked x =>
      if negb (done s) && (maxlen s <=? x)
      then Some (mk (lock s) (dlen s) (done s) (newmax x) (wake_p (ppc s)) (plocal s) (upd (rpc s) t (RLoop x)) (imax s))
      else None
    | _ => None
    end
  | LTau (R t) =>
    match rpc s t with
    | RLocked x =>
      if done s || (x <? maxlen s)
      then Some (mk (lock s) (dlen s) (done s) (maxlen s) (ppc s) (plocal s) (upd (rpc s) t (RLoop x)) (imax s))
      else None
    | _ => None
    end
  | LPark (R t) =>
    match rpc s t with
    | RLoop x =>
      if negb (done s) && (dlen s <=? x)
      then Some (mk None (dlen s) (done s) (maxlen s) (ppc s) (plocal s) (upd (rpc s) t (RParked x)) (imax s))
      else None
    | _ => None
    end
  | LReturn t x len ok =>
    match rpc s t with
    | RLoop x' =>
      if (x' =? x) && (done s || (x <? dlen s)) && (len =? dlen s) && Bool.eqb ok (x <? dlen s)
      then Some (mk None (dlen s) (done s) (maxlen s) (ppc s) (plocal s) (upd (rpc s) t RIdle) (imax s))
      else None
    | _ => None
    end
  | LResume (R t) =>
    match rpc s t with
    | RWoken x => if is_none (lock s) then Some (mk (Some (R t)) (dlen s) (done s) (maxlen s) (ppc s) (plocal s) (upd (rpc s) t (RLoop x)) (imax s)) else None
    | _ => None
    end
  | LUnlock (R _) => None        (* a reader's Unlock is part of LReturn *)
  end.

Lemma is_none_true {A} (o : option A) : is_none o = true -> o = None.
Proof. destruct o; [discriminate|reflexivity]. Qed.

Theorem exec_step_sound s l s' : exec_step s l = Some s' -> Conc.step B K valid s l s'.
Proof.
  unfold exec_step. intros H.
  destruct l as [t x|a|a|a|a|t| |ok|a|t x len ok].
  - (* LCall *) destruct (rpc s t) eqn:E; try discriminate. inversion H; subst. now apply s_rcall.
  - (* LLock *) destruct a as [|t].
    + destruct (lock s) eqn:El; cbn [negb andb orb is_none] in H; [discriminate|].
      destruct (ppc s) eqn:E; try discriminate.
      * destruct (Nat.ltb_spec i K); cbn [negb andb orb is_none] in H; [|discriminate]. inversion H; subst. now apply s_ptop.
      * inversion H; subst. now apply s_ppubwant.
    + destruct (rpc s t) eqn:E; try discriminate. destruct (is_none (lock s)) eqn:El; [|discriminate].
      apply is_none_true in El. inversion H; subst. now apply s_rwant.
  - (* LUnlock *) destruct a as [|t]; [|discriminate].
    destruct (ppc s) eqn:E; try discriminate.
    + destruct (Nat.ltb_spec (dlen s) (maxlen s)); cbn [negb andb orb is_none] in H; [|discriminate]. inversion H; subst. now apply s_pwtg_go.
    + inversion H; subst. now apply s_ppubu.
  - (* LPark *) destruct a as [|t].
    + destruct (ppc s) eqn:E; try discriminate. destruct (Nat.leb_spec (maxlen s) (dlen s)); cbn [negb andb orb is_none] in H; [|discriminate].
      inversion H; subst. now apply s_pwtg_park.
    + destruct (rpc s t) eqn:E; try discriminate.
      destruct (negb (done s) && (dlen s <=? x)) eqn:Ec; [|discriminate]. apply andb_prop in Ec. destruct Ec as (Ec1 & Ec2).
      apply negb_true_iff in Ec1. apply Nat.leb_le in Ec2. inversion H; subst. now apply s_rloop_park.
  - (* LResume *) destruct a as [|t].
    + destruct (ppc s) eqn:E; try discriminate. destruct (is_none (lock s)) eqn:El; [|discriminate].
      apply is_none_true in El. inversion H; subst. now apply s_pwoken.
    + destruct (rpc s t) eqn:E; try discriminate. destruct (is_none (lock s)) eqn:El; [|discriminate].
      apply is_none_true in El. inversion H; subst. now apply s_rwoken.
  - (* LSignal *) destruct (rpc s t) eqn:E; try discriminate.
    destruct (negb (done s) && (maxlen s <=? x)) eqn:Ec; [|discriminate]. apply andb_prop in Ec. destruct Ec as (Ec1 & Ec2).
    apply negb_true_iff in Ec1. apply Nat.leb_le in Ec2. inversion H; subst. now apply s_rlocked_raise.
  - (* LBroadcast *) destruct (ppc s) eqn:E; try discriminate. inversion H; subst. now apply s_ppub.
  - (* LIter *) destruct (ppc s) eqn:E; try discriminate.
    destruct (Nat.ltb_spec j B); cbn [negb andb orb is_none] in H; [|discriminate].
    destruct (Bool.eqb (valid (plocal s)) ok) eqn:Ev; [|discriminate]. apply Bool.eqb_prop in Ev.
    destruct ok; inversion H; subst.
    + now apply s_pcomp_ok.
    + now apply (s_pcomp_end B K valid i j).
  - (* LTau *) destruct a as [|t].
    + destruct (ppc s) eqn:E; try discriminate.
      * destruct (Nat.eqb_spec i K); cbn [negb andb orb is_none] in H; [|discriminate]. subst i. inversion H; subst. now apply s_ptop_end.
      * destruct (Nat.eqb_spec j B); cbn [negb andb orb is_none] in H; [|discriminate]. subst j. inversion H; subst. now apply s_pcomp_full.
    + destruct (rpc s t) eqn:E; try discriminate.
      destruct (done s || (x <? maxlen s)) eqn:Ec; [|discriminate].
      inversion H; subst. apply s_rlocked_skip; auto.
      apply orb_prop in Ec. destruct Ec as [Ec|Ec]; [left; exact Ec|right; now apply Nat.ltb_lt].
  - (* LReturn *) destruct (rpc s t) eqn:E; try discriminate.
    destruct (Nat.eqb_spec x0 x); cbn [negb andb orb is_none] in H; [subst x0|discriminate].
    destruct (done s || (x <? dlen s)) eqn:Ec; cbn [negb andb orb is_none] in H; [|discriminate].
    destruct (Nat.eqb_spec len (dlen s)); cbn [negb andb orb is_none] in H; [subst len|discriminate].
    destruct (Bool.eqb ok (x <? dlen s)) eqn:Eo; [|discriminate]. apply Bool.eqb_prop in Eo. subst ok.
    inversion H; subst. apply s_rloop_ret; auto.
    apply orb_prop in Ec. destruct Ec as [Ec|Ec]; [left; exact Ec|right; now apply Nat.ltb_lt].
Qed.

(* accept a whole trace from a state *)
Fixpoint exec_trace (s : st) (tr : list label) : option st :=
  match tr with
  | [] => Some s
  | l :: r => match exec_step s l with Some s' => exec_trace s' r | None => None end
  end.

Theorem exec_trace_reach s tr s' : reach B K valid s -> exec_trace s tr = Some s' -> reach B K valid s'.
Proof.
  revert s. induction tr as [|l r IH]; intros s Hr H; cbn [exec_trace] in H.
  - inversion H; subst. exact Hr.
  - destruct (exec_step s l) as [s1|] eqn:E; [|discriminate].
    apply (IH s1); auto. econstructor; eauto. apply exec_step_sound. exact E.
Qed.
End Exec.

(* accessors with names of their own for the extracted validator *)
Definition conc_dlen (s : Conc.st) : nat := dlen s.
Definition conc_init : Conc.st := Conc.init.
