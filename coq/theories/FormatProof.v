(* C08: consequences of Fmt.v for the top-level Format model. *)
From Coq Require Import ZArith List Lia Bool.
Require Import RunList Compute Views HistModel Fmt PrintModel FormatModel.
Import ListNotations.
Open Scope Z_scope.

Lemma spaces_length n : Z.of_nat (length (spaces n)) = Z.max 0 n.
Proof. unfold spaces. rewrite repeat_length. lia. Qed.

(* padding never truncates: the field has max(width, |text|) characters, spaces on the left, or on the right with '-' *)
Theorem pad_field_spec width minus t :
  exists pad, (forall c, In c pad -> c = 32) /\
    pad_field width minus t = (if minus then t ++ pad else pad ++ t) /\
    Z.of_nat (length pad) = match width with Some w => Z.max 0 (w - Z.of_nat (length t)) | None => 0 end.
Proof.
  unfold pad_field. destruct width as [w|].
  - exists (spaces (w - Z.of_nat (length t))). split; [|split].
    + intros c Hc. unfold spaces in Hc. apply repeat_spec in Hc. exact Hc.
    + destruct minus; reflexivity.
    + apply spaces_length.
  - exists []. split; [intros c []|]. split; [destruct minus; [now rewrite app_nil_r|reflexivity]|reflexivity].
Qed.

(* the exponent rule of %g *)
Theorem g_rule verb prec e f : is_verb verb [103; 71; 118] = true -> is_verb verb [102; 70] = false ->
  new_format_spec verb prec e = Some f ->
  let p := match prec with Some p => p | None => 16 end in
  let P := if p =? 0 then 1 else p in
  fs_sig f = P /\ fs_exact f = false /\ (fs_sci f = true <-> (P < e \/ e < -3 \/ 6 < e)).
Proof.
  intros Hg Hf H. unfold new_format_spec in H. rewrite Hf, Hg in H. inversion H; subst. cbn [fs_sig fs_exact fs_sci].
  split; [reflexivity|]. split; [reflexivity|]. unfold big_exponent.
  rewrite !orb_true_iff, !Z.ltb_lt. tauto.
Qed.

(* any other verb: %!verb(number=<String()>) *)
Theorem bad_verb d v verb prec width minus : new_format_spec verb prec (exponent_of v) = None ->
  format d v verb prec width minus = [37; 33] ++ [fix_rune verb] ++ [40; 110; 117; 109; 98; 101; 114; 61] ++ string_of d v ++ [41].
Proof. intros H. unfold format. rewrite H. reflexivity. Qed.

(* String() is Format %g with the default precision *)
Theorem string_is_g d v : string_of d v = format d v 103 None None false.
Proof.
  unfold format, string_of, new_format_spec. cbn [is_verb existsb Z.eqb Pos.eqb orb pad_field].
  set (e := exponent_of v). cbn [Z.eqb]. unfold big_exponent.
  destruct (Z.ltb_spec 16 e); [|reflexivity].
  destruct (Z.ltb_spec 6 e); [|lia]. rewrite orb_true_r. reflexivity.
Qed.

(* the scientific form: mantissa rendered with exponent 0 (so "0.ddd", C08_value with exp = 0), the exponent marker,
   and the exponent itself as a sign and at least two decimal digits denoting |e| *)
Require Import DecProof.
Theorem sci_form f d v e : fs_sci f = true -> - 10 ^ 80 < e < 10 ^ 80 ->
  exists ds, print_number f d v e =
             print_fixed (fs_sig f) 0 (fs_exact f) (digits_for d v (fs_sig f))
             ++ [if fs_capital f then 69 else 101] ++ (if e <? 0 then 45 else 43) :: ds /\
             (2 <= length ds)%nat /\ Forall (fun c => 48 <= c <= 57) ds /\ codes_value ds = Z.abs e.
Proof.
  intros Hs He. destruct (fmt_exp_spec e He) as (ds & E & Hl & Hd & Hv). exists ds.
  unfold print_number. rewrite Hs, E. auto.
Qed.
