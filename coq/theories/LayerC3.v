(* Composition of the v1/v2 pull-iterator wrappers (C04): limitSpec.IteratorAt over memoizer.IteratorAt, and
   fullIteratorAt (FullIterator, v2 Iterator) over either, against every wait oracle.  The wrappers of LayerC2.v are
   re-proved under a weaker hypothesis on the inner iterator - its invariant only has to survive pulls that deliver
   a digit - which is what makes them compose: after its first "end" a wrapper is never pulled again by the
   wrapper above it. *)
From Coq Require Import Arith List Lia Bool.
Require Import LayerC LayerC2.
Import ListNotations.

Section Weak.
(* an iterator over St delivering the digit function E consecutively, as long as digits are delivered *)
Definition WeakSpec (E : nat -> option nat) (St : Type) (next : nat -> St -> option nat * St)
           (pos : St -> nat) (Inv : St -> Prop) : Prop :=
  forall c s, Inv s -> let '(r, s') := next c s in r = E (pos s) /\ (r <> None -> Inv s' /\ pos s' = S (pos s)).

(* memoizer.IteratorAt *)
Lemma memo_weak (D : nat -> option nat) (D_closed : forall i, D i = None -> D (S i) = None)
      (W : nat -> nat -> nat * bool) (W_ok : forall c i, WaitOK D i (W c i)) :
  WeakSpec D it (it_next D W) i_idx (ItInv D).
Proof.
  intros c s Hi. pose proof (it_next_spec D D_closed W W_ok c s Hi) as H. destruct (it_next D W c s) as [r s'].
  destruct H as (Hr & Hi' & Hp). split; [exact Hr|]. intros Hn. split; [exact Hi'|]. destruct r; [exact Hp|congruence].
Qed.

Variable E : nat -> option nat.
Variable St : Type.
Variable next : nat -> St -> option nat * St.
Variable pos : St -> nat.
Variable Inv : St -> Prop.
Hypothesis inner : WeakSpec E St next pos Inv.

(* limitSpec.IteratorAt over it: state (own index, inner state) *)
Definition Elim (limit p : nat) : option nat := if p <? limit then E p else None.
Definition LimInv (limit : nat) (st : nat * St) : Prop := Inv (snd st) /\ pos (snd st) = fst st /\ fst st <= limit.

Lemma lim_weak limit : WeakSpec (Elim limit) (nat * St) (lim_next St next limit) fst (LimInv limit).
Proof.
  intros c [index s] (Hi & Hp & Hle). cbn [fst snd] in *. unfold lim_next, Elim.
  destruct (Nat.eqb_spec index limit) as [->|Hne].
  - rewrite Nat.ltb_irrefl. split; [reflexivity|]. intros H; congruence.
  - destruct (Nat.ltb_spec index limit); [|lia].
    pose proof (inner c s Hi) as H1. destruct (next c s) as [r s']. destruct H1 as (Hr & Hk).
    subst index. split; [exact Hr|]. intros Hn. destruct (Hk Hn) as (Hi' & Hp'). unfold LimInv. cbn [fst snd].
    split; [|reflexivity]. split; [exact Hi'|]. split; [exact Hp'|lia].
Qed.

(* fullIteratorAt over it: state (index, prefetched digit, inner state) *)
Definition FullInvW (st : nat * option nat * St) : Prop :=
  let '(index, dig, s) := st in dig = E index /\ (dig <> None -> Inv s /\ pos s = S index).

Lemma full_new_weak c s : Inv s -> FullInvW (full_new St next pos c s) /\ fst (fst (full_new St next pos c s)) = pos s.
Proof.
  intros Hi. unfold full_new. pose proof (inner c s Hi) as H. destruct (next c s) as [r s']. destruct H as (Hr & Hk).
  cbn. split; [|reflexivity]. split; [exact Hr|exact Hk].
Qed.

Theorem full_next_weak c st : FullInvW st ->
  let index := fst (fst st) in
  let '(r, st') := full_next St next c st in
  r = (match E index with Some d => Some (index, d) | None => None end) /\ FullInvW st' /\
  fst (fst st') = (if r then S index else index).
Proof.
  destruct st as [[index dig] s]. intros (Hd & Hk). cbn [fst]. unfold full_next. destruct dig as [d|].
  - rewrite <- Hd. destruct (Hk ltac:(discriminate)) as (Hi & Hp).
    pose proof (inner c s Hi) as H. destruct (next c s) as [r s']. destruct H as (Hr & Hk').
    split; [reflexivity|]. split; [|reflexivity]. unfold FullInvW. rewrite Hp in Hr. split; [exact Hr|].
    intros Hn. destruct (Hk' Hn) as (Hi' & Hp'). split; [exact Hi'|]. rewrite Hp'. rewrite Hp. reflexivity.
  - rewrite <- Hd. split; [reflexivity|]. split; [|reflexivity]. unfold FullInvW. split; [exact Hd|]. intros H; congruence.
Qed.

(* a run of pulls of the full iterator: consecutive (position, digit) pairs of E from the iterator's index, then the end *)
Fixpoint full_pulls (cs : list nat) (st : nat * option nat * St) : list (option (nat * nat)) :=
  match cs with
  | [] => []
  | c :: cs' => let '(r, st') := full_next St next c st in r :: full_pulls cs' st'
  end.
Fixpoint expect_pairs (n idx : nat) : list (option (nat * nat)) :=
  match n with
  | O => []
  | S n' => match E idx with Some d => Some (idx, d) :: expect_pairs n' (S idx) | None => None :: expect_pairs n' idx end
  end.

Theorem full_pulls_weak : forall cs st, FullInvW st -> full_pulls cs st = expect_pairs (length cs) (fst (fst st)).
Proof.
  induction cs as [|c cs IH]; intros st Hi; [reflexivity|]. cbn [full_pulls length expect_pairs].
  pose proof (full_next_weak c st Hi) as H. cbn zeta in H. destruct (full_next St next c st) as [r st'].
  destruct H as (Hr & Hi' & Hp). rewrite (IH st' Hi'), Hp, Hr.
  destruct (E (fst (fst st))); reflexivity.
Qed.
End Weak.

(* ---- the compositions the v1/v2 exported methods build, for every wait oracle ---- *)
Section Compose.
Variable D : nat -> option nat.
Hypothesis D_closed : forall i, D i = None -> D (S i) = None.
Variable W : nat -> nat -> nat * bool.
Hypothesis W_ok : forall c i, WaitOK D i (W c i).

(* FullIterator() / v2 Iterator() of an unlimited Number: fullIteratorAt over memoizer.IteratorAt(start) *)
Theorem full_over_memo cs c0 c1 start :
  full_pulls it (it_next D W) cs (full_new it (it_next D W) i_idx c1 (it_new W c0 start))
  = expect_pairs D (length cs) start.
Proof.
  destruct (it_new_inv D W W_ok c0 start) as (Hi & Hidx).
  destruct (full_new_weak D it (it_next D W) i_idx (ItInv D) (memo_weak D D_closed W W_ok) c1 _ Hi) as (Hf & Hp).
  rewrite (full_pulls_weak D it (it_next D W) i_idx (ItInv D) (memo_weak D D_closed W W_ok) cs _ Hf).
  rewrite Hp, Hidx. reflexivity.
Qed.

(* the same on a Number limited to `limit` digits (WithSignificant / WithEnd): fullIteratorAt over
   limitSpec.IteratorAt over memoizer.IteratorAt(min(start, limit)) *)
Theorem full_over_limit_over_memo cs c0 c1 start limit :
  let idx := Nat.min start limit in
  full_pulls (nat * it) (lim_next it (it_next D W) limit) cs
    (full_new (nat * it) (lim_next it (it_next D W) limit) fst c1 (idx, it_new W c0 idx))
  = expect_pairs (Elim D limit) (length cs) idx.
Proof.
  intros idx. destruct (it_new_inv D W W_ok c0 idx) as (Hi & Hidx).
  pose proof (lim_weak D it (it_next D W) i_idx (ItInv D) (memo_weak D D_closed W W_ok) limit) as HL.
  assert (HI : LimInv it i_idx (ItInv D) limit (idx, it_new W c0 idx)).
  { split; [exact Hi|]. split; [exact Hidx|]. cbn. unfold idx. lia. }
  destruct (full_new_weak (Elim D limit) (nat * it) _ fst _ HL c1 _ HI) as (Hf & Hp).
  rewrite (full_pulls_weak (Elim D limit) (nat * it) _ fst _ HL cs _ Hf). rewrite Hp. reflexivity.
Qed.

(* v1 Iterator() / IteratorAt(start) of a Number limited to `limit` digits: limitSpec.IteratorAt over
   memoizer.IteratorAt(min(start, limit)); any number of pulls with arbitrary other activity in between deliver the
   digits at consecutive positions below the limit and the end of the digits, then the end again on every
   further pull *)
Fixpoint lim_pulls (limit : nat) (cs : list nat) (st : nat * it) : list (option nat) :=
  match cs with
  | [] => []
  | c :: cs' => let '(r, st') := lim_next it (it_next D W) limit c st in r :: lim_pulls limit cs' st'
  end.
Fixpoint expectE (E : nat -> option nat) (n idx : nat) : list (option nat) :=
  match n with
  | O => []
  | S n' => match E idx with Some d => Some d :: expectE E n' (S idx) | None => None :: expectE E n' idx end
  end.

Definition LimJ (limit p : nat) (st : nat * it) : Prop :=
  ItInv D (snd st) /\ ((i_idx (snd st) = fst st /\ fst st <= limit /\ p = fst st) \/ (D (i_idx (snd st)) = None /\ Elim D limit p = None)).

Theorem lim_pulls_spec limit : forall cs p st, LimJ limit p st -> lim_pulls limit cs st = expectE (Elim D limit) (length cs) p.
Proof.
  induction cs as [|c cs IH]; intros p [index s] (Hi & HJ); [reflexivity|]. cbn [fst snd] in *.
  cbn [lim_pulls length expectE]. unfold lim_next.
  pose proof (it_next_spec D D_closed W W_ok c s Hi) as Hn.
  destruct HJ as [(Hidx & Hle & ->)|(Hend & Hp)].
  - destruct (Nat.eqb_spec index limit) as [->|Hne].
    + assert (Elim D limit limit = None) as -> by (unfold Elim; rewrite Nat.ltb_irrefl; reflexivity).
      f_equal. apply IH. split; [exact Hi|]. left. cbn. auto.
    + destruct (it_next D W c s) as [r s']. destruct Hn as (Hr & Hi' & Hp').
      unfold Elim at 1. destruct (Nat.ltb_spec index limit); [|lia]. rewrite <- Hidx, <- Hr.
      destruct r as [d|].
      * f_equal. rewrite Hidx. apply IH. split; [exact Hi'|]. left. cbn [fst snd]. rewrite Hp'. repeat split; lia.
      * f_equal. rewrite Hidx. apply IH. split; [exact Hi'|]. right. cbn [fst snd]. rewrite Hp'. split; [congruence|].
        unfold Elim. destruct (index <? limit); [|reflexivity]. rewrite <- Hidx. congruence.
  - rewrite Hp. destruct (Nat.eqb_spec index limit) as [->|Hne].
    + f_equal. apply IH. split; [exact Hi|]. right. cbn. auto.
    + destruct (it_next D W c s) as [r s']. destruct Hn as (Hr & Hi' & Hp'). rewrite Hend in Hr. subst r.
      f_equal. apply IH. split; [exact Hi'|]. right. cbn [fst snd]. rewrite Hp'. auto.
Qed.

Theorem limited_iterator_pulls cs c0 start limit :
  let idx := Nat.min start limit in
  lim_pulls limit cs (idx, it_new W c0 idx) = expectE (Elim D limit) (length cs) idx.
Proof.
  intros idx. apply lim_pulls_spec. destruct (it_new_inv D W W_ok c0 idx) as (Hi & Hidx).
  split; [exact Hi|]. left. cbn [fst snd]. repeat split; [exact Hidx|unfold idx; lia].
Qed.
End Compose.
