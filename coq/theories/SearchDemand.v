(* C15 / C06: which positions a forward search that stops after its n-th match makes the memoizer wait for.
   The matcher consumes the digits that memoizer.Scan delivers and stops the scan after the c digits that
   FindStream.stream_find consumes; Demand.scan_demand lists the indices such a stopped scan waits for. *)
From Coq Require Import ZArith List Lia Bool Arith.
Require Import LayerC Demand KmpModel FindModel FindStream.
Import ListNotations.
Local Close Scope Z_scope.

Section SearchDemand.
Variable D : nat -> option nat.
Hypothesis D_closed : forall i, D i = None -> D (S i) = None.
Variable W : nat -> nat -> nat * bool.
Hypothesis W_ok : forall c i, WaitOK D i (W c i).

Lemma listing_length k : forall idx limit, length (listing D k idx limit) <= k.
Proof.
  induction k as [|k IH]; intros idx limit; cbn [listing]; [cbn; lia|].
  destruct (idx <? limit); [|cbn; lia]. destruct (D idx); [cbn [length]; specialize (IH (S idx) limit); lia|cbn; lia].
Qed.

(* a scan stopped after c items waits for nothing beyond idx + c: the position after the last digit it delivered *)
Theorem stopped_scan_waits c cnt idx limit x : In x (scan_demand W c cnt idx limit) -> x <= idx + c.
Proof.
  intros H. destruct (scan_demand_bound D W c cnt idx limit x H) as [->|((_ & Hle) & _)]; [lia|].
  rewrite (scan_spec D D_closed W W_ok) in Hle. pose proof (listing_length c idx limit). lia.
Qed.

(* the forward searches FindFirst / FindFirstN / Matches with early exit over the window that starts at idx:
   the first n occurrences, and every index waited for is at most the position just after the last digit of the
   n-th occurrence (after the whole text when there are fewer) *)
Theorem search_stops_at_answer pat (w : list Z) n cnt idx limit : 1 <= length pat ->
  exists c, stream_find pat (Z.of_nat idx) w n = Some (firstn n (occ_fwd pat (Z.of_nat idx) w), c) /\
    (forall x, In x (scan_demand W c cnt idx limit) -> x <= idx + c) /\
    (0 < n <= length (occ_fwd pat (Z.of_nat idx) w) ->
       Z.of_nat (idx + c) = (nth (n - 1) (occ_fwd pat (Z.of_nat idx) w) (-1) + Z.of_nat (length pat))%Z) /\
    (length (occ_fwd pat (Z.of_nat idx) w) < n -> c = length w).
Proof.
  intros Hm. destruct (stream_find_spec pat (Z.of_nat idx) w n Hm) as (c & Hs & Hc & H0 & H1 & H2).
  exists c. split; [exact Hs|]. split; [intros x; apply stopped_scan_waits|]. split; [|exact H2].
  intros Hn. specialize (H1 Hn). lia.
Qed.
End SearchDemand.
