From Coq Require Import ZArith Lia.
Require Import Norm SqrtAll.
Open Scope Z_scope.

(* 10^[x] := 10 ^ (Z.max 0 x) *)
Definition p10 (x : Z) : Z := 10 ^ Z.max 0 x.

Lemma pow100 x : 0 <= x -> 100 ^ x = 10 ^ (2 * x).
Proof. intros H. rewrite Z.pow_mul_r by lia. reflexivity. Qed.

Lemma pow_split a b : 0 <= b <= a -> 100 ^ a = 100 ^ (a - b) * 100 ^ b.
Proof. intros H. rewrite <- Z.pow_add_r by lia. f_equal. lia. Qed.

(* from the model's natural form to the property's cross-multiplied form with the reported exponent *)
Lemma cross_form num den n d e k A :
  0 < den -> 0 <= k ->
  ((0 <= e /\ n = num /\ d = den * 100 ^ e) \/ (e <= 0 /\ n = num * 100 ^ (- e) /\ d = den)) ->
  (A * d <= n * 100 ^ k <-> A * p10 (2 * (e - k)) * den <= num * p10 (2 * (k - e))) /\
  (n * 100 ^ k < A * d <-> num * p10 (2 * (k - e)) < A * p10 (2 * (e - k)) * den).
Proof.
  intros Hden Hk Hcase. unfold p10.
  assert (Hpos : forall x, 0 <= x -> 0 < 100 ^ x) by (intros; apply Z.pow_pos_nonneg; lia).
  destruct Hcase as [(He & -> & ->)|(He & -> & ->)].
  - destruct (Z.le_gt_cases k e) as [Hke|Hke].
    + (* e >= k: cancel 100^k *)
      rewrite (Z.max_r 0 (2 * (e - k))) by lia. rewrite (Z.max_l 0 (2 * (k - e))) by lia.
      rewrite Z.pow_0_r, <- pow100 by lia. rewrite (pow_split e k) by lia.
      pose proof (Hpos k Hk) as Hp.
      replace (A * (den * (100 ^ (e - k) * 100 ^ k))) with ((A * 100 ^ (e - k) * den) * 100 ^ k) by ring.
      split.
      * rewrite <- Z.mul_le_mono_pos_r by lia. lia.
      * rewrite <- Z.mul_lt_mono_pos_r by lia. lia.
    + (* k > e: cancel 100^e *)
      rewrite (Z.max_l 0 (2 * (e - k))) by lia. rewrite (Z.max_r 0 (2 * (k - e))) by lia.
      rewrite Z.pow_0_r, <- pow100 by lia. rewrite (pow_split k e) by lia.
      pose proof (Hpos e He) as Hp.
      replace (A * (den * 100 ^ e)) with ((A * 1 * den) * 100 ^ e) by ring.
      replace (num * (100 ^ (k - e) * 100 ^ e)) with ((num * 100 ^ (k - e)) * 100 ^ e) by ring.
      split.
      * rewrite <- Z.mul_le_mono_pos_r by lia. lia.
      * rewrite <- Z.mul_lt_mono_pos_r by lia. lia.
  - (* radicand below 1 *)
    rewrite (Z.max_l 0 (2 * (e - k))) by lia. rewrite (Z.max_r 0 (2 * (k - e))) by lia.
    rewrite Z.pow_0_r, <- pow100 by lia.
    replace (num * 100 ^ (- e) * 100 ^ k) with (num * 100 ^ (k - e)).
    2:{ rewrite <- Z.mul_assoc, <- Z.pow_add_r by lia. f_equal. f_equal. lia. }
    split; split; intros H; nia.
Qed.

(* C01 in the property's form: for the normalised radicand (n, d, e) of num/den and any generator state
   reached after k digits with value M *)
Theorem sqrt_property_form num den fuel n d e k M st :
  0 < num -> 0 < den ->
  den < num * 2 ^ Z.of_nat fuel -> num < den * 2 ^ Z.of_nat fuel ->
  groups_init fuel num den 100 = Some (n, d, e) ->
  RInv n d k M st ->
  M * M * p10 (2 * (e - Z.of_nat k)) * den <= num * p10 (2 * (Z.of_nat k - e)) /\
  num * p10 (2 * (Z.of_nat k - e)) < (M + 1) * (M + 1) * p10 (2 * (e - Z.of_nat k)) * den.
Proof.
  intros Hnum Hden Hf1 Hf2 Hg HI.
  destruct (norm_spec 100 fuel num den ltac:(lia) Hnum Hden Hf1 Hf2) as (n' & d' & e' & Hg' & Hn & Hd & Hlt & Hle & Hcase).
  rewrite Hg in Hg'. inversion Hg'; subst n' d' e'. clear Hg'.
  pose proof (sqrt_truncated n d k M st Hd ltac:(lia) HI) as (T1 & T2).
  destruct (cross_form num den n d e (Z.of_nat k) (M * M) Hden ltac:(lia) Hcase) as (C1 & _).
  destruct (cross_form num den n d e (Z.of_nat k) ((M + 1) * (M + 1)) Hden ltac:(lia) Hcase) as (_ & C2).
  split; [apply C1; exact T1|apply C2; exact T2].
Qed.
Print Assumptions sqrt_property_form.

(* the first mantissa digit is 1..9: the normalised radicand is at least 1/100 *)
Lemma first_digit_positive n d P st : 0 < d -> 0 <= n -> d <= n * 100 -> RInv n d 1 P st -> 1 <= P.
Proof.
  intros Hd Hn Hle HI. pose proof (sqrt_truncated n d 1 P st Hd Hn HI) as (_ & T2).
  change (100 ^ Z.of_nat 1) with 100 in T2.
  destruct st as [[num rem] incr]. destruct HI as (_ & _ & _ & _ & HP). nia.
Qed.
Print Assumptions first_digit_positive.
