From Coq Require Import ZArith List Lia Bool.
Import ListNotations.
Open Scope Z_scope.

(* ---- model of positions.go.  The slice p.ranges is kept REVERSED (head = last element). ---- *)
Definition range := (Z * Z)%type.            (* Start, End *)
Record builder := mkB { rr : list range; unsorted : bool }.
Definition empty_builder := mkB [] false.

(* appendNotBefore(item, &ranges): ranges non-empty *)
Definition append_not_before (item : range) (rr : list range) : list range :=
  match rr with
  | [] => [item]                                         (* not reached: callers guarantee non-empty *)
  | (ls, le) :: rest =>
    if fst item <=? le then (if le <? snd item then (ls, snd item) :: rest else rr)
    else item :: rr
  end.

Definition add_range (b : builder) (s e : Z) : builder :=
  let s := if s <? 0 then 0 else s in
  if e <=? s then b
  else match rr b with
       | [] => mkB [(s, e)] (unsorted b)
       | (ls, le) :: _ =>
         if s <? ls then mkB ((s, e) :: rr b) true
         else mkB (append_not_before (s, e) (rr b)) (unsorted b)
       end.

Definition wrap64 (x : Z) : Z := (x + 2 ^ 63) mod 2 ^ 64 - 2 ^ 63.
Definition add (b : builder) (p : Z) : builder := add_range b p (wrap64 (p + 1)).

(* sort.Slice by Start, modelled by insertion sort *)
Fixpoint insert (x : range) (l : list range) : list range :=
  match l with [] => [x] | y :: r => if fst x <=? fst y then x :: l else y :: insert x r end.
Fixpoint isort (l : list range) : list range :=
  match l with [] => [] | x :: r => insert x (isort r) end.

Definition build (b : builder) : list range * builder :=
  if negb (unsorted b) then (rev (rr b), empty_builder)
  else match isort (rev (rr b)) with
       | [] => ([], empty_builder)                        (* not reached: unsorted implies two elements *)
       | x :: r => (rev (fold_left (fun acc it => append_not_before it acc) r [x]), empty_builder)
       end.

Definition end_of (ps : list range) : Z := match rev ps with [] => 0 | (_, e) :: _ => e end.

(* ---- specification ---- *)
Definition mem (p : Z) (l : list range) : Prop := exists s e, In (s, e) l /\ s <= p < e.

(* normal form, written for the REVERSED list: strictly decreasing, non-empty, disjoint, non-adjacent, >= 0 *)
Fixpoint normal_rev (l : list range) : Prop :=
  match l with
  | [] => True
  | (s, e) :: rest => 0 <= s /\ s < e /\ (match rest with [] => True | (_, e') :: _ => e' < s end) /\ normal_rev rest
  end.

Definition wf (l : list range) : Prop := Forall (fun r => 0 <= fst r /\ fst r < snd r) l.

Lemma mem_cons p r l : mem p (r :: l) <-> (fst r <= p < snd r) \/ mem p l.
Proof.
  unfold mem. split.
  - intros (s & e & [H|H] & Hp); [subst; left; exact Hp|right; eauto].
  - intros [H|(s & e & H & Hp)]; [exists (fst r), (snd r); destruct r; cbn; auto|exists s, e; cbn; auto].
Qed.

(* appendNotBefore on a normal list, with an item that does not start before the last one *)
Lemma anb_normal item l : normal_rev l -> l <> [] -> 0 <= fst item < snd item ->
  (match l with [] => True | (ls, _) :: _ => ls <= fst item end) ->
  normal_rev (append_not_before item l) /\
  (forall p, mem p (append_not_before item l) <-> (fst item <= p < snd item) \/ mem p l) /\
  (match append_not_before item l, l with (s', _) :: _, (ls, _) :: _ => s' = ls \/ s' = fst item | _, _ => True end).
Proof.
  destruct item as [s e]. destruct l as [|[ls le] rest]; [congruence|]. cbn [fst snd].
  intros (H0 & H1 & H2 & H3) _ Hi Hs. unfold append_not_before. cbn [fst snd].
  destruct (Z.leb_spec s le).
  - destruct (Z.ltb_spec le e).
    + split; [cbn; repeat split; auto; lia|]. split; [|auto].
      intros p. rewrite !mem_cons. cbn [fst snd]. intuition lia.
    + split; [cbn; repeat split; auto|]. split; [|auto].
      intros p. rewrite !mem_cons. cbn [fst snd]. intuition lia.
  - split; [cbn; repeat split; auto; lia|]. split; [|auto].
    intros p. rewrite !mem_cons. cbn [fst snd]. intuition lia.
Qed.

(* without normality: union and well-formedness only (used once the builder is in unsorted mode) *)
Lemma anb_mem item l ls le rest : l = (ls, le) :: rest -> ls <= fst item -> fst item < snd item -> ls < le ->
  (forall p, mem p (append_not_before item l) <-> (fst item <= p < snd item) \/ mem p l).
Proof.
  intros -> Hs Hi Hl p. destruct item as [s e]. unfold append_not_before. cbn [fst snd] in *.
  destruct (Z.leb_spec s le); [destruct (Z.ltb_spec le e)|]; rewrite !mem_cons; cbn [fst snd]; intuition lia.
Qed.

Lemma anb_wf item l : wf l -> 0 <= fst item < snd item -> wf (append_not_before item l).
Proof.
  unfold wf. intros Hw Hi. destruct item as [s e]. destruct l as [|[ls le] rest]; cbn [append_not_before fst snd] in *.
  - constructor; auto.
  - inversion Hw as [|? ? Hh Ht]; subst. cbn in Hh.
    destruct (Z.leb_spec s le); [destruct (Z.ltb_spec le e)|].
    + constructor; auto. cbn. lia.
    + exact Hw.
    + constructor; auto.
Qed.

(* ---- sorting ---- *)
Fixpoint sorted (l : list range) : Prop :=
  match l with [] => True | x :: r => (forall y, In y r -> fst x <= fst y) /\ sorted r end.

Lemma insert_in x l y : In y (insert x l) <-> y = x \/ In y l.
Proof.
  induction l as [|a l IH]; cbn; [intuition|].
  destruct (fst x <=? fst a); cbn; [intuition|]. rewrite IH. intuition.
Qed.

Lemma insert_sorted x l : sorted l -> sorted (insert x l).
Proof.
  induction l as [|a l IH]; intros H; cbn; [split; [intros y []|exact I]|].
  destruct H as (H1 & H2). destruct (Z.leb_spec (fst x) (fst a)).
  - cbn. split; [|split; auto]. intros y [<-|Hy]; [lia|]. specialize (H1 y Hy). lia.
  - cbn. split; [|auto]. intros y Hy. apply insert_in in Hy. destruct Hy as [->|Hy]; [lia|auto].
Qed.

Lemma isort_in l y : In y (isort l) <-> In y l.
Proof. induction l as [|a l IH]; cbn; [tauto|]. rewrite insert_in, IH. intuition. Qed.

Lemma isort_sorted l : sorted (isort l).
Proof. induction l as [|a l IH]; cbn; auto. now apply insert_sorted. Qed.

Lemma mem_ext l1 l2 : (forall y, In y l1 <-> In y l2) -> forall p, mem p l1 <-> mem p l2.
Proof. intros H p. unfold mem. split; intros (s & e & Hin & Hp); exists s, e; split; auto; apply H; auto. Qed.

Lemma wf_ext l1 l2 : (forall y, In y l1 <-> In y l2) -> wf l1 -> wf l2.
Proof. intros H Hw. apply Forall_forall. intros y Hy. apply H in Hy. revert y Hy. now apply Forall_forall. Qed.

(* sequential merge of a start-sorted list *)
Lemma fold_anb r : forall acc, normal_rev acc -> acc <> [] -> wf r -> sorted r ->
  (match acc with [] => True | (ls, _) :: _ => forall y, In y r -> ls <= fst y end) ->
  let res := fold_left (fun a it => append_not_before it a) r acc in
  normal_rev res /\ forall p, mem p res <-> mem p r \/ mem p acc.
Proof.
  induction r as [|it r IH]; intros acc Hn Hne Hw Hs Hle; cbn [fold_left].
  - split; auto. intros p. unfold mem at 2. split; [auto|intros [(s & e & [] & _)|H]; auto].
  - unfold wf in Hw. inversion Hw as [|? ? Hit Hwr]; subst. destruct Hs as (Hs1 & Hs2).
    assert (Hfirst : match acc with [] => True | (ls, _) :: _ => ls <= fst it end).
    { destruct acc as [|[ls le] ?]; auto. apply Hle. now left. }
    destruct (anb_normal it acc Hn Hne Hit Hfirst) as (A1 & A2 & A3).
    assert (Hne' : append_not_before it acc <> []).
    { destruct acc as [|[ls le] ?]; [congruence|]. unfold append_not_before.
      destruct (fst it <=? le); [destruct (le <? snd it)|]; discriminate. }
    destruct (IH (append_not_before it acc) A1 Hne' Hwr Hs2) as (B1 & B2).
    { destruct (append_not_before it acc) as [|[s' e'] ?] eqn:E; auto.
      destruct acc as [|[ls le] ?]; [congruence|]. intros y Hy.
      destruct A3 as [->| ->]; [apply Hle; now right|apply Hs1; auto]. }
    split; [exact B1|]. intros p. rewrite B2, A2, mem_cons. tauto.
Qed.

(* ---- histories of builder calls ---- *)
Inductive call := CAdd (p : Z) | CAddRange (s e : Z).

Definition clamp (s e : Z) : option range :=
  let s' := if s <? 0 then 0 else s in if e <=? s' then None else Some (s', e).

Definition call_range (c : call) : option range :=
  match c with CAddRange s e => clamp s e | CAdd p => clamp p (wrap64 (p + 1)) end.

Definition apply_call (b : builder) (c : call) : builder :=
  match c with CAdd p => add b p | CAddRange s e => add_range b s e end.

Definition added (cs : list call) : list range :=
  flat_map (fun c => match call_range c with Some r => [r] | None => [] end) cs.

Record BInv (b : builder) (cs : list call) : Prop := {
  bi_wf : wf (rr b);
  bi_mem : forall p, mem p (rr b) <-> mem p (added cs);
  bi_norm : unsorted b = false -> normal_rev (rr b);
  bi_ne : unsorted b = true -> rr b <> []
}.

Lemma mem_nil p : ~ mem p [].
Proof. intros (s & e & [] & _). Qed.

Lemma mem_app p l1 l2 : mem p (l1 ++ l2) <-> mem p l1 \/ mem p l2.
Proof.
  unfold mem. split.
  - intros (s & e & Hin & Hp). apply in_app_or in Hin. destruct Hin; [left|right]; eauto.
  - intros [(s & e & Hin & Hp)|(s & e & Hin & Hp)]; exists s, e; split; auto; apply in_or_app; auto.
Qed.

Lemma added_snoc cs c : added (cs ++ [c]) = added cs ++ match call_range c with Some r => [r] | None => [] end.
Proof. unfold added. rewrite flat_map_app. cbn. now rewrite app_nil_r. Qed.

Lemma BInv_empty : BInv empty_builder [].
Proof. constructor; cbn; auto; try discriminate. constructor. tauto. Qed.

Lemma add_range_inv b cs c s e : BInv b cs -> call_range c = clamp s e -> BInv (add_range b s e) (cs ++ [c]).
Proof.
  intros [Hw Hm Hn Hne] Hc. unfold add_range. unfold clamp in Hc.
  set (s' := if s <? 0 then 0 else s) in *.
  assert (Hs' : 0 <= s') by (unfold s'; destruct (Z.ltb_spec s 0); lia).
  destruct (Z.leb_spec e s') as [Hle|Hlt].
  - (* ignored *)
    constructor; auto. intros p. rewrite added_snoc, Hc, app_nil_r. apply Hm.
  - destruct (rr b) as [|[ls le] rest] eqn:Er.
    + constructor; cbn [rr unsorted].
      * constructor; [cbn; lia|constructor].
      * intros p. rewrite added_snoc, Hc, mem_app, <- Hm, !mem_cons. cbn [fst snd]. pose proof (mem_nil p). tauto.
      * intros _. cbn. repeat split; auto; lia.
      * discriminate.
    + inversion Hw as [|? ? Hh Ht]; subst. cbn [fst snd] in Hh.
      destruct (Z.ltb_spec s' ls) as [Hb|Hb].
      * (* out of order: just append, mark unsorted *)
        constructor; cbn [rr unsorted].
        -- constructor; auto; cbn; lia.
        -- intros p. rewrite added_snoc, Hc, mem_app, <- Hm, !mem_cons. cbn [fst snd].
           pose proof (mem_nil p). tauto.
        -- discriminate.
        -- discriminate.
      * (* in order: appendNotBefore *)
        constructor; cbn [rr unsorted].
        -- apply anb_wf; auto; cbn; lia.
        -- intros p. rewrite (anb_mem (s', e) _ ls le rest eq_refl) by (cbn; lia).
           rewrite added_snoc, Hc, mem_app, <- Hm, !mem_cons. cbn [fst snd].
           pose proof (mem_nil p). tauto.
        -- intros Hu. apply anb_normal; auto; try discriminate; cbn; lia.
        -- intros _. unfold append_not_before. cbn [fst snd].
           destruct (s' <=? le); [destruct (le <? e)|]; discriminate.
Qed.

Lemma apply_call_inv b cs c : BInv b cs -> BInv (apply_call b c) (cs ++ [c]).
Proof. intros H. destruct c; cbn; [unfold add|]; apply add_range_inv; auto. Qed.

Lemma run_inv cs : forall b cs0, BInv b cs0 -> BInv (fold_left apply_call cs b) (cs0 ++ cs).
Proof.
  induction cs as [|c cs IH]; intros b cs0 H; cbn; [now rewrite app_nil_r|].
  replace (cs0 ++ c :: cs) with ((cs0 ++ [c]) ++ cs) by (rewrite <- app_assoc; reflexivity).
  apply IH. now apply apply_call_inv.
Qed.

Definition normal (ps : list range) : Prop := normal_rev (rev ps).

Lemma mem_rev p l : mem p (rev l) <-> mem p l.
Proof. apply mem_ext. intros y. symmetry. apply in_rev. Qed.

Theorem build_spec b cs : BInv b cs ->
  normal (fst (build b)) /\ (forall p, mem p (fst (build b)) <-> mem p (added cs)) /\ snd (build b) = empty_builder.
Proof.
  intros [Hw Hm Hn Hne]. unfold build. destruct (unsorted b) eqn:Eu; cbn [negb].
  - specialize (Hne eq_refl).
    assert (Hin : forall y, In y (isort (rev (rr b))) <-> In y (rr b)).
    { intros y. rewrite isort_in. symmetry. apply in_rev. }
    pose proof (isort_sorted (rev (rr b))) as Hs.
    assert (Hw' : wf (isort (rev (rr b)))) by (apply (wf_ext (rr b)); auto; intros y; symmetry; apply Hin).
    destruct (isort (rev (rr b))) as [|x r] eqn:Ei.
    + exfalso. destruct (rr b) as [|y l]; [congruence|]. specialize (Hin y). cbn in Hin. tauto.
    + cbn [fst snd]. unfold wf in Hw'. pose proof (Forall_inv Hw') as Hx. pose proof (Forall_inv_tail Hw') as Hr. destruct Hs as (Hs1 & Hs2).
      destruct (fold_anb r [x]) as (F1 & F2); auto; try discriminate.
      { destruct x as [xs xe]. cbn in *. repeat split; auto; lia. }
      { destruct x as [xs xe]. exact Hs1. }
      split; [unfold normal; now rewrite rev_involutive|]. split; [|reflexivity].
      intros p. rewrite mem_rev, F2, <- Hm. rewrite <- (mem_ext _ _ Hin p), !mem_cons.
      pose proof (mem_nil p). tauto.
  - cbn [fst snd]. split; [unfold normal; rewrite rev_involutive; auto|]. split; [|reflexivity].
    intros p. rewrite mem_rev. apply Hm.
Qed.

(* C11: any history of Add/AddRange calls followed by Build *)
Theorem positions_normal_form cs :
  let b := fold_left apply_call cs empty_builder in
  normal (fst (build b)) /\ (forall p, mem p (fst (build b)) <-> mem p (added cs)) /\ snd (build b) = empty_builder.
Proof. apply build_spec. apply (run_inv cs empty_builder []). apply BInv_empty. Qed.

(* what "added" means for Add: the position itself, unless posit+1 overflows *)
Lemma wrap64_id x : - 2 ^ 63 <= x < 2 ^ 63 -> wrap64 x = x.
Proof. intros H. unfold wrap64. rewrite Z.mod_small; lia. Qed.

Example add_maxint_dropped : fst (build (fold_left apply_call [CAdd (2 ^ 63 - 1)] empty_builder)) = [].
Proof. vm_compute. reflexivity. Qed.

Print Assumptions positions_normal_form.
