From Coq Require Import ZArith Lia List.
Import ListNotations.
Open Scope Z_scope.

(* inner loop: for remainder >= incr { remainder -= incr; digit++; incr += 2 } *)
Fixpoint sq_loop (fuel : nat) (r i d : Z) : option (Z * Z * Z) :=
  if r <? i then Some (r, i, d) else
  match fuel with
  | O => None
  | S f => sq_loop f (r - i) (i + 2) (d + 1)
  end.

Definition sq_step (fuel : nat) (st : Z * Z) (g : Z) : option (Z * Z * Z) :=
  let '(r, i) := st in
  match sq_loop fuel (r * 100 + g) i 0 with
  | Some (r', i', d) => Some (r', (i' - 1) * 10 + 1, d)
  | None => None
  end.

Lemma sq_loop_spec : forall fuel r i d q,
  i = 2 * q + 1 -> 0 <= r -> 0 <= q ->
  r < (q + Z.of_nat fuel + 1) * (q + Z.of_nat fuel + 1) - q * q ->
  exists r' d', sq_loop fuel r i d = Some (r', 2 * (q + d') + 1, d + d')
     /\ 0 <= d' <= Z.of_nat fuel /\ 0 <= r' < 2 * (q + d') + 1
     /\ r + q * q = r' + (q + d') * (q + d').
Proof.
  induction fuel as [|f IH]; intros r i d q Hi Hr Hq Hb; cbn [sq_loop].
  - destruct (Z.ltb_spec r i).
    + exists r, 0. replace (q + 0) with q by lia. replace (d + 0) with d by lia.
      subst i. repeat split; try lia.
    + exfalso. subst i. change (Z.of_nat 0) with 0 in Hb. nia.
  - destruct (Z.ltb_spec r i).
    + exists r, 0. replace (q + 0) with q by lia. replace (d + 0) with d by lia.
      subst i. repeat split; try lia.
    + destruct (IH (r - i) (i + 2) (d + 1) (q + 1)) as (r' & d' & He & Hd & Hr' & Heq); try lia.

      exists r', (d' + 1). replace (q + (d' + 1)) with (q + 1 + d') by lia.
      replace (d + (d' + 1)) with (d + 1 + d') by lia.
      rewrite He. repeat split; try lia.
Qed.

(* one digit: invariant P = partial root, X = radicand prefix, r = X - P^2, 0<= r <= 2P , i = 20P+1 *)
Lemma sq_step_spec : forall r P g,
  0 <= P -> 0 <= r <= 2 * P -> 0 <= g < 100 ->
  exists r' d, sq_step 10 (r, 20 * P + 1) g = Some (r', 20 * (10 * P + d) + 1, d)
    /\ 0 <= d <= 9 /\ 0 <= r' <= 2 * (10 * P + d)
    /\ 100 * (r + P * P) + g = r' + (10 * P + d) * (10 * P + d).
Proof.
  intros r P g HP Hr Hg. unfold sq_step.
  destruct (sq_loop_spec 10 (r * 100 + g) (20 * P + 1) 0 (10 * P)) as (r' & d' & He & Hd & Hr' & Heq); try lia.
  rewrite He. exists r', d'. 
  assert (d' <= 9).
  { destruct (Z.le_gt_cases d' 9); auto. exfalso. 
    assert (d' = 10) by lia. subst d'. nia. }
  split. { f_equal. f_equal. f_equal. lia. }
  repeat split; try lia.
Qed.
