(* Top-level model of Fprint / Sprint / Fwrite / Swrite (print.go + formatters.go): option defaults, label
   width, row starters, the shown (position, digit) pairs from Positions ranges x view, the streaming printer
   of PrnModel.v, trailing line feed; code points and UTF-8 bytes. *)
From Coq Require Import ZArith List Lia Bool.
Require Import Pos PosHist Views HistModel PrnModel.
Import ListNotations.
Open Scope Z_scope.

Record popts := mkO { o_R : Z; o_C : Z; o_show : bool; o_missing : Z; o_lead : bool; o_trail : bool }.

(* decimal digits of n > 0, least significant first *)
Fixpoint dec_rev (fuel : nat) (n : Z) : list Z :=
  match fuel with
  | O => []
  | S f => if n <=? 0 then [] else (48 + n mod 10) :: dec_rev f (n / 10)
  end.
Definition dec (n : Z) : list Z := if n <=? 0 then [48] else rev (dec_rev 80 n).

Definition spaces (n : Z) : list Z := repeat 32 (Z.to_nat n).
Definition pad_left (w : Z) (l : list Z) : list Z := spaces (w - Z.of_nat (length l)) ++ l.

(* printerSettings.digitCountWidth *)
Definition dcw (o : popts) (maxd : Z) : Z :=
  if negb (o_show o) || (o_R o <=? 0) then 0
  else if maxd <=? o_R o then 0
  else Z.of_nat (length (dec (((maxd - 1) / o_R o) * o_R o))).

(* computeRowStarter (v3) / computeIndentation + the literals in rawPrinter.Consume (v1, v2 with o_lead = true) *)
Definition starters (o : popts) (maxd : Z) : list Z * (Z -> list Z) * bool :=
  let w := dcw o maxd in
  if w <=? 0 then
    (if o_lead o then ([48; 46], fun _ : Z => [32; 32], false)
     else if o_show o then ([48; 32; 32], fun _ : Z => [32; 32; 32], false)
     else ([], fun _ : Z => [], false))
  else if o_lead o then (spaces w ++ [48; 46], fun i => pad_left w (dec i) ++ [32; 32], true)
  else (spaces (w - 1) ++ [48; 32; 32], fun i => pad_left w (dec i) ++ [32; 32], true).

(* bufio.Writer.WriteRune / utf8.EncodeRune: invalid runes become U+FFFD *)
Definition fix_rune (r : Z) : Z :=
  if (r <? 0) || (1114111 <? r) || ((55296 <=? r) && (r <=? 57343)) then 65533 else r.

Definition sprint_points (o : popts) (maxd : Z) (shown : list (Z * Z)) : list Z :=
  let '(z, nz, con) := starters o maxd in
  print_all (o_R o) (o_C o) (fix_rune (o_missing o)) z nz con shown ++ (if o_trail o then [10] else []).

Definition utf8 (r : Z) : list Z :=
  if r <? 128 then [r]
  else if r <? 2048 then [192 + r / 64; 128 + r mod 64]
  else if r <? 65536 then [224 + r / 4096; 128 + (r / 64) mod 64; 128 + r mod 64]
  else [240 + r / 262144; 128 + (r / 4096) mod 64; 128 + (r / 64) mod 64; 128 + r mod 64].
Definition utf8_all (l : list Z) : list Z := flat_map utf8 l.

(* the pairs a print call feeds to the printer: for each range of the Positions value, the listing of
   s.WithStart(start).WithEnd(end) *)
Definition shown_of (d : dsrc) (v : val) (ranges : list range) : list (Z * Z) :=
  flat_map (fun r =>
    let w := with_end (with_start v (fst r)) (snd r) in
    match span d w with
    | Some n => fwd_list d (eff_hi d w) (eff_lo w) n
    | None => []            (* not generated: an endless range does not return *)
    end) ranges.

(* Positions built from a list of AddRange calls *)
Definition positions_of (rs : list range) : list range :=
  fst (build (fold_left (fun b r => add_range b (fst r) (snd r)) rs empty_builder)).

(* Sprint(s, positions, options): maxDigits = positions.End() *)
Definition sprint (o : popts) (d : dsrc) (v : val) (rs : list range) : list Z :=
  let ps := positions_of rs in
  sprint_points o (end_of ps) (shown_of d v ps).

(* Swrite(s, options): maxDigits = endOf(s) = last position + 1, or 0 *)
Definition swrite (o : popts) (d : dsrc) (v : val) : list Z :=
  match span d v with
  | Some n =>
    let shown := fwd_list d (eff_hi d v) (eff_lo v) n in
    let maxd := match rev shown with [] => 0 | (p, _) :: _ => p + 1 end in
    sprint_points o maxd shown
  | None => []
  end.

Fixpoint asc_b (idx : Z) (shown : list (Z * Z)) : bool :=
  match shown with [] => true | (p, _) :: r => (idx <=? p) && asc_b (p + 1) r end.
