From Coq Require Import ZArith List Lia Bool.
Import ListNotations.
Open Scope Z_scope.

(* ---- v3 views: concrete representations and methods as coded in sqroot.go / numberspec.go / print.go ---- *)
Inductive spec := SNil | SMemo | SLim (l : Z).

(* withLimit(spec, limit) *)
Definition with_limit (sp : spec) (limit : Z) : spec :=
  if limit <=? 0 then SNil
  else match sp with
       | SNil => SNil
       | SLim l => if l <=? limit then sp else SLim limit
       | SMemo => SLim limit
       end.

Definition spec_eqb (a b : spec) : bool :=           (* Go's interface equality, as far as content can tell *)
  match a, b with
  | SNil, SNil => true
  | SLim x, SLim y => x =? y
  | _, _ => false                                    (* a fresh *limitSpec over the memoizer is never == the memoizer *)
  end.

Inductive val :=
| FN (sp : spec) (e : Z)          (* *FiniteNumber *)
| MWS (sp : spec) (start : Z)     (* *mantissaWithStart, start > 0 *)
| ON (inner : val)                (* *opqNumber wrapping a *FiniteNumber *)
| OS (inner : val).               (* *opqSequence wrapping a *mantissaWithStart *)

Definition zero := FN SNil 0.

Inductive res := Ok (v : val) | Panic | IllTyped.

Definition fn_with_mantissa (sp : spec) (e : Z) (sp' : spec) : val :=
  if spec_eqb sp' sp then FN sp e else match sp' with SNil => zero | _ => FN sp' e end.

Fixpoint with_start (v : val) (s : Z) : val :=
  match v with
  | FN sp e => if s <=? 0 then v else MWS sp s
  | MWS sp st => if s <=? st then v else MWS sp s
  | ON inner => if s <=? 0 then v else OS (with_start inner s)     (* result == inner iff start <= 0 *)
  | OS inner => match inner with
                | MWS sp st => if s <=? st then v else OS (with_start inner s)
                | _ => OS (with_start inner s)
                end
  end.

Fixpoint with_end (v : val) (e : Z) : val :=
  match v with
  | FN sp ex => fn_with_mantissa sp ex (with_limit sp e)
  | MWS sp st => let sp' := with_limit sp e in if spec_eqb sp' sp then v else MWS sp' st
  | ON inner | OS inner => with_end inner e                      (* promoted method of the embedded value *)
  end.

Definition with_significant (v : val) (k : Z) : res :=
  match v with
  | FN _ _ | ON (FN _ _) => if k <? 0 then Panic else Ok (with_end v k)
  | _ => IllTyped                                                (* Sequence has no WithSignificant *)
  end.

Definition is_finite_type (v : val) : bool := match v with FN _ _ | MWS _ _ => true | _ => false end.

Definition finite_with_start (v : val) (s : Z) : res :=
  if is_finite_type v then Ok (with_start v s) else IllTyped.

(* ---- meaning: the interval of positions [lo, hi) (hi = None: unbounded) and the exponent ---- *)
Definition spec_hi (sp : spec) : option Z := match sp with SNil => Some 0 | SMemo => None | SLim l => Some l end.

Fixpoint lo (v : val) : Z := match v with FN _ _ => 0 | MWS _ st => st | ON i | OS i => lo i end.
Fixpoint hi (v : val) : option Z := match v with FN sp _ | MWS sp _ => spec_hi sp | ON i | OS i => hi i end.

Definition omin (a : option Z) (b : Z) : option Z := match a with None => Some b | Some x => Some (Z.min x b) end.

(* well-formed representations, as produced by the constructors *)
Definition wf_spec (sp : spec) : Prop := match sp with SLim l => 0 < l | _ => True end.
Definition wf (v : val) : Prop :=
  match v with
  | FN sp _ => wf_spec sp
  | MWS sp st => 0 < st /\ wf_spec sp
  | ON (FN sp e) => wf_spec sp
  | OS (MWS sp st) => 0 < st /\ wf_spec sp
  | _ => False
  end.

(* positions p with lo <= p < hi (and p inside the digit string) is what every traversal lists: Layer C.
   Two representations denote the same view iff they have the same clipped interval. *)
Definition in_view (v : val) (p : Z) : Prop := Z.max 0 (lo v) <= p /\ match hi v with None => True | Some h => p < h end.

Lemma with_limit_hi sp e : wf_spec sp ->
  forall p, 0 <= p -> ((match spec_hi (with_limit sp e) with None => True | Some h => p < h end) <->
                       (match spec_hi sp with None => True | Some h => p < h end) /\ p < e).
Proof.
  intros Hw p Hp. unfold with_limit. destruct (Z.leb_spec e 0).
  - destruct sp; cbn; lia.
  - destruct sp as [| |l]; cbn in *; try lia.
    destruct (Z.leb_spec l e); cbn; lia.
Qed.

Lemma with_limit_wf sp e : wf_spec sp -> wf_spec (with_limit sp e).
Proof.
  intros Hw. unfold with_limit. destruct (Z.leb_spec e 0); [exact I|].
  destruct sp as [| |l]; unfold wf_spec in *; auto. destruct (Z.leb_spec l e); lia.
Qed.

(* C07: WithStart / WithEnd act as interval intersection, whatever short-cut the code took *)
Ltac solve_view := unfold in_view; cbn [lo hi]; intros p; destruct (spec_hi _); lia.

Theorem with_start_view v s : wf v -> wf (with_start v s) /\ forall p, in_view (with_start v s) p <-> in_view v p /\ s <= p.
Proof.
  intros Hw. destruct v as [sp e|sp st|[sp e|?|?|?]|[?|sp st|?|?]]; cbn [wf] in Hw; try contradiction.
  - cbn [with_start]. destruct (Z.leb_spec s 0).
    + split; [exact Hw|solve_view].
    + split; [cbn [wf]; split; [lia|exact Hw]|solve_view].
  - destruct Hw as (Hst & Hsp). cbn [with_start]. destruct (Z.leb_spec s st).
    + split; [cbn [wf]; auto|solve_view].
    + split; [cbn [wf]; split; [lia|auto]|solve_view].
  - cbn [with_start]. destruct (Z.leb_spec s 0).
    + split; [exact Hw|solve_view].
    + cbn [with_start]. destruct (Z.leb_spec s 0); [lia|]. split; [cbn [wf]; split; [lia|exact Hw]|solve_view].
  - destruct Hw as (Hst & Hsp). cbn [with_start]. destruct (Z.leb_spec s st).
    + split; [cbn [wf]; auto|solve_view].
    + cbn [with_start]. destruct (Z.leb_spec s st); [lia|]. split; [cbn [wf]; split; [lia|auto]|solve_view].
Qed.

Theorem with_end_view v e : wf v -> wf (with_end v e) /\ forall p, in_view (with_end v e) p <-> in_view v p /\ p < e.
Proof.
  intros Hw.
  assert (FNcase : forall sp ex, wf_spec sp ->
            wf (fn_with_mantissa sp ex (with_limit sp e)) /\
            forall p, in_view (fn_with_mantissa sp ex (with_limit sp e)) p <-> in_view (FN sp ex) p /\ p < e).
  { intros sp ex Hsp. pose proof (with_limit_wf sp e Hsp) as Hw'. pose proof (with_limit_hi sp e Hsp) as Hh.
    unfold fn_with_mantissa. destruct (spec_eqb (with_limit sp e) sp) eqn:Eq.
    - split; [exact Hsp|]. unfold in_view. cbn [lo hi]. intros p. split; [|tauto].
      intros (H0 & H1). split; [tauto|]. rewrite Z.max_id in H0.
      assert (Hsame : spec_hi (with_limit sp e) = spec_hi sp).
      { destruct (with_limit sp e), sp; cbn in Eq; try discriminate; auto. apply Z.eqb_eq in Eq. now subst. }
      specialize (Hh p H0). rewrite Hsame in Hh. tauto.
    - destruct (with_limit sp e) eqn:Ew.
      + split; [exact I|]. unfold in_view, zero. cbn [lo hi spec_hi]. intros p. rewrite Z.max_id.
        split; [lia|]. intros ((H0 & H1) & H2). specialize (Hh p H0). cbn in Hh. tauto.
      + split; [exact Hw'|]. unfold in_view. cbn [lo hi]. intros p. rewrite Z.max_id.
        split; [intros (H0 & H1); specialize (Hh p H0); tauto|intros ((H0 & H1) & H2); specialize (Hh p H0); tauto].
      + split; [exact Hw'|]. unfold in_view. cbn [lo hi]. intros p. rewrite Z.max_id.
        split; [intros (H0 & H1); specialize (Hh p H0); tauto|intros ((H0 & H1) & H2); specialize (Hh p H0); tauto]. }
  assert (MWScase : forall sp st, 0 < st -> wf_spec sp ->
            let v' := (if spec_eqb (with_limit sp e) sp then MWS sp st else MWS (with_limit sp e) st) in
            wf v' /\ forall p, in_view v' p <-> in_view (MWS sp st) p /\ p < e).
  { intros sp st Hst Hsp. pose proof (with_limit_wf sp e Hsp) as Hw'. pose proof (with_limit_hi sp e Hsp) as Hh.
    cbn zeta. destruct (spec_eqb (with_limit sp e) sp) eqn:Eq.
    - split; [cbn [wf]; auto|]. unfold in_view. cbn [lo hi]. intros p. split; [|tauto].
      intros (H0 & H1). split; [tauto|].
      assert (Hsame : spec_hi (with_limit sp e) = spec_hi sp).
      { destruct (with_limit sp e), sp; cbn in Eq; try discriminate; auto. apply Z.eqb_eq in Eq. now subst. }
      specialize (Hh p ltac:(lia)). rewrite Hsame in Hh. tauto.
    - split; [cbn [wf]; auto|]. unfold in_view. cbn [lo hi]. intros p.
      split; [intros (H0 & H1); specialize (Hh p ltac:(lia)); tauto|intros ((H0 & H1) & H2); specialize (Hh p ltac:(lia)); tauto]. }
  destruct v as [sp ex|sp st|[sp ex|?|?|?]|[?|sp st|?|?]]; cbn [wf] in Hw; try contradiction; cbn [with_end].
  - apply FNcase; auto.
  - destruct Hw. apply (MWScase sp st); auto.
  - destruct (FNcase sp ex Hw) as (F1 & F2). split; [exact F1|]. intros p. rewrite F2. unfold in_view. cbn [lo hi]. tauto.
  - destruct Hw as (H1 & H2). destruct (MWScase sp st H1 H2) as (F1 & F2). split; [exact F1|].
    intros p. rewrite F2. unfold in_view. cbn [lo hi]. tauto.
Qed.

(* C17: a value has a finite interface type iff it is bounded by construction *)
Inductive vop := OpWithStart (s : Z) | OpWithEnd (e : Z) | OpWithSignificant (k : Z) | OpFiniteWithStart (s : Z).

Definition apply_op (v : val) (o : vop) : res :=
  match o with
  | OpWithStart s => Ok (with_start v s)
  | OpWithEnd e => Ok (with_end v e)
  | OpWithSignificant k => with_significant v k
  | OpFiniteWithStart s => finite_with_start v s
  end.

Fixpoint apply_chain (v : val) (ops : list vop) : res :=
  match ops with
  | [] => Ok v
  | o :: r => match apply_op v o with Ok v' => apply_chain v' r | e => e end
  end.

(* "bounded by construction", following the statement of C17: the base is finite, or some WithEnd /
   WithSignificant / FiniteWithStart was applied; WithStart keeps whatever was there *)
Fixpoint bounded (base_finite : bool) (ops : list vop) : bool :=
  match ops with
  | [] => base_finite
  | OpWithStart _ :: r => bounded base_finite r
  | _ :: r => bounded true r
  end.

Lemma with_start_type v s : wf v -> is_finite_type (with_start v s) = is_finite_type v.
Proof.
  intros Hw. destruct v as [sp e|sp st|[sp e|?|?|?]|[?|sp st|?|?]]; cbn [wf] in Hw; try contradiction; cbn [with_start].
  - destruct (s <=? 0); reflexivity.
  - destruct (s <=? st); reflexivity.
  - destruct (s <=? 0); reflexivity.
  - destruct (s <=? st); reflexivity.
Qed.

Lemma with_end_type v e : wf v -> is_finite_type (with_end v e) = true.
Proof.
  intros Hw. destruct v as [sp ex|sp st|[sp ex|?|?|?]|[?|sp st|?|?]]; cbn [wf] in Hw; try contradiction; cbn [with_end].
  - unfold fn_with_mantissa. destruct (spec_eqb _ _); [reflexivity|]. destruct (with_limit sp e); reflexivity.
  - destruct (spec_eqb _ _); reflexivity.
  - unfold fn_with_mantissa. destruct (spec_eqb _ _); [reflexivity|]. destruct (with_limit sp e); reflexivity.
  - destruct (spec_eqb _ _); reflexivity.
Qed.

Theorem finite_iff_bounded ops : forall v v', wf v -> apply_chain v ops = Ok v' ->
  wf v' /\ is_finite_type v' = bounded (is_finite_type v) ops.
Proof.
  induction ops as [|o r IH]; intros v v' Hw H; cbn [apply_chain bounded] in *.
  - inversion H; subst. auto.
  - destruct o as [s|e|k|s]; cbn [apply_op] in H.
    + destruct (with_start_view v s Hw) as (W1 & _). destruct (IH _ _ W1 H) as (I1 & I2).
      split; auto. rewrite I2, with_start_type; auto.
    + destruct (with_end_view v e Hw) as (W1 & _). destruct (IH _ _ W1 H) as (I1 & I2).
      split; auto. rewrite I2, with_end_type; auto.
    + unfold with_significant in H.
      assert (Hcase : (if k <? 0 then Panic else Ok (with_end v k)) = Ok (with_end v k) \/ k < 0) by (destruct (Z.ltb_spec k 0); auto).
      destruct v as [sp ex|sp st|[sp ex|?|?|?]|?]; try discriminate;
        destruct (Z.ltb_spec k 0); try discriminate;
        match goal with Hw : wf ?v |- _ =>
          destruct (with_end_view v k Hw) as (W1 & _); destruct (IH _ _ W1 H) as (I1 & I2);
          split; auto; rewrite I2, with_end_type; auto end.
    + unfold finite_with_start in H. destruct (is_finite_type v) eqn:Ef; [|discriminate].
      destruct (with_start_view v s Hw) as (W1 & _). destruct (IH _ _ W1 H) as (I1 & I2).
      split; auto. rewrite I2, with_start_type, Ef; auto.
Qed.

(* the bases: unbounded Numbers are wrapped, finite ones are not *)
Definition base_unbounded (e : Z) : val := ON (FN SMemo e).   (* roots, rationals, generators, test numbers with repeating digits *)
Definition base_finite (e : Z) : val := FN SMemo e.           (* NewFiniteNumber / NewNumberForTesting without repeating digits *)

Corollary never_finite_by_with_start e ss v' :
  apply_chain (base_unbounded e) (map OpWithStart ss) = Ok v' -> is_finite_type v' = false.
Proof.
  intros H. destruct (finite_iff_bounded _ (base_unbounded e) v' I H) as (_ & E). rewrite E. clear.
  induction ss; cbn; auto.
Qed.
Print Assumptions finite_iff_bounded.
Print Assumptions with_end_view.
