(* From the model's natural form (normalised radicand n/d, groups of base B = 10^p) to the properties'
   cross-multiplied form with the reported exponent; generic in p (2: square root, 3: cube root, 1: rational). *)
From Coq Require Import ZArith Lia.
Require Import C01Form.
Open Scope Z_scope.

Lemma powB p x : 0 <= p -> 0 <= x -> (10 ^ p) ^ x = 10 ^ (p * x).
Proof. intros. rewrite Z.pow_mul_r by lia. reflexivity. Qed.

Lemma powB_split B a b : 0 <= b <= a -> B ^ a = B ^ (a - b) * B ^ b.
Proof. intros H. rewrite <- Z.pow_add_r by lia. f_equal. lia. Qed.

Lemma cross_form_g p num den n d e k A :
  1 <= p -> 0 < den -> 0 <= k ->
  let B := 10 ^ p in
  ((0 <= e /\ n = num /\ d = den * B ^ e) \/ (e <= 0 /\ n = num * B ^ (- e) /\ d = den)) ->
  (A * d <= n * B ^ k <-> A * p10 (p * (e - k)) * den <= num * p10 (p * (k - e))) /\
  (n * B ^ k < A * d <-> num * p10 (p * (k - e)) < A * p10 (p * (e - k)) * den).
Proof.
  intros Hp Hden Hk B Hcase. unfold p10.
  assert (HB : 0 < B) by (apply Z.pow_pos_nonneg; lia).
  assert (Hpos : forall x, 0 <= x -> 0 < B ^ x) by (intros; apply Z.pow_pos_nonneg; lia).
  destruct Hcase as [(He & -> & ->)|(He & -> & ->)].
  - destruct (Z.le_gt_cases k e) as [Hke|Hke].
    + rewrite (Z.max_r 0 (p * (e - k))) by nia. rewrite (Z.max_l 0 (p * (k - e))) by nia.
      rewrite Z.pow_0_r. unfold B at 1 2. fold B. rewrite <- (powB p (e - k)) by lia. fold B.
      rewrite (powB_split B e k) by lia.
      pose proof (Hpos k Hk) as Hpk.
      replace (A * (den * (B ^ (e - k) * B ^ k))) with ((A * B ^ (e - k) * den) * B ^ k) by ring.
      split.
      * rewrite <- Z.mul_le_mono_pos_r by lia. lia.
      * rewrite <- Z.mul_lt_mono_pos_r by lia. lia.
    + rewrite (Z.max_l 0 (p * (e - k))) by nia. rewrite (Z.max_r 0 (p * (k - e))) by nia.
      rewrite Z.pow_0_r. rewrite <- (powB p (k - e)) by lia. fold B.
      rewrite (powB_split B k e) by lia.
      pose proof (Hpos e He) as Hpe.
      replace (A * (den * B ^ e)) with ((A * 1 * den) * B ^ e) by ring.
      replace (num * (B ^ (k - e) * B ^ e)) with ((num * B ^ (k - e)) * B ^ e) by ring.
      split.
      * rewrite <- Z.mul_le_mono_pos_r by lia. lia.
      * rewrite <- Z.mul_lt_mono_pos_r by lia. lia.
  - rewrite (Z.max_l 0 (p * (e - k))) by nia. rewrite (Z.max_r 0 (p * (k - e))) by nia.
    rewrite Z.pow_0_r. rewrite <- (powB p (k - e)) by lia. fold B.
    replace (num * B ^ (- e) * B ^ k) with (num * B ^ (k - e)).
    2:{ rewrite <- Z.mul_assoc, <- Z.pow_add_r by lia. f_equal. f_equal. lia. }
    split; split; intros H; nia.
Qed.

Lemma cross_form_eq p num den n d e k A :
  1 <= p -> 0 < den -> 0 <= k ->
  let B := 10 ^ p in
  ((0 <= e /\ n = num /\ d = den * B ^ e) \/ (e <= 0 /\ n = num * B ^ (- e) /\ d = den)) ->
  (A * d = n * B ^ k <-> A * p10 (p * (e - k)) * den = num * p10 (p * (k - e))).
Proof.
  intros Hp Hden Hk B Hcase. unfold p10.
  assert (HB : 0 < B) by (apply Z.pow_pos_nonneg; lia).
  assert (Hpos : forall x, 0 <= x -> 0 < B ^ x) by (intros; apply Z.pow_pos_nonneg; lia).
  destruct Hcase as [(He & -> & ->)|(He & -> & ->)].
  - destruct (Z.le_gt_cases k e) as [Hke|Hke].
    + rewrite (Z.max_r 0 (p * (e - k))) by nia. rewrite (Z.max_l 0 (p * (k - e))) by nia.
      rewrite Z.pow_0_r. rewrite <- (powB p (e - k)) by lia. fold B.
      rewrite (powB_split B e k) by lia.
      pose proof (Hpos k Hk) as Hpk.
      replace (A * (den * (B ^ (e - k) * B ^ k))) with ((A * B ^ (e - k) * den) * B ^ k) by ring.
      rewrite Z.mul_cancel_r by lia. lia.
    + rewrite (Z.max_l 0 (p * (e - k))) by nia. rewrite (Z.max_r 0 (p * (k - e))) by nia.
      rewrite Z.pow_0_r. rewrite <- (powB p (k - e)) by lia. fold B.
      rewrite (powB_split B k e) by lia.
      pose proof (Hpos e He) as Hpe.
      replace (A * (den * B ^ e)) with ((A * 1 * den) * B ^ e) by ring.
      replace (num * (B ^ (k - e) * B ^ e)) with ((num * B ^ (k - e)) * B ^ e) by ring.
      rewrite Z.mul_cancel_r by lia. lia.
  - rewrite (Z.max_l 0 (p * (e - k))) by nia. rewrite (Z.max_r 0 (p * (k - e))) by nia.
    rewrite Z.pow_0_r. rewrite <- (powB p (k - e)) by lia. fold B.
    replace (num * B ^ (- e) * B ^ k) with (num * B ^ (k - e)).
    2:{ rewrite <- Z.mul_assoc, <- Z.pow_add_r by lia. f_equal. f_equal. lia. }
    split; intros H; nia.
Qed.
