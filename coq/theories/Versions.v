(* C18: where the three versions' models differ, and that the differences are not observable on the common API. *)
From Coq Require Import ZArith List Lia Bool.
Require Import RunList Compute Views HistModel PrnModel PrintModel Bufio PrintOps PrintOpsProof.
Import ListNotations.
Open Scope Z_scope.

(* printing: v3 row starters and the v1/v2 literals emit the same bytes for the same options
   (v1/v2 = leading decimal on, no trailing line feed) *)
Theorem print_versions_agree o maxd shown :
  bytes_of (fprint_ops true o maxd shown) = bytes_of (fprint_ops false o maxd shown).
Proof. rewrite !fprint_ops_bytes. reflexivity. Qed.

(* view histories: v1 and v2 answer alike as long as the v1-only operations (NumDigits and the int iterators) are not used *)
Definition common_op (o : hop) : bool :=
  match o with
  | HND _ => false
  | HNEW _ kind _ => (kind =? 0) || (kind =? 1)
  | _ => true
  end.

Lemma step_v1_v2 d st o : common_op o = true -> step 1 d st o = step 2 d st o.
Proof.
  destruct o; cbn [common_op]; intros H; try discriminate; try reflexivity.
  unfold step. apply orb_prop in H. destruct H as [H|H]; apply Z.eqb_eq in H; subst kind; reflexivity.
Qed.

Theorem histories_v1_v2 d : forall ops st, forallb common_op ops = true -> run_ops 1 d st ops = run_ops 2 d st ops.
Proof.
  induction ops as [|o r IH]; intros st H; cbn [run_ops]; auto.
  cbn [forallb] in H. apply andb_prop in H. destruct H as (H1 & H2).
  rewrite (step_v1_v2 d st o H1). destruct (step 2 d st o) as [st' ans]. rewrite (IH st' H2). reflexivity.
Qed.
