From Coq Require Import ZArith List Lia Bool Arith.
Import ListNotations.
Require Import KmpModel.

(* ---- index-based matching predicates (nat) ---- *)
Definition P (pat w : list Z) (k : nat) : Prop :=
  (k <= length w)%nat /\ (k <= length pat)%nat /\
  forall j, (j < k)%nat -> nth_error pat j = nth_error w (length w - k + j).

(* k is a proper border of pat[0..j) *)
Definition Bd (pat : list Z) (j k : nat) : Prop :=
  (k < j)%nat /\ (j <= length pat)%nat /\
  forall i, (i < k)%nat -> nth_error pat i = nth_error pat (j - k + i).

Definition MaxBd pat j b := Bd pat j b /\ forall k, Bd pat j k -> (k <= b)%nat.

Lemma P_zero pat w : P pat w 0.
Proof. unfold P. repeat split; try lia. Qed.

Lemma nth_error_snoc (w : list Z) c i :
  nth_error (w ++ [c]) i =
  if (i <? length w)%nat then nth_error w i else if (i =? length w)%nat then Some c else None.
Proof.
  destruct (Nat.ltb_spec i (length w)).
  - now rewrite nth_error_app1.
  - rewrite nth_error_app2 by lia. destruct (Nat.eqb_spec i (length w)).
    + subst. now rewrite Nat.sub_diag.
    + destruct (i - length w)%nat eqn:E; [lia|]. cbn. now destruct n0.
Qed.

Lemma nth_error_firstn_lt (l : list Z) n i : (i < n)%nat -> nth_error (firstn n l) i = nth_error l i.
Proof.
  revert l i. induction n; intros l i H; [lia|].
  destruct l; cbn; [now destruct i|]. destruct i; cbn; auto. apply IHn. lia.
Qed.

(* Lemma A: below a match k, matches are exactly the borders of pat[0..k) *)
Lemma P_below pat w k k' : P pat w k -> (k' < k)%nat -> (P pat w k' <-> Bd pat k k').
Proof.
  intros (Hw & Hp & Hk) Hlt. split.
  - intros (Hw' & Hp' & Hk'). repeat split; try lia.
    intros i Hi. rewrite Hk' by lia. rewrite Hk by lia. f_equal. lia.
  - intros (_ & _ & Hb). repeat split; try lia.
    intros j Hj. rewrite Hb by lia. rewrite Hk by lia. f_equal. lia.
Qed.

(* extension by one character *)
Lemma P_snoc pat w c k : P pat (w ++ [c]) (S k) <-> (P pat w k /\ nth_error pat k = Some c).
Proof.
  unfold P. rewrite app_length. cbn [length]. split.
  - intros (Hw & Hp & Hk). split; [repeat split; try lia|].
    + intros j Hj. specialize (Hk j ltac:(lia)). rewrite nth_error_snoc in Hk.
      destruct (Nat.ltb_spec (length w + 1 - S k + j) (length w)); [|lia].
      rewrite Hk. f_equal. lia.
    + specialize (Hk k ltac:(lia)). rewrite nth_error_snoc in Hk.
      destruct (Nat.ltb_spec (length w + 1 - S k + k) (length w)); [lia|].
      destruct (Nat.eqb_spec (length w + 1 - S k + k) (length w)); [auto|lia].
  - intros ((Hw & Hp & Hk) & Hc). repeat split; try lia.
    + apply nth_error_Some. rewrite Hc. discriminate.
    + intros j Hj. rewrite nth_error_snoc.
      destruct (Nat.ltb_spec (length w + 1 - S k + j) (length w)).
      * rewrite Hk by lia. f_equal. lia.
      * destruct (Nat.eqb_spec (length w + 1 - S k + j) (length w)); [|lia].
        assert (j = k) by lia. subst. auto.
Qed.
