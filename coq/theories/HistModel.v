(* Executable reference semantics of read histories over one Number and the views derived from it
   (C04, C07, C17): views are the representations of Views.v (with the methods as coded), every read
   path answers from the digit string D restricted to the view's interval.  The concrete read paths
   (At, Scan, pull iterators against the memoizer's wait) are related to this semantics in LayerC.v. *)
From Coq Require Import ZArith List Lia Bool.
Require Import RunList Compute Views.
Import ListNotations.
Open Scope Z_scope.

(* digit string: fixed digits followed by a repeating block forever (finite when the block is empty) *)
Record dsrc := mkD { d_fixed : list Z; d_rep : list Z }.

Definition dlen (d : dsrc) : option Z :=
  match d_rep d with [] => Some (Z.of_nat (length (d_fixed d))) | _ => None end.

Definition digit_at (d : dsrc) (p : Z) : option Z :=
  if p <? 0 then None
  else let nf := Z.of_nat (length (d_fixed d)) in
       if p <? nf then nth_error (d_fixed d) (Z.to_nat p)
       else match d_rep d with
            | [] => None
            | _ => nth_error (d_rep d) (Z.to_nat ((p - nf) mod Z.of_nat (length (d_rep d))))
            end.

Definition in_range (x : Z) : bool := (0 <=? x) && (x <=? 9).

(* longest prefix of the raw stream raw ++ rep^omega whose values are all within 0..9 (what NewNumber exposes) *)
Fixpoint take_valid (l : list Z) : list Z * bool :=      (* (prefix, hit an invalid value) *)
  match l with
  | [] => ([], false)
  | x :: r => if in_range x then let '(p, b) := take_valid r in (x :: p, b) else ([], true)
  end.

Definition valid_prefix (raw rep : list Z) : dsrc :=
  let '(p, bad) := take_valid raw in
  if bad then mkD p []
  else let '(q, bad2) := take_valid rep in
       if bad2 then mkD (p ++ q) [] else mkD p q.

Definition omin2 (a b : option Z) : option Z :=
  match a, b with
  | None, x | x, None => x
  | Some x, Some y => Some (Z.min x y)
  end.

Definition eff_lo (v : val) : Z := Z.max 0 (lo v).
Definition eff_hi (d : dsrc) (v : val) : option Z := omin2 (hi v) (dlen d).

Definition below (p : Z) (h : option Z) : bool := match h with None => true | Some x => p <? x end.

(* first k items of the ascending listing from position p *)
Fixpoint fwd_list (d : dsrc) (h : option Z) (p : Z) (k : nat) : list (Z * Z) :=
  match k with
  | O => []
  | S k' => if below p h then
              match digit_at d p with Some x => (p, x) :: fwd_list d h (p + 1) k' | None => [] end
            else []
  end.

(* first k items of the descending listing from position p down to l *)
Fixpoint bwd_list (d : dsrc) (l : Z) (p : Z) (k : nat) : list (Z * Z) :=
  match k with
  | O => []
  | S k' => if l <=? p then
              match digit_at d p with Some x => (p, x) :: bwd_list d l (p - 1) k' | None => [] end
            else []
  end.

Definition span (d : dsrc) (v : val) : option nat :=      (* number of positions of a view with a known end *)
  match eff_hi d v with Some h => Some (Z.to_nat (h - eff_lo v)) | None => None end.

(* ---- values and their dynamic types ---- *)
Definition tag_of (v : val) : Z := match v with FN _ _ => 0 | MWS _ _ => 1 | ON _ => 2 | OS _ => 3 end.
Definition is_number (v : val) : bool := match v with FN _ _ | ON _ => true | _ => false end.
Definition is_ptr_finite_number (v : val) : bool := match v with FN _ _ => true | _ => false end.
Definition exponent_of (v : val) : Z := match v with FN _ e | ON (FN _ e) => e | _ => 0 end.
Definition is_zero (v : val) : bool := match v with FN SNil _ | ON (FN SNil _) => true | _ => false end.

Definition b2z (b : bool) : Z := if b then 1 else 0.
Definition NA : Z := -9.

Inductive hop :=
| HWS (i : nat) (a : Z) | HWE (i : nat) (a : Z) | HFWS (i : nat) (a : Z) | HWSG (i : nat) (a : Z)
| HAT (i : nat) (p : Z)
| HNEW (i : nat) (kind : Z) (p : Z)          (* kind: 0 F, 1 B, 2 I1, 3 R1, 4 IA1 *)
| HNX (id : nat)
| HRUN (i : nat) (kind : Z) (k : Z)          (* kind: 0 All, 1 Values, 2 Backward *)
| HRR (i : nat) (kind : Z) (k1 k2 : Z)       (* the SAME push iterator value run twice: stopped after k1 items, then run again up to k2 *)
| HSTR (i : nat) | HND (i : nat).

(* a pull iterator at the level of the specification: next position, direction, fixed bound, positions reported? *)
Record iter := mkIt { it_next : Z; it_fwd : bool; it_hi : option Z; it_lo : Z; it_pos : bool }.

Record hstate := mkH { h_views : list val; h_its : list (option iter) }.

Definition describe (ver : Z) (v : val) : list Z :=
  if ver =? 3 then [tag_of v; b2z (is_finite_type v); b2z (is_ptr_finite_number v); b2z (is_number v); exponent_of v; b2z (is_zero v)]
  else [-1; 0; 0; 0; exponent_of v; b2z (is_zero v)].

Definition flat (l : list (Z * Z)) (with_pos : bool) : list Z :=
  flat_map (fun pv => [if with_pos then fst pv else -2; snd pv]) l.

(* one run of a push iterator of a view (kind 0 All, 1 Values, 2 Backward), stopped after k items (k < 0: all) *)
Definition run_answer (ver : Z) (d : dsrc) (v : val) (kind k : Z) : list Z :=
  let n := if k <? 0 then match span d v with Some s => s | None => O end else Z.to_nat k in
  if kind =? 2 then
    if (ver =? 3) && negb (is_finite_type v) then [NA]
    else match eff_hi d v with
         | Some h => let l := bwd_list d (eff_lo v) (h - 1) n in Z.of_nat (length l) :: flat l true
         | None => [NA]
         end
  else let l := fwd_list d (eff_hi d v) (eff_lo v) n in
       Z.of_nat (length l) :: flat l (kind =? 0).

Definition step (ver : Z) (d : dsrc) (st : hstate) (o : hop) : hstate * list Z :=
  let vs := h_views st in
  let view i := nth i vs zero in
  let push v ans := (mkH (vs ++ [v]) (h_its st), ans) in
  match o with
  | HWS i a => let v := with_start (view i) a in push v (describe ver v)
  | HWE i a => let v := with_end (view i) a in push v (describe ver v)
  | HFWS i a =>
    if (ver =? 3) && negb (is_finite_type (view i)) then push (view i) [NA]
    else let v := with_start (view i) a in push v (describe ver v)
  | HWSG i a =>
    match with_significant (view i) a with
    | Ok v => push v (describe ver v)
    | _ => push (view i) [NA]
    end
  | HAT i p =>
    let v := view i in
    if is_number v then
      (st, [if (eff_lo v <=? p) && below p (eff_hi d v) then match digit_at d p with Some x => x | None => -1 end else -1])
    else (st, [NA])
  | HNEW i kind p =>
    let v := view i in
    let mk it ans := (mkH vs (h_its st ++ [it]), ans) in
    if kind =? 0 then mk (Some (mkIt (eff_lo v) true (eff_hi d v) 0 true)) [0]
    else if kind =? 1 then
      if (ver =? 3) && negb (is_finite_type v) then mk None [NA]
      else match eff_hi d v with
           | Some h => mk (Some (mkIt (h - 1) false None (eff_lo v) true)) [0]
           | None => mk None [NA]           (* not generated: backward over an endless view does not return *)
           end
    else if (ver =? 1) && is_number v then
      if kind =? 2 then mk (Some (mkIt 0 true (eff_hi d v) 0 false)) [0]
      else if kind =? 3 then
        match eff_hi d v with
        | Some h => mk (Some (mkIt (h - 1) false None 0 false)) [0]
        | None => mk None [NA]
        end
      else mk (Some (mkIt (Z.max 0 p) true (eff_hi d v) 0 false)) [0]
    else mk None [NA]
  | HNX id =>
    match nth id (h_its st) None with
    | None => (st, [NA])
    | Some it =>
      let alive := if it_fwd it then below (it_next it) (it_hi it) else it_lo it <=? it_next it in
      match (if alive then digit_at d (it_next it) else None) with
      | Some x =>
        let it' := mkIt (if it_fwd it then it_next it + 1 else it_next it - 1) (it_fwd it) (it_hi it) (it_lo it) (it_pos it) in
        (mkH vs (firstn id (h_its st) ++ [Some it'] ++ skipn (S id) (h_its st)),
         [if it_pos it then it_next it else -2; x])
      | None => (st, [-1; -1])
      end
    end
  | HRUN i kind k => (st, run_answer ver d (view i) kind k)
  | HRR i kind k1 k2 => (st, run_answer ver d (view i) kind k1 ++ run_answer ver d (view i) kind k2)
  | HSTR i =>
    let v := view i in
    if (ver =? 3) && negb (is_finite_type v) then (st, [NA])
    else match span d v with
         | Some s => let l := fwd_list d (eff_hi d v) (eff_lo v) s in (st, Z.of_nat (length l) :: map snd l)
         | None => (st, [NA])
         end
  | HND i =>
    let v := view i in
    if (ver =? 1) && is_number v then
      match eff_hi d v with Some h => (st, [Z.max 0 h]) | None => (st, [NA]) end
    else (st, [NA])
  end.

Fixpoint run_ops (ver : Z) (d : dsrc) (st : hstate) (ops : list hop) : list Z :=
  match ops with
  | [] => []
  | o :: r => let '(st', ans) := step ver d st o in ans ++ run_ops ver d st' r
  end.

(* the base Number of a history.  kind 0: test number (fixed, rep), finite type in v3 when rep = [];
   kind 1: generator-backed (raw stream), opaque in v3.  v1/v2 Numbers are always plain. *)
(* kinds 2, 3, 4: NewNumberFromBigRat / SqrtBigRat / CubeRootBigRat of raw = [num; den]; only the first 60
   digits are modelled (the histories generated for these bases stay below position 50 unless the number ends) *)
Definition root_base (ver kind : Z) (raw : list Z) : val * dsrc :=
  match raw with
  | [num; den] =>
    match ctor (if kind =? 2 then KRat else if kind =? 3 then KSqrt else KCube) num den 60 with
    | RNum e ds _ => (if ver =? 3 then ON (FN SMemo e) else FN SMemo e, mkD ds [])
    | _ => (zero, mkD [] [])
    end
  | _ => (zero, mkD [] [])
  end.

Definition hist_base (ver kind : Z) (raw rep : list Z) (e : Z) : val * dsrc :=
  if 2 <=? kind then root_base ver kind raw else
  let d := if kind =? 0 then mkD raw rep else valid_prefix raw rep in
  let empty := match d_fixed d, d_rep d with [], [] => true | _, _ => false end in
  let lead0 := match d_fixed d ++ d_rep d with 0 :: _ => true | _ => false end in
  (* v1/v2 have no public constructor taking a digit source: the verif hook wraps the source as it is *)
  if (ver =? 3) && (empty || ((kind =? 1) && lead0)) then (zero, mkD [] [])
  else if (ver =? 3) && negb ((kind =? 0) && match rep with [] => true | _ => false end)
       then (ON (FN SMemo e), d)
       else (FN SMemo e, d).

Definition run_history (ver kind : Z) (raw rep : list Z) (e : Z) (ops : list hop) : list Z :=
  let '(v, d) := hist_base ver kind raw rep e in
  run_ops ver d (mkH [v] []) ops.

(* ---- C13: NewNumberForTesting / NewFiniteNumber argument check, NewNumber(g) ---- *)
(* 0 = a Number, 1 = the zero number, 2 = error *)
Definition test_number_status (fixed rep : list Z) : Z :=
  match fixed, rep with
  | [], [] => 1
  | _, _ =>
    if negb (forallb in_range (fixed ++ rep)) then 2
    else match fixed ++ rep with 0 :: _ => 2 | _ => 0 end
  end.
