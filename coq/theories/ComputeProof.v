(* Proofs about the constructor-level model of Compute.v: C01, C02, C03, C13 (rational part). *)
From Coq Require Import ZArith Lia List Bool.
Require Import Sqrt Cube Norm SqrtAll CubeAll C01Form RunList Compute CrossForm.
Import ListNotations.
Open Scope Z_scope.

Lemma val_firstn_one (d0 : Z) r : val (firstn 1 (d0 :: r)) = d0.
Proof. cbn. lia. Qed.

Lemma firstn_len_all {A} (l : list A) : firstn (length l) l = l.
Proof. apply firstn_all. Qed.

(* ---- square root ---- *)
Definition sqE (n d : Z) (c : nat) (P : Z) : Prop :=
  (n * 100 ^ Z.of_nat c) mod d = 0 /\ P * P = (n * 100 ^ Z.of_nat c) / d.

Lemma sqE_iff n d c P : 0 < d -> sqE n d c P <-> P * P * d = n * 100 ^ Z.of_nat c.
Proof.
  intros Hd. unfold sqE. set (N := n * 100 ^ Z.of_nat c).
  pose proof (Z.div_mod N d ltac:(lia)). pose proof (Z.mod_pos_bound N d Hd).
  split.
  - intros (H1 & H2). nia.
  - intros H2. assert (N mod d = 0).
    { rewrite <- H2. apply Z.mod_mul. lia. }
    split; auto. nia.
Qed.

Theorem ctor_sqrt_spec num den k : 0 < num -> 0 < den ->
  exists e ds ended, ctor KSqrt num den k = RNum e ds ended /\ ctor_spec KSqrt num den k e ds ended.
Proof.
  intros Hnum Hden. unfold ctor.
  destruct (Z.leb_spec den 0); [lia|]. destruct (Z.ltb_spec num 0); [lia|]. destruct (Z.eqb_spec num 0); [lia|].
  destruct (norm_fuel_ok num den Hnum Hden) as (Hf1 & Hf2).
  destruct (norm_spec 100 (norm_fuel num den) num den ltac:(lia) Hnum Hden Hf1 Hf2)
    as (n0 & d0 & e & Hg & Hn0 & Hd0 & Hlt & Hle & Hcase).
  cbn [base_of]. rewrite Hg.
  destruct (run_list_spec _ (gen_step d0) (RInv n0 d0) (sqE n0 d0)
              (fun c P st HI => gen_step_inv n0 d0 c P st Hd0 ltac:(lia) HI) k 0%nat 0 (n0, 0, 1)
              (RInv_init n0 d0 Hd0 ltac:(lia)))
    as (ds & ended & st' & Hr & Hlen & Hfull & Hrng & Hpre & HnotE & Hend & _).
  rewrite Hr. cbn [option_map fst]. exists e, ds, ended. split; [reflexivity|].
  assert (Hcase' : (0 <= e /\ n0 = num /\ d0 = den * (10 ^ 2) ^ e) \/ (e <= 0 /\ n0 = num * (10 ^ 2) ^ (- e) /\ d0 = den))
    by exact Hcase.
  constructor; auto.
  - intros dg r ->. destruct (Hpre 1%nat ltac:(cbn; lia)) as (s & Hs). cbn [Nat.add] in Hs.
    change (val_from 0 (firstn 1 (dg :: r))) with (val (firstn 1 (dg :: r))) in Hs. rewrite val_firstn_one in Hs.
    apply (first_digit_positive n0 d0 dg s); auto; lia.
  - intros j Hj. destruct (Hpre j Hj) as (s & Hs). cbn [Nat.add] in Hs.
    pose proof (sqrt_truncated n0 d0 j _ s Hd0 ltac:(lia) Hs) as (T1 & T2).
    unfold trunc_ok. cbn [power_of pw]. fold (val (firstn j ds)) in T1, T2. set (M := val (firstn j ds)) in *.
    destruct (cross_form_g 2 num den n0 d0 e (Z.of_nat j) (M * M) ltac:(lia) Hden ltac:(lia) Hcase') as (C1 & _).
    destruct (cross_form_g 2 num den n0 d0 e (Z.of_nat j) ((M + 1) * (M + 1)) ltac:(lia) Hden ltac:(lia) Hcase') as (_ & C2).
    change (10 ^ 2) with 100 in C1, C2. split; [apply C1; exact T1|apply C2; exact T2].
  - intros j Hj Hex. apply (HnotE j Hj). cbn [Nat.add]. apply sqE_iff; auto.
    unfold exact_at in Hex. cbn [power_of pw] in Hex. fold (val (firstn j ds)).
    apply (cross_form_eq 2 num den n0 d0 e (Z.of_nat j) _ ltac:(lia) Hden ltac:(lia) Hcase') in Hex.
    change (10 ^ 2) with 100 in Hex. exact Hex.
  - intros He. specialize (Hend He). cbn [Nat.add] in Hend. apply sqE_iff in Hend; auto.
    unfold exact_at. cbn [power_of pw]. fold (val ds) in Hend.
    apply (cross_form_eq 2 num den n0 d0 e (Z.of_nat (length ds)) _ ltac:(lia) Hden ltac:(lia) Hcase').
    change (10 ^ 2) with 100. exact Hend.
Qed.

(* ---- cube root ---- *)
Definition cbE (n d : Z) (c : nat) (P : Z) : Prop :=
  (n * 1000 ^ Z.of_nat c) mod d = 0 /\ P ^ 3 = (n * 1000 ^ Z.of_nat c) / d.

Lemma cbE_iff n d c P : 0 < d -> cbE n d c P <-> P ^ 3 * d = n * 1000 ^ Z.of_nat c.
Proof.
  intros Hd. unfold cbE. set (N := n * 1000 ^ Z.of_nat c). set (Q := P ^ 3).
  pose proof (Z.div_mod N d ltac:(lia)). pose proof (Z.mod_pos_bound N d Hd).
  split.
  - intros (H1 & H2). nia.
  - intros H2. assert (N mod d = 0).
    { rewrite <- H2. apply Z.mod_mul. lia. }
    split; auto. nia.
Qed.

Lemma first_digit_positive3 n d P st : 0 < d -> 0 <= n -> d <= n * 1000 -> CInv n d 1 P st -> 1 <= P.
Proof.
  intros Hd Hn Hle HI. pose proof (cbrt_truncated n d 1 P st Hd Hn HI) as (_ & T2).
  change (1000 ^ Z.of_nat 1) with 1000 in T2.
  destruct st as [[[num rem] incr] incr2]. destruct HI as (_ & _ & _ & _ & _ & HP).
  destruct (Z.le_gt_cases 1 P); auto. assert (P = 0) by lia. subst P. replace ((0 + 1) ^ 3) with 1 in T2 by reflexivity. lia.
Qed.

Theorem ctor_cube_spec num den k : 0 < num -> 0 < den ->
  exists e ds ended, ctor KCube num den k = RNum e ds ended /\ ctor_spec KCube num den k e ds ended.
Proof.
  intros Hnum Hden. unfold ctor.
  destruct (Z.leb_spec den 0); [lia|]. destruct (Z.ltb_spec num 0); [lia|]. destruct (Z.eqb_spec num 0); [lia|].
  destruct (norm_fuel_ok num den Hnum Hden) as (Hf1 & Hf2).
  destruct (norm_spec 1000 (norm_fuel num den) num den ltac:(lia) Hnum Hden Hf1 Hf2)
    as (n0 & d0 & e & Hg & Hn0 & Hd0 & Hlt & Hle & Hcase).
  cbn [base_of]. rewrite Hg.
  destruct (run_list_spec _ (cgen_step d0) (CInv n0 d0) (cbE n0 d0)
              (fun c P st HI => cgen_step_inv n0 d0 c P st Hd0 ltac:(lia) HI) k 0%nat 0 (n0, 0, 1, 6)
              (CInv_init n0 d0 Hd0 ltac:(lia)))
    as (ds & ended & st' & Hr & Hlen & Hfull & Hrng & Hpre & HnotE & Hend & _).
  rewrite Hr. cbn [option_map fst]. exists e, ds, ended. split; [reflexivity|].
  assert (Hcase' : (0 <= e /\ n0 = num /\ d0 = den * (10 ^ 3) ^ e) \/ (e <= 0 /\ n0 = num * (10 ^ 3) ^ (- e) /\ d0 = den))
    by exact Hcase.
  constructor; auto.
  - intros dg r ->. destruct (Hpre 1%nat ltac:(cbn; lia)) as (s & Hs). cbn [Nat.add] in Hs.
    change (val_from 0 (firstn 1 (dg :: r))) with (val (firstn 1 (dg :: r))) in Hs. rewrite val_firstn_one in Hs.
    apply (first_digit_positive3 n0 d0 dg s); auto; lia.
  - intros j Hj. destruct (Hpre j Hj) as (s & Hs). cbn [Nat.add] in Hs.
    pose proof (cbrt_truncated n0 d0 j _ s Hd0 ltac:(lia) Hs) as (T1 & T2).
    unfold trunc_ok. cbn [power_of pw]. fold (val (firstn j ds)) in T1, T2. set (M := val (firstn j ds)) in *.
    destruct (cross_form_g 3 num den n0 d0 e (Z.of_nat j) (M ^ 3) ltac:(lia) Hden ltac:(lia) Hcase') as (C1 & _).
    destruct (cross_form_g 3 num den n0 d0 e (Z.of_nat j) ((M + 1) ^ 3) ltac:(lia) Hden ltac:(lia) Hcase') as (_ & C2).
    change (10 ^ 3) with 1000 in C1, C2. split; [apply C1; exact T1|apply C2; exact T2].
  - intros j Hj Hex. apply (HnotE j Hj). cbn [Nat.add]. apply cbE_iff; auto.
    unfold exact_at in Hex. cbn [power_of pw] in Hex. fold (val (firstn j ds)).
    apply (cross_form_eq 3 num den n0 d0 e (Z.of_nat j) _ ltac:(lia) Hden ltac:(lia) Hcase') in Hex.
    change (10 ^ 3) with 1000 in Hex. exact Hex.
  - intros He. specialize (Hend He). cbn [Nat.add] in Hend. apply cbE_iff in Hend; auto.
    unfold exact_at. cbn [power_of pw]. fold (val ds) in Hend.
    apply (cross_form_eq 3 num den n0 d0 e (Z.of_nat (length ds)) _ ltac:(lia) Hden ltac:(lia) Hcase').
    change (10 ^ 3) with 1000. exact Hend.
Qed.

(* ---- rational (NewNumberFromBigRat): long division at base 10 ---- *)
Definition RatInv (n d : Z) (c : nat) (P : Z) (num : Z) : Prop :=
  num = (n * 10 ^ Z.of_nat c) mod d /\ P = (n * 10 ^ Z.of_nat c) / d.
Definition ratE (n d : Z) (c : nat) (P : Z) : Prop := (n * 10 ^ Z.of_nat c) mod d = 0.

Lemma X_succ10 n d c : 0 < d ->
  let X := (n * 10 ^ Z.of_nat c) / d in
  let r := (n * 10 ^ Z.of_nat c) mod d in
  (n * 10 ^ Z.of_nat (S c)) / d = X * 10 + (r * 10) / d /\
  (n * 10 ^ Z.of_nat (S c)) mod d = (r * 10) mod d.
Proof.
  intros Hd X r. rewrite Nat2Z.inj_succ, Z.pow_succ_r by lia.
  set (p := 10 ^ Z.of_nat c) in *.
  assert (E : n * (10 * p) = (X * 10) * d + r * 10).
  { pose proof (Z.div_mod (n * p) d ltac:(lia)). subst X r. nia. }
  rewrite E. split.
  - rewrite Z.div_add_l by lia. reflexivity.
  - rewrite Z.add_comm, Z.mod_add by lia. reflexivity.
Qed.

Lemma rat_step_inv n d c P num : 0 < d -> RatInv n d c P num ->
  exists dg st', rat_step d num = Some (dg, st') /\
    ((dg = -1 /\ ratE n d c P) \/ (0 <= dg <= 9 /\ RatInv n d (S c) (10 * P + dg) st' /\ ~ ratE n d c P)).
Proof.
  intros Hd (Hnum & HP). unfold rat_step, next_group.
  pose proof (Z.mod_pos_bound (n * 10 ^ Z.of_nat c) d Hd) as Hb. rewrite <- Hnum in Hb.
  destruct (Z.eqb_spec num 0) as [Hz|Hnz].
  - exists (-1), num. split; [reflexivity|]. left. split; auto. unfold ratE. lia.
  - exists (num * 10 / d), ((num * 10) mod d). split; [reflexivity|]. right.
    destruct (X_succ10 n d c Hd) as (HX & HM). cbn zeta in HX, HM. rewrite <- Hnum in HX, HM. rewrite <- HP in HX.
    split.
    + split; [apply Z.div_pos; lia|]. assert (num * 10 / d < 10); [apply Z.div_lt_upper_bound; lia|lia].
    + split; [|unfold ratE; lia]. unfold RatInv. rewrite HX, HM. split; [reflexivity|lia].
Qed.

Lemma RatInv_init n d : 0 < d -> 0 <= n < d -> RatInv n d 0 0 n.
Proof. intros Hd Hn. unfold RatInv. cbn. rewrite Z.mul_1_r, Z.mod_small, Z.div_small by lia. lia. Qed.

Lemma rat_truncated n d c P num : 0 < d -> RatInv n d c P num ->
  P * d <= n * 10 ^ Z.of_nat c < (P + 1) * d.
Proof.
  intros Hd (_ & ->). set (N := n * 10 ^ Z.of_nat c).
  pose proof (Z.div_mod N d ltac:(lia)). pose proof (Z.mod_pos_bound N d Hd). nia.
Qed.

Lemma ratE_iff n d c P num : 0 < d -> RatInv n d c P num -> (ratE n d c P <-> P * d = n * 10 ^ Z.of_nat c).
Proof.
  intros Hd (_ & ->). unfold ratE. set (N := n * 10 ^ Z.of_nat c).
  pose proof (Z.div_mod N d ltac:(lia)). pose proof (Z.mod_pos_bound N d Hd). split; intros; nia.
Qed.

Theorem ctor_rat_spec num den k : 0 < num -> 0 < den ->
  exists e ds ended, ctor KRat num den k = RNum e ds ended /\ ctor_spec KRat num den k e ds ended.
Proof.
  intros Hnum Hden. unfold ctor.
  destruct (Z.leb_spec den 0); [lia|]. destruct (Z.ltb_spec num 0); [lia|]. destruct (Z.eqb_spec num 0); [lia|].
  destruct (norm_fuel_ok num den Hnum Hden) as (Hf1 & Hf2).
  destruct (norm_spec 10 (norm_fuel num den) num den ltac:(lia) Hnum Hden Hf1 Hf2)
    as (n0 & d0 & e & Hg & Hn0 & Hd0 & Hlt & Hle & Hcase).
  cbn [base_of]. rewrite Hg.
  destruct (run_list_spec _ (rat_step d0) (RatInv n0 d0) (ratE n0 d0)
              (fun c P st HI => rat_step_inv n0 d0 c P st Hd0 HI) k 0%nat 0 n0
              (RatInv_init n0 d0 Hd0 ltac:(lia)))
    as (ds & ended & st' & Hr & Hlen & Hfull & Hrng & Hpre & HnotE & Hend & Hfin).
  rewrite Hr. cbn [option_map fst]. exists e, ds, ended. split; [reflexivity|].
  assert (Hcase' : (0 <= e /\ n0 = num /\ d0 = den * (10 ^ 1) ^ e) \/ (e <= 0 /\ n0 = num * (10 ^ 1) ^ (- e) /\ d0 = den))
    by exact Hcase.
  constructor; auto.
  - intros dg r ->. destruct (Hpre 1%nat ltac:(cbn; lia)) as (s & Hs). cbn [Nat.add] in Hs.
    change (val_from 0 (firstn 1 (dg :: r))) with (val (firstn 1 (dg :: r))) in Hs. rewrite val_firstn_one in Hs.
    pose proof (rat_truncated n0 d0 1 dg s Hd0 Hs) as (_ & T2). change (10 ^ Z.of_nat 1) with 10 in T2. nia.
  - intros j Hj. destruct (Hpre j Hj) as (s & Hs). cbn [Nat.add] in Hs.
    pose proof (rat_truncated n0 d0 j _ s Hd0 Hs) as (T1 & T2).
    unfold trunc_ok. cbn [power_of pw]. fold (val (firstn j ds)) in T1, T2. set (M := val (firstn j ds)) in *.
    destruct (cross_form_g 1 num den n0 d0 e (Z.of_nat j) M ltac:(lia) Hden ltac:(lia) Hcase') as (C1 & _).
    destruct (cross_form_g 1 num den n0 d0 e (Z.of_nat j) (M + 1) ltac:(lia) Hden ltac:(lia) Hcase') as (_ & C2).
    change (10 ^ 1) with 10 in C1, C2. split; [apply C1; exact T1|apply C2; exact T2].
  - intros j Hj Hex. destruct (Hpre j ltac:(lia)) as (s & Hs). cbn [Nat.add] in Hs.
    apply (HnotE j Hj). cbn [Nat.add]. apply (ratE_iff n0 d0 j _ s Hd0 Hs).
    unfold exact_at in Hex. cbn [power_of pw] in Hex. fold (val (firstn j ds)).
    apply (cross_form_eq 1 num den n0 d0 e (Z.of_nat j) _ ltac:(lia) Hden ltac:(lia) Hcase') in Hex.
    change (10 ^ 1) with 10 in Hex. exact Hex.
  - intros He. specialize (Hend He). cbn [Nat.add] in Hend, Hfin. apply (ratE_iff n0 d0 _ _ st' Hd0 Hfin) in Hend.
    unfold exact_at. cbn [power_of pw]. fold (val ds) in Hend.
    apply (cross_form_eq 1 num den n0 d0 e (Z.of_nat (length ds)) _ ltac:(lia) Hden ltac:(lia) Hcase').
    change (10 ^ 1) with 10. exact Hend.
Qed.

(* ---- consequences stated once for all kinds ---- *)
Lemma pw_shift k M : pw k (10 * M) = 10 ^ power_of k * pw k M.
Proof. destruct k; cbn [pw power_of]; ring. Qed.

Lemma power_of_pos k : 1 <= power_of k.
Proof. destruct k; cbn; lia. Qed.

(* if the first j+1 digits ending in 0 are exact, the first j digits already are *)
Lemma exact_at_shift k num den e j M : 0 < den ->
  exact_at k num den e (S j) (10 * M) -> exact_at k num den e j M.
Proof.
  intros Hden. unfold exact_at. cbn zeta. rewrite pw_shift. set (p := power_of k).
  pose proof (power_of_pos k) as Hp. fold p in Hp. set (A := pw k M). unfold p10.
  rewrite Nat2Z.inj_succ. set (jz := Z.of_nat j). assert (0 <= jz) by (unfold jz; lia).
  assert (Hpp : 0 < 10 ^ p) by (apply Z.pow_pos_nonneg; lia).
  destruct (Z.le_gt_cases (jz + 1) e) as [Hle|Hgt].
  - rewrite (Z.max_r 0 (p * (e - Z.succ jz))) by nia. rewrite (Z.max_l 0 (p * (Z.succ jz - e))) by nia.
    rewrite (Z.max_r 0 (p * (e - jz))) by nia. rewrite (Z.max_l 0 (p * (jz - e))) by nia.
    replace (p * (e - jz)) with (p + p * (e - Z.succ jz)) by lia.
    rewrite Z.pow_add_r by nia. intros H1. rewrite <- H1. ring.
  - rewrite (Z.max_l 0 (p * (e - Z.succ jz))) by nia. rewrite (Z.max_r 0 (p * (Z.succ jz - e))) by nia.
    rewrite (Z.max_l 0 (p * (e - jz))) by nia. rewrite (Z.max_r 0 (p * (jz - e))) by nia.
    replace (p * (Z.succ jz - e)) with (p + p * (jz - e)) by lia.
    rewrite Z.pow_add_r by nia. rewrite Z.pow_0_r. intros H1.
    apply (Z.mul_reg_l _ _ (10 ^ p)); [lia|]. rewrite <- Z.mul_assoc in H1. lia.
Qed.

Lemma val_snoc r dl : val (r ++ [dl]) = 10 * val r + dl.
Proof. unfold val. rewrite val_from_app. reflexivity. Qed.

Theorem ctor_last_digit k num den n e ds r dl : 0 < den ->
  ctor_spec k num den n e ds true -> ds = r ++ [dl] -> dl <> 0.
Proof.
  intros Hden S -> Hz. subst dl.
  pose proof (cs_end _ _ _ _ _ _ _ S eq_refl) as Hex.
  rewrite app_length in Hex. cbn [length] in Hex. rewrite Nat.add_1_r in Hex.
  rewrite val_snoc, Z.add_0_r in Hex. apply exact_at_shift in Hex; auto.
  apply (cs_notyet _ _ _ _ _ _ _ S (length r)).
  - rewrite app_length. cbn. lia.
  - rewrite firstn_app, Nat.sub_diag, firstn_all. cbn [firstn]. rewrite app_nil_r. exact Hex.
Qed.

(* the model never panics, runs out of fuel or yields zero on positive arguments; on zero it yields the zero number *)
Theorem ctor_total k num den n : 0 < num -> 0 < den ->
  exists e ds ended, ctor k num den n = RNum e ds ended /\ ctor_spec k num den n e ds ended.
Proof.
  destruct k; [apply ctor_sqrt_spec|apply ctor_cube_spec|apply ctor_rat_spec].
Qed.

Theorem ctor_zero k den n : 0 < den -> ctor k 0 den n = RZero.
Proof. intros H. unfold ctor. destruct (Z.leb_spec den 0); [lia|]. reflexivity. Qed.

Theorem ctor_panic_iff k num den n : ctor k num den n = RPanic <-> (den <= 0 \/ num < 0).
Proof.
  unfold ctor. destruct (Z.leb_spec den 0); [split; auto|].
  destruct (Z.ltb_spec num 0); [split; auto|].
  destruct (Z.eqb_spec num 0); [split; [discriminate|lia]|].
  destruct (ctor_total k num den n ltac:(lia) ltac:(lia)) as (e & ds & en & Hc & _).
  unfold ctor in Hc. destruct (Z.leb_spec den 0); [lia|]. destruct (Z.ltb_spec num 0); [lia|].
  destruct (Z.eqb_spec num 0); [lia|]. rewrite Hc. split; [discriminate|lia].
Qed.

(* infinite case: if no prefix length is ever exact, the sequence never ends and every position holds a digit *)
Theorem ctor_never_ends k num den n e ds ended : 
  ctor_spec k num den n e ds ended ->
  (forall L M, ~ exact_at k num den e L M) -> ended = false /\ length ds = n /\ Forall (fun d => 0 <= d <= 9) ds.
Proof.
  intros S Hno. destruct ended.
  - exfalso. apply (Hno _ _ (cs_end _ _ _ _ _ _ _ S eq_refl)).
  - split; auto. split; [apply (cs_full _ _ _ _ _ _ _ S eq_refl)|apply (cs_range _ _ _ _ _ _ _ S)].
Qed.

(* ---- the sequence ends after exactly n digits iff those n digits are exact (C03, both directions) ---- *)
Lemma option_map_fst_some {A B} (o : option (A * B)) a : option_map fst o = Some a -> exists b, o = Some (a, b).
Proof. destruct o as [[x y]|]; cbn; intros H; inversion H; subst; eauto. Qed.

Lemma rnum_of_opt e (o : option (list Z * bool)) ds :
  (o = Some (ds, true)) <-> match o with None => RFuel | Some (ds', en) => RNum e ds' en end = RNum e ds true.
Proof.
  destruct o as [[a b]|]; split; intros H; try discriminate; inversion H; subst; reflexivity.
Qed.

Theorem ctor_ends_iff_exact k num den n e ds : 0 < num -> 0 < den ->
  ctor k num den n = RNum e ds false ->
  (exact_at k num den e n (val ds) <-> ctor k num den (S n) = RNum e ds true).
Proof.
  intros Hnum Hden. unfold ctor.
  destruct (Z.leb_spec den 0); [lia|]. destruct (Z.ltb_spec num 0); [lia|]. destruct (Z.eqb_spec num 0); [lia|].
  destruct (norm_fuel_ok num den Hnum Hden) as (Hf1 & Hf2).
  destruct k.
  - destruct (norm_spec 100 (norm_fuel num den) num den ltac:(lia) Hnum Hden Hf1 Hf2)
      as (nn & dd & ee & Hg & Hn0 & Hd0 & Hlt & Hle & Hcase).
    cbn [base_of]. rewrite Hg.
    assert (Hcase' : (0 <= ee /\ nn = num /\ dd = den * (10 ^ 2) ^ ee) \/ (ee <= 0 /\ nn = num * (10 ^ 2) ^ (- ee) /\ dd = den))
      by exact Hcase.
    destruct (option_map fst (run_list (gen_step dd) n (nn, 0, 1))) as [[ds1 en1]|] eqn:Er; [|discriminate].
    intros Hres. inversion Hres; subst ee ds1 en1. clear Hres.
    apply option_map_fst_some in Er. destruct Er as (st' & Er).
    pose proof (run_list_end_iff _ (gen_step dd) (RInv nn dd) (sqE nn dd)
                  (fun c P st HI => gen_step_inv nn dd c P st Hd0 ltac:(lia) HI) n 0%nat 0 (nn, 0, 1) ds st'
                  (RInv_init nn dd Hd0 ltac:(lia)) Er) as Hiff.
    cbn [Nat.add] in Hiff. fold (val ds) in Hiff. rewrite sqE_iff in Hiff by auto.
    unfold exact_at. cbn [power_of pw].
    rewrite <- (cross_form_eq 2 num den nn dd e (Z.of_nat n) _ ltac:(lia) Hden ltac:(lia) Hcase').
    change (10 ^ 2) with 100. rewrite Hiff. apply rnum_of_opt.
  - destruct (norm_spec 1000 (norm_fuel num den) num den ltac:(lia) Hnum Hden Hf1 Hf2)
      as (nn & dd & ee & Hg & Hn0 & Hd0 & Hlt & Hle & Hcase).
    cbn [base_of]. rewrite Hg.
    assert (Hcase' : (0 <= ee /\ nn = num /\ dd = den * (10 ^ 3) ^ ee) \/ (ee <= 0 /\ nn = num * (10 ^ 3) ^ (- ee) /\ dd = den))
      by exact Hcase.
    destruct (option_map fst (run_list (cgen_step dd) n (nn, 0, 1, 6))) as [[ds1 en1]|] eqn:Er; [|discriminate].
    intros Hres. inversion Hres; subst ee ds1 en1. clear Hres.
    apply option_map_fst_some in Er. destruct Er as (st' & Er).
    pose proof (run_list_end_iff _ (cgen_step dd) (CInv nn dd) (cbE nn dd)
                  (fun c P st HI => cgen_step_inv nn dd c P st Hd0 ltac:(lia) HI) n 0%nat 0 (nn, 0, 1, 6) ds st'
                  (CInv_init nn dd Hd0 ltac:(lia)) Er) as Hiff.
    cbn [Nat.add] in Hiff. fold (val ds) in Hiff. rewrite cbE_iff in Hiff by auto.
    unfold exact_at. cbn [power_of pw].
    rewrite <- (cross_form_eq 3 num den nn dd e (Z.of_nat n) _ ltac:(lia) Hden ltac:(lia) Hcase').
    change (10 ^ 3) with 1000. rewrite Hiff. apply rnum_of_opt.
  - destruct (norm_spec 10 (norm_fuel num den) num den ltac:(lia) Hnum Hden Hf1 Hf2)
      as (nn & dd & ee & Hg & Hn0 & Hd0 & Hlt & Hle & Hcase).
    cbn [base_of]. rewrite Hg.
    assert (Hcase' : (0 <= ee /\ nn = num /\ dd = den * (10 ^ 1) ^ ee) \/ (ee <= 0 /\ nn = num * (10 ^ 1) ^ (- ee) /\ dd = den))
      by exact Hcase.
    destruct (option_map fst (run_list (rat_step dd) n nn)) as [[ds1 en1]|] eqn:Er; [|discriminate].
    intros Hres. inversion Hres; subst ee ds1 en1. clear Hres.
    apply option_map_fst_some in Er. destruct Er as (st' & Er).
    pose proof (run_list_end_iff _ (rat_step dd) (RatInv nn dd) (ratE nn dd)
                  (fun c P st HI => rat_step_inv nn dd c P st Hd0 HI) n 0%nat 0 nn ds st'
                  (RatInv_init nn dd Hd0 ltac:(lia)) Er) as Hiff.
    destruct (run_list_spec _ (rat_step dd) (RatInv nn dd) (ratE nn dd)
                  (fun c P st HI => rat_step_inv nn dd c P st Hd0 HI) n 0%nat 0 nn
                  (RatInv_init nn dd Hd0 ltac:(lia))) as (ds0 & en0 & st0 & Hr0 & _ & Hfull & _ & _ & _ & _ & Hfin).
    rewrite Er in Hr0. inversion Hr0; subst ds0 en0 st0. rewrite (Hfull eq_refl) in Hfin.
    cbn [Nat.add] in Hiff, Hfin. fold (val ds) in Hiff, Hfin. rewrite (ratE_iff nn dd n (val ds) st' Hd0 Hfin) in Hiff.
    unfold exact_at. cbn [power_of pw].
    rewrite <- (cross_form_eq 1 num den nn dd e (Z.of_nat n) _ ltac:(lia) Hden ltac:(lia) Hcase').
    change (10 ^ 1) with 10. rewrite Hiff. apply rnum_of_opt.
Qed.

(* ---- soundness of the boolean checker ---- *)
Lemma trunc_ok_b_iff k num den e j M : trunc_ok_b k num den e j M = true <-> trunc_ok k num den e j M.
Proof. unfold trunc_ok_b, trunc_ok. cbn zeta. rewrite andb_true_iff, Z.leb_le, Z.ltb_lt. tauto. Qed.

Lemma exact_at_b_iff k num den e j M : exact_at_b k num den e j M = true <-> exact_at k num den e j M.
Proof. unfold exact_at_b, exact_at. cbn zeta. apply Z.eqb_eq. Qed.

Lemma check_from_sound k num den e : forall ds j M, check_from k num den e j M ds = true ->
  Forall (fun d => 0 <= d <= 9) ds /\
  (forall i, (i <= length ds)%nat -> trunc_ok k num den e (j + i) (val_from M (firstn i ds))) /\
  (forall i, (i < length ds)%nat -> ~ exact_at k num den e (j + i) (val_from M (firstn i ds))).
Proof.
  induction ds as [|d r IH]; intros j M H; cbn [check_from] in H; apply andb_prop in H; destruct H as (Ht & H).
  - split; [constructor|]. split.
    + intros i Hi. cbn in Hi. assert (i = 0%nat) by lia. subst. rewrite Nat.add_0_r. cbn. now apply trunc_ok_b_iff.
    + intros i Hi. cbn in Hi. lia.
  - apply andb_prop in H. destruct H as (H & Hr). apply andb_prop in H. destruct H as (H & Hne).
    apply andb_prop in H. destruct H as (H0 & H9).
    destruct (IH (S j) (10 * M + d) Hr) as (F & T & N).
    split; [constructor; auto; lia|]. split.
    + intros [|i] Hi.
      * rewrite Nat.add_0_r. cbn. now apply trunc_ok_b_iff.
      * cbn [firstn val_from]. replace (j + S i)%nat with (S j + i)%nat by lia. apply T. cbn in Hi. lia.
    + intros [|i] Hi.
      * rewrite Nat.add_0_r. cbn. intros Hx. apply exact_at_b_iff in Hx. rewrite Hx in Hne. discriminate.
      * cbn [firstn val_from]. replace (j + S i)%nat with (S j + i)%nat by lia. apply N. cbn in Hi. lia.
Qed.

Theorem ctor_check_sound k num den n e ds ended :
  ctor_check k num den n e ds ended = true -> ctor_spec k num den n e ds ended.
Proof.
  unfold ctor_check. intros H.
  apply andb_prop in H. destruct H as (H & Hend). apply andb_prop in H. destruct H as (H & Hchk).
  apply andb_prop in H. destruct H as (H & Hfirst). apply andb_prop in H. destruct H as (Hlen & Hfull).
  destruct (check_from_sound k num den e ds 0%nat 0 Hchk) as (F & T & N).
  constructor.
  - apply Nat.leb_le. exact Hlen.
  - intros ->. cbn in Hfull. apply Nat.eqb_eq. exact Hfull.
  - exact F.
  - intros d0 r ->. cbn in Hfirst. lia.
  - intros j Hj. apply (T j Hj).
  - intros j Hj. apply (N j Hj).
  - intros ->. cbn in Hend. now apply exact_at_b_iff.
Qed.

(* the checker accepts the model's own output (so a SPECFAIL can only come from the implementation) *)
Example ctor_check_accepts :
  match ctor KCube 1729 1000 12 with RNum e ds en => ctor_check KCube 1729 1000 12 e ds en | _ => false end = true.
Proof. vm_compute. reflexivity. Qed.

(* ---- the incremental checker computes the same boolean ---- *)
Lemma p10_step_down p x : 1 <= p -> 1 <= x -> p10 (p * x) / 10 ^ p = p10 (p * (x - 1)).
Proof.
  intros Hp Hx. unfold p10. rewrite !Z.max_r by nia.
  replace (p * x) with (p * (x - 1) + p) by lia. rewrite Z.pow_add_r by nia.
  apply Z.div_mul. apply Z.pow_nonzero; lia.
Qed.

Lemma p10_step_up p x : 1 <= p -> 0 <= x -> p10 (p * x) * 10 ^ p = p10 (p * (x + 1)).
Proof.
  intros Hp Hx. unfold p10. rewrite !Z.max_r by nia.
  replace (p * (x + 1)) with (p * x + p) by lia. rewrite Z.pow_add_r by nia. reflexivity.
Qed.

Lemma p10_nonpos x : x <= 0 -> p10 x = 1.
Proof. intros H. unfold p10. rewrite Z.max_l by lia. reflexivity. Qed.

Lemma check_fast_eq k num den e : forall ds j M,
  check_fast k den e j M (p10 (power_of k * (e - Z.of_nat j))) (num * p10 (power_of k * (Z.of_nat j - e))) ds
  = check_from k num den e j M ds.
Proof.
  pose proof (power_of_pos k) as Hp.
  induction ds as [|d r IH]; intros j M; cbn [check_fast check_from]; unfold trunc_ok_b; cbn zeta.
  - rewrite andb_true_r. reflexivity.
  - unfold exact_at_b. cbn zeta. f_equal. f_equal.
    destruct (Z.ltb_spec (Z.of_nat j) e) as [Hlt|Hge].
    + unfold tp. rewrite p10_step_down by lia.
      rewrite <- (IH (S j) (10 * M + d)). rewrite Nat2Z.inj_succ.
      replace (e - Z.succ (Z.of_nat j)) with (e - Z.of_nat j - 1) by lia.
      rewrite (p10_nonpos (power_of k * (Z.of_nat j - e))) by nia.
      rewrite (p10_nonpos (power_of k * (Z.succ (Z.of_nat j) - e))) by nia. reflexivity.
    + unfold tp. rewrite <- Z.mul_assoc, p10_step_up by lia.
      rewrite <- (IH (S j) (10 * M + d)). rewrite Nat2Z.inj_succ.
      replace (Z.succ (Z.of_nat j) - e) with (Z.of_nat j - e + 1) by lia.
      rewrite (p10_nonpos (power_of k * (e - Z.of_nat j))) by nia.
      rewrite (p10_nonpos (power_of k * (e - Z.succ (Z.of_nat j)))) by nia. reflexivity.
Qed.

Theorem ctor_check_fast_eq k num den n e ds ended :
  ctor_check_fast k num den n e ds ended = ctor_check k num den n e ds ended.
Proof.
  unfold ctor_check_fast, ctor_check.
  pose proof (check_fast_eq k num den e ds 0%nat 0) as H. cbn [Z.of_nat] in H.
  rewrite Z.sub_0_r in H. replace (0 - e) with (- e) in H by lia. rewrite H. reflexivity.
Qed.

Theorem ctor_check_fast_sound k num den n e ds ended :
  ctor_check_fast k num den n e ds ended = true -> ctor_spec k num den n e ds ended.
Proof. rewrite ctor_check_fast_eq. apply ctor_check_sound. Qed.

(* ---- C13 in the statement's own form: digit p = floor(v * 10^(p+1-e)) mod 10 ---- *)
Lemma trunc_is_floor num den e j M : 0 < den ->
  trunc_ok KRat num den e j M ->
  M = (num * p10 (Z.of_nat j - e)) / (p10 (e - Z.of_nat j) * den).
Proof.
  intros Hden (H1 & H2). cbn [power_of pw] in H1, H2. rewrite !Z.mul_1_l in H1, H2.
  assert (Hp : 0 < p10 (e - Z.of_nat j)) by (unfold p10; apply Z.pow_pos_nonneg; lia).
  apply Z.div_unique_pos with (r := num * p10 (Z.of_nat j - e) - M * (p10 (e - Z.of_nat j) * den)); nia.
Qed.

Lemma firstn_S_nth {A} (l : list A) : forall p d, nth_error l p = Some d -> firstn (S p) l = firstn p l ++ [d].
Proof.
  induction l as [|x r IH]; intros p d H; [destruct p; discriminate|].
  destruct p as [|p].
  - cbn in H. inversion H. reflexivity.
  - cbn [nth_error] in H. change (firstn (S (S p)) (x :: r)) with (x :: firstn (S p) r).
    change (firstn (S p) (x :: r)) with (x :: firstn p r). rewrite (IH p d H). reflexivity.
Qed.

Theorem rat_digit_formula num den n e ds ended p d : 0 < den ->
  ctor_spec KRat num den n e ds ended -> nth_error ds p = Some d ->
  d = ((num * p10 (Z.of_nat (S p) - e)) / (p10 (e - Z.of_nat (S p)) * den)) mod 10.
Proof.
  intros Hden Sp Hd.
  assert (Hlt : (p < length ds)%nat) by (apply nth_error_Some; congruence).
  pose proof (cs_trunc _ _ _ _ _ _ _ Sp (S p) ltac:(lia)) as T1.
  apply trunc_is_floor in T1; auto. rewrite <- T1.
  (* the first p+1 digits = the first p digits followed by d *)
  assert (E : firstn (S p) ds = firstn p ds ++ [d]) by (apply firstn_S_nth; exact Hd).
  rewrite E, val_snoc.
  pose proof (cs_range _ _ _ _ _ _ _ Sp) as R. rewrite Forall_forall in R.
  assert (0 <= d <= 9) by (apply R; eapply nth_error_In; eauto).
  rewrite Z.add_comm, Z.mul_comm, Z.mod_add by lia. symmetry. apply Z.mod_small. lia.
Qed.
