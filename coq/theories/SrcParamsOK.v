(* Obligations on the constants read from the Go sources on every run (Generated/SrcParams.v): the models and
   proofs are about these values.  A change of one of them in /repo makes the named lemma fail. *)
From Coq Require Import ZArith List Lia.
Require Import SrcParams.
Import ListNotations.
Open Scope Z_scope.

(* memoizer block size: positive, and within the read-ahead the property allows *)
Lemma chunk_bound_v1 : 0 < chunk_v1 <= 1000. Proof. unfold chunk_v1. lia. Qed.
Lemma chunk_bound_v2 : 0 < chunk_v2 <= 1000. Proof. unfold chunk_v2. lia. Qed.
Lemma chunk_bound_v3 : 0 < chunk_v3 <= 1000. Proof. unfold chunk_v3. lia. Qed.

(* the block size the sequential models use *)
Lemma chunk_is_100 : chunk_v1 = 100 /\ chunk_v2 = 100 /\ chunk_v3 = 100.
Proof. repeat split; reflexivity. Qed.

(* the big.Int constants of compute.go are the ones Sqrt.v / Cube.v are proved for
   (incr' = (incr - 1) * 10 + 1;  incr' = 100 incr - 45 incr2 + 171, incr2' = 10 incr2 - 54, incr2 += 6; bases 100, 1000) *)
Definition expected_bigints : list Z := [1; 2; 6; 10; 45; 54; 100; 171; 1000].
Lemma compute_constants_v1 : bigints_v1 = expected_bigints. Proof. reflexivity. Qed.
Lemma compute_constants_v2 : bigints_v2 = expected_bigints. Proof. reflexivity. Qed.
Lemma compute_constants_v3 : bigints_v3 = expected_bigints. Proof. reflexivity. Qed.

(* the cube-root recurrences with exactly these constants *)
Lemma cube_next_digit_identities : forall Q,
  let incr := 3 * Q * Q + 3 * Q + 1 in let incr2 := 6 * (Q + 1) in
  100 * incr - 45 * incr2 + 171 = 3 * (10 * Q) * (10 * Q) + 3 * (10 * Q) + 1 /\
  10 * incr2 - 54 = 6 * (10 * Q + 1).
Proof. intros Q incr incr2. unfold incr, incr2. split; ring. Qed.

(* default precisions and the exponent thresholds of %g used by FormatModel.v *)
Lemma format_constants :
  f_precision_v1 = 6 /\ f_precision_v2 = 6 /\ f_precision_v3 = 6 /\
  g_precision_v1 = 16 /\ g_precision_v2 = 16 /\ g_precision_v3 = 16 /\
  big_exp_lo_v1 = -3 /\ big_exp_lo_v2 = -3 /\ big_exp_lo_v3 = -3 /\
  big_exp_hi_v1 = 6 /\ big_exp_hi_v2 = 6 /\ big_exp_hi_v3 = 6.
Proof. repeat split; reflexivity. Qed.
