(* Facts about the reference semantics of HistModel.v: listings are consecutive, carry the true digits,
   stay inside the view's interval and stop exactly at its end. *)
From Coq Require Import ZArith List Lia Bool.
Require Import Views HistModel.
Import ListNotations.
Open Scope Z_scope.

Lemma fwd_list_spec d h : forall k p,
  let l := fwd_list d h p k in
  (length l <= k)%nat /\
  (forall i pv, nth_error l i = Some pv ->
     fst pv = p + Z.of_nat i /\ digit_at d (fst pv) = Some (snd pv) /\ below (fst pv) h = true) /\
  ((length l < k)%nat -> below (p + Z.of_nat (length l)) h = false \/ digit_at d (p + Z.of_nat (length l)) = None).
Proof.
  induction k as [|k IH]; intros p; cbn [fwd_list].
  - cbn. split; [lia|]. split; [intros [|i] pv H; discriminate|lia].
  - destruct (below p h) eqn:Eb.
    + destruct (digit_at d p) as [x|] eqn:Ed.
      * destruct (IH (p + 1)) as (L & N & M). cbn zeta in *. cbn [length]. split; [lia|]. split.
        -- intros [|i] pv H; cbn [nth_error] in H.
           ++ inversion H; subst. cbn [fst snd]. rewrite Z.add_0_r. auto.
           ++ destruct (N i pv H) as (A & B & C). split; [lia|auto].
        -- intros Hl. replace (p + Z.of_nat (S (length (fwd_list d h (p + 1) k)))) with (p + 1 + Z.of_nat (length (fwd_list d h (p + 1) k))) by lia.
           apply M. lia.
      * cbn. split; [lia|]. split; [intros [|i] pv H; discriminate|]. intros _. rewrite Z.add_0_r. auto.
    + cbn. split; [lia|]. split; [intros [|i] pv H; discriminate|]. intros _. rewrite Z.add_0_r. auto.
Qed.

Lemma bwd_list_spec d lo : forall k p,
  let l := bwd_list d lo p k in
  (length l <= k)%nat /\
  (forall i pv, nth_error l i = Some pv ->
     fst pv = p - Z.of_nat i /\ digit_at d (fst pv) = Some (snd pv) /\ lo <= fst pv).
Proof.
  induction k as [|k IH]; intros p; cbn [bwd_list].
  - cbn. split; [lia|]. intros [|i] pv H; discriminate.
  - destruct (Z.leb_spec lo p).
    + destruct (digit_at d p) as [x|] eqn:Ed.
      * destruct (IH (p - 1)) as (L & N). cbn zeta in *. cbn [length]. split; [lia|].
        intros [|i] pv H0; cbn [nth_error] in H0.
        -- inversion H0; subst. cbn [fst snd]. rewrite Z.sub_0_r. auto.
        -- destruct (N i pv H0) as (A & B & C). split; [lia|auto].
      * cbn. split; [lia|]. intros [|i] pv H0; discriminate.
    + cbn. split; [lia|]. intros [|i] pv H0; discriminate.
Qed.

(* the forward and the backward listing of a view with a known end hold the same pairs, reversed *)
Lemma digit_at_some_range d p x : digit_at d p = Some x -> 0 <= p.
Proof. unfold digit_at. destruct (Z.ltb_spec p 0); [discriminate|lia]. Qed.
