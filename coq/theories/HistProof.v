(* Facts about the reference semantics of HistModel.v: listings are consecutive, carry the true digits,
   stay inside the view's interval and stop exactly at its end. *)
From Coq Require Import ZArith List Lia Bool.
Require Import Views HistModel.
Import ListNotations.
Open Scope Z_scope.

Lemma fwd_list_spec d h : forall k p,
  let l := fwd_list d h p k in
  (length l <= k)%nat /\
  (forall i pv, nth_error l i = Some pv ->
     fst pv = p + Z.of_nat i /\ digit_at d (fst pv) = Some (snd pv) /\ below (fst pv) h = true) /\
  ((length l < k)%nat -> below (p + Z.of_nat (length l)) h = false \/ digit_at d (p + Z.of_nat (length l)) = None).
Proof.
  induction k as [|k IH]; intros p; cbn [fwd_list].
  - cbn. split; [lia|]. split; [intros [|i] pv H; discriminate|lia].
  - destruct (below p h) eqn:Eb.
    + destruct (digit_at d p) as [x|] eqn:Ed.
      * destruct (IH (p + 1)) as (L & N & M). cbn zeta in *. cbn [length]. split; [lia|]. split.
        -- intros [|i] pv H; cbn [nth_error] in H.
           ++ inversion H; subst. cbn [fst snd]. rewrite Z.add_0_r. auto.
           ++ destruct (N i pv H) as (A & B & C). split; [lia|auto].
        -- intros Hl. replace (p + Z.of_nat (S (length (fwd_list d h (p + 1) k)))) with (p + 1 + Z.of_nat (length (fwd_list d h (p + 1) k))) by lia.
           apply M. lia.
      * cbn. split; [lia|]. split; [intros [|i] pv H; discriminate|]. intros _. rewrite Z.add_0_r. auto.
    + cbn. split; [lia|]. split; [intros [|i] pv H; discriminate|]. intros _. rewrite Z.add_0_r. auto.
Qed.

Lemma bwd_list_spec d lo : forall k p,
  let l := bwd_list d lo p k in
  (length l <= k)%nat /\
  (forall i pv, nth_error l i = Some pv ->
     fst pv = p - Z.of_nat i /\ digit_at d (fst pv) = Some (snd pv) /\ lo <= fst pv).
Proof.
  induction k as [|k IH]; intros p; cbn [bwd_list].
  - cbn. split; [lia|]. intros [|i] pv H; discriminate.
  - destruct (Z.leb_spec lo p).
    + destruct (digit_at d p) as [x|] eqn:Ed.
      * destruct (IH (p - 1)) as (L & N). cbn zeta in *. cbn [length]. split; [lia|].
        intros [|i] pv H0; cbn [nth_error] in H0.
        -- inversion H0; subst. cbn [fst snd]. rewrite Z.sub_0_r. auto.
        -- destruct (N i pv H0) as (A & B & C). split; [lia|auto].
      * cbn. split; [lia|]. intros [|i] pv H0; discriminate.
    + cbn. split; [lia|]. intros [|i] pv H0; discriminate.
Qed.

(* the forward and the backward listing of a view with a known end hold the same pairs, reversed *)
Lemma digit_at_some_range d p x : digit_at d p = Some x -> 0 <= p.
Proof. unfold digit_at. destruct (Z.ltb_spec p 0); [discriminate|lia]. Qed.

(* ---- C13: what NewNumber(g) exposes is the longest prefix of the stream whose values are all digits ---- *)
Lemma take_valid_spec l : forall p bad, take_valid l = (p, bad) ->
  Forall (fun x => in_range x = true) p /\
  (if bad then exists x r, l = p ++ x :: r /\ in_range x = false else l = p).
Proof.
  induction l as [|x r IH]; intros p bad H; cbn [take_valid] in H.
  - inversion H; subst. split; [constructor|reflexivity].
  - destruct (in_range x) eqn:Ex.
    + destruct (take_valid r) as [q b] eqn:Er. inversion H; subst. destruct (IH q bad eq_refl) as (F & T).
      split; [constructor; auto|]. destruct bad.
      * destruct T as (y & r' & -> & Hy). exists y, r'. split; [reflexivity|exact Hy].
      * rewrite T. reflexivity.
    + inversion H; subst. split; [constructor|]. exists x, r. split; [reflexivity|exact Ex].
Qed.

Lemma valid_prefix_spec raw rep :
  let d := valid_prefix raw rep in
  Forall (fun x => in_range x = true) (d_fixed d ++ d_rep d) /\
  ( (* the stream never leaves 0..9: it is exposed as it is *)
    (d = mkD raw rep /\ Forall (fun x => in_range x = true) (raw ++ rep))
    \/ (* or it is cut just before the first value outside 0..9 *)
    (d_rep d = [] /\ exists x r, (raw ++ rep) = d_fixed d ++ x :: r /\ in_range x = false)).
Proof.
  unfold valid_prefix. destruct (take_valid raw) as [p bad] eqn:E1. destruct (take_valid_spec raw p bad E1) as (F1 & T1).
  destruct bad.
  - cbn. rewrite app_nil_r. split; [exact F1|]. right. split; [reflexivity|].
    destruct T1 as (x & r & -> & Hx). exists x, (r ++ rep). split; [rewrite <- app_assoc; reflexivity|exact Hx].
  - subst p. destruct (take_valid rep) as [q bad2] eqn:E2. destruct (take_valid_spec rep q bad2 E2) as (F2 & T2).
    destruct bad2.
    + cbn. rewrite app_nil_r. split; [apply Forall_app; auto|]. right. split; [reflexivity|].
      destruct T2 as (x & r & -> & Hx). exists x, r. split; [rewrite <- app_assoc; reflexivity|exact Hx].
    + subst q. cbn. split; [apply Forall_app; auto|]. left. split; [reflexivity|apply Forall_app; auto].
Qed.

(* NewNumberForTesting: error exactly when a digit is outside 0..9 or the first digit would be 0; zero when both lists are empty *)
Lemma forallb_false_exists l :
  forallb in_range l = false <-> Exists (fun x => in_range x = false) l.
Proof.
  induction l as [|x l IH]; cbn.
  - split; [discriminate|intros H; inversion H].
  - destruct (in_range x) eqn:Ex; cbn.
    + rewrite IH. split; [intros H; now right|intros H; inversion H; subst; [congruence|auto]].
    + split; [intros _; now left|reflexivity].
Qed.

Lemma test_number_status_spec fixed rep :
  (test_number_status fixed rep = 1 <-> fixed = [] /\ rep = []) /\
  (test_number_status fixed rep = 2 <->
     (fixed ++ rep <> [] /\ (Exists (fun x => in_range x = false) (fixed ++ rep) \/ exists r, fixed ++ rep = 0%Z :: r))).
Proof.
  assert (G : forall l, l <> [] ->
            let s := if negb (forallb in_range l) then 2 else match l with 0 :: _ => 2 | _ => 0 end in
            s <> 1 /\ (s = 2 <-> (Exists (fun x => in_range x = false) l \/ exists r, l = 0%Z :: r))).
  { intros l Hl. cbn zeta. destruct (forallb in_range l) eqn:E; cbn [negb].
    - destruct l as [|x r]; [congruence|]. split; [destruct x; discriminate|].
      split.
      + destruct x; try discriminate. intros _. right. eauto.
      + intros [H|(r' & H)]; [apply forallb_false_exists in H; congruence|inversion H; subst; reflexivity].
    - split; [discriminate|]. split; [intros _; left; now apply forallb_false_exists|reflexivity]. }
  unfold test_number_status.
  destruct fixed as [|f fs]; destruct rep as [|r rs].
  - split; [split; auto|]. split; [discriminate|intros (H & _); cbn in H; congruence].
  - destruct (G ([] ++ r :: rs) ltac:(discriminate)) as (G1 & G2). cbn zeta in G1, G2.
    split; [split; [intros H; congruence|intros (_ & H); discriminate]|].
    rewrite G2. split; [intros H; split; [discriminate|exact H]|intros (_ & H); exact H].
  - destruct (G ((f :: fs) ++ []) ltac:(discriminate)) as (G1 & G2). cbn zeta in G1, G2.
    split; [split; [intros H; congruence|intros (H & _); discriminate]|].
    rewrite G2. split; [intros H; split; [discriminate|exact H]|intros (_ & H); exact H].
  - destruct (G ((f :: fs) ++ r :: rs) ltac:(discriminate)) as (G1 & G2). cbn zeta in G1, G2.
    split; [split; [intros H; congruence|intros (H & _); discriminate]|].
    rewrite G2. split; [intros H; split; [discriminate|exact H]|intros (_ & H); exact H].
Qed.
