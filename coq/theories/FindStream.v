(* C15: a search that stops after its n-th match.  run_n is kmpKernel.Visit driven over the text one digit at a
   time (as the matchers do over a Scan / a pull iterator) and stopped as soon as n matches have been reported
   (yield returned false / Take reached its count / CanConsume turned false); it also returns how many digits it
   consumed.  It reports exactly the first n matches of the complete run, and consumes nothing beyond the last
   digit of the last match it reports; asked for 0 matches it consumes nothing. *)
From Coq Require Import ZArith List Lia Bool.
Require Import KmpModel.
Import ListNotations.
Open Scope Z_scope.

Fixpoint run_n (pat tbl : list Z) (k pos : Z) (w : list Z) (n : nat) {struct w} : option (list Z * nat) :=
  match n with
  | O => Some ([], O)
  | S n' =>
    match w with
    | [] => Some ([], O)
    | d :: w' =>
      match visit pat tbl k d with
      | None => None
      | Some (k', m) =>
        match run_n pat tbl k' (pos + 1) w' (if m then n' else n) with
        | None => None
        | Some (r, c) => Some (if m then pos :: r else r, S c)
        end
      end
    end
  end.

Lemma run_acc pat tbl : forall w k pos acc,
  run pat tbl k pos w acc =
  match run pat tbl k pos w [] with Some (kf, ms) => Some (kf, rev acc ++ ms) | None => None end.
Proof.
  induction w as [|d w IH]; intros k pos acc; cbn [run].
  - cbn. rewrite app_nil_r. reflexivity.
  - destruct (visit pat tbl k d) as [[k' m]|]; [|reflexivity].
    rewrite (IH k' (pos + 1) (if m then pos :: acc else acc)).
    rewrite (IH k' (pos + 1) (if m then [pos] else [])).
    destruct (run pat tbl k' (pos + 1) w []) as [[kf ms]|]; [|reflexivity].
    destruct m; cbn [rev app]; [rewrite <- app_assoc; reflexivity|reflexivity].
Qed.

(* position (index of its last digit) of the j-th reported match *)
Definition nth_match (ms : list Z) (j : nat) : Z := nth j ms (-1).

Theorem run_n_spec pat tbl : forall w k pos n kf ms,
  run pat tbl k pos w [] = Some (kf, ms) ->
  exists c, run_n pat tbl k pos w n = Some (firstn n ms, c) /\
    (c <= length w)%nat /\
    (n = O -> c = O) /\
    ((0 < n <= length ms)%nat -> pos + Z.of_nat c - 1 = nth_match ms (n - 1)) /\
    ((length ms < n)%nat -> c = length w).
Proof.
  induction w as [|d w IH]; intros k pos n kf ms H; cbn [run] in H.
  - inversion H; subst. exists O. destruct n; cbn; repeat split; intros; try reflexivity; try lia.
  - destruct n as [|n'].
    + exists O. cbn. repeat split; intros; try reflexivity; try lia.
    + cbn [run_n]. destruct (visit pat tbl k d) as [[k' m]|]; [|discriminate].
      rewrite run_acc in H. destruct (run pat tbl k' (pos + 1) w []) as [[kf' ms']|] eqn:E; [|discriminate].
      inversion H; subst kf ms. clear H.
      destruct m.
      * (* a match ends here *)
        destruct (IH k' (pos + 1) n' kf' ms' E) as (c & Hr & Hc & H0 & H1 & H2). rewrite Hr.
        exists (S c). cbn [rev app firstn length]. split; [reflexivity|]. split; [lia|]. split; [discriminate|]. split.
        -- intros Hn. destruct n' as [|n''].
           ++ rewrite (H0 eq_refl). unfold nth_match. cbn. lia.
           ++ assert (Hn' : (0 < S n'' <= length ms')%nat) by lia. specialize (H1 Hn').
              unfold nth_match in *. cbn [Nat.sub nth] in *. replace (S n'' - 0)%nat with (S n'') by lia.
              cbn [nth]. replace (n'' - 0)%nat with n'' in H1 by lia. lia.
        -- intros Hn. rewrite H2 by lia. reflexivity.
      * destruct (IH k' (pos + 1) (S n') kf' ms' E) as (c & Hr & Hc & H0 & H1 & H2). rewrite Hr.
        exists (S c). cbn [rev app length]. split; [reflexivity|]. split; [lia|]. split; [discriminate|]. split.
        -- intros Hn. specialize (H1 Hn). lia.
        -- intros Hn. rewrite H2 by lia. reflexivity.
Qed.

(* the stopped run sees only the digits it consumed: anything may follow them *)
Theorem run_n_prefix pat tbl : forall w k pos n r c w2,
  run_n pat tbl k pos w n = Some (r, c) -> run_n pat tbl k pos (firstn c w ++ w2) n = Some (r, c) \/ (c = length w /\ (length r < n)%nat).
Proof.
  induction w as [|d w IH]; intros k pos n r c w2 H.
  - destruct n; cbn in H; inversion H; subst; cbn.
    + left. destruct w2; reflexivity.
    + right. split; [reflexivity|lia].
  - destruct n as [|n'].
    + cbn in H. inversion H; subst. left. cbn. destruct w2; reflexivity.
    + cbn [run_n] in H. destruct (visit pat tbl k d) as [[k' m]|] eqn:Ev; [|discriminate].
      destruct (run_n pat tbl k' (pos + 1) w (if m then n' else S n')) as [[r' c']|] eqn:E; [|discriminate].
      inversion H; subst r c. clear H.
      destruct (IH k' (pos + 1) _ r' c' w2 E) as [Hl|(Hc & Hlen)].
      * left. cbn [firstn app run_n]. rewrite Ev, Hl. reflexivity.
      * destruct m.
        -- right. split; [cbn; lia|cbn; lia].
        -- right. split; [cbn; lia|exact Hlen].
Qed.

(* ---- the forward searches stopped after n matches, in terms of the occurrence specification ---- *)
Require Import KmpSpec KmpProof FindModel.

Definition stream_find (pat : list Z) (lo : Z) (w : list Z) (n : nat) : option (list Z * nat) :=
  match ttable pat with
  | None => None
  | Some tbl =>
    match run_n pat tbl 0 0 w n with
    | None => None
    | Some (r, c) => Some (map (fun q => lo + q + 1 - Z.of_nat (length pat)) r, c)
    end
  end.

Lemma firstn_map {A B} (f : A -> B) n l : firstn n (map f l) = map f (firstn n l).
Proof. revert l; induction n as [|n IH]; intros [|a l]; cbn; [reflexivity..|]. now rewrite IH. Qed.

(* FindFirstN / Matches with early exit over a text w starting at position lo: the first n occurrences, and the
   digits consumed end exactly with the last digit of the n-th occurrence (none when n = 0; the whole text when
   there are fewer than n occurrences) *)
Theorem stream_find_spec pat lo w n : (1 <= length pat)%nat ->
  exists c, stream_find pat lo w n = Some (firstn n (occ_fwd pat lo w), c) /\
    (c <= length w)%nat /\
    (n = O -> c = O) /\
    ((0 < n <= length (occ_fwd pat lo w))%nat ->
       lo + Z.of_nat c = nth (n - 1) (occ_fwd pat lo w) (-1) + Z.of_nat (length pat)) /\
    ((length (occ_fwd pat lo w) < n)%nat -> c = length w).
Proof.
  intros Hm. unfold stream_find, occ_fwd.
  assert (Hne : is_empty pat = false) by (destruct pat; [cbn in Hm; lia|reflexivity]). rewrite Hne.
  pose proof (kmp_all_spec pat w Hm) as Hk. unfold kmp_all in Hk.
  destruct (ttable pat) as [tbl|]; [|discriminate].
  destruct (run pat tbl 0 0 w []) as [[kf ms]|] eqn:Er; [|discriminate].
  inversion Hk as [Hms]. rewrite <- Hms.
  destruct (run_n_spec pat tbl w 0 0 n kf ms Er) as (c & Hr & Hc & H0 & H1 & H2).
  rewrite Hr. exists c. rewrite firstn_map, map_length. split; [reflexivity|]. split; [exact Hc|]. split; [exact H0|]. split.
  - intros Hn. specialize (H1 Hn). unfold nth_match in H1.
    set (f := fun q => lo + q + 1 - Z.of_nat (length pat)).
    assert (E : nth (n - 1) (map f ms) (-1) = f (nth (n - 1) ms (-1))).
    { rewrite (nth_indep (map f ms) (-1) (f (-1))) by (rewrite map_length; lia). apply map_nth. }
    rewrite E. unfold f. lia.
  - exact H2.
Qed.
