(* C12: the printer at the level of bufio operations.  The same control flow as PrnModel.v, but emitting the
   sequence of bufio.Writer calls (WriteString / Write via fmt / WriteByte / WriteRune) the code makes, each
   tagged with the position whose Consume is in progress and whether it belongs to a gap fill.  Running the
   operations through Bufio.exec over a faulting underlying writer is the model of Fprint / Fwrite. *)
From Coq Require Import ZArith List Lia Bool.
Require Import Pos PosHist Views HistModel PrnModel PrintModel Bufio.
Import ListNotations.
Open Scope Z_scope.

Definition tag := (Z * bool)%type.                 (* position being consumed, inside a gap fill? *)

Section Ops.
Variables (R C : Z) (missing : Z) (count_on : bool).
Variables (zero_ops : list op) (nz_ops : Z -> list op).

Definition pre_ops (first : bool) (idx inrow : Z) : list op * Z :=
  if idx =? 0 then (zero_ops, inrow)
  else if (0 <? R) && (idx mod R =? 0) then ((if first then [] else [OWrite [10]]) ++ nz_ops idx, 0)
  else if (0 <? C) && (inrow mod C =? 0) then ([OByte 32], inrow)
  else ([], inrow).

(* state: operations so far (tagged), "nothing emitted yet", index, indexInRow *)
Definition ost := (list (op * tag) * bool * Z * Z)%type.

Definition raw_consume_ops (t : tag) (st : ost) (ch : Z) : ost :=
  let '(ops, first, idx, inrow) := st in
  let '(p, ir) := pre_ops first idx inrow in
  (ops ++ map (fun o => (o, t)) (p ++ [ORune (utf8 ch)]), false, idx + 1, ir + 1).

Definition skip_rows_ops (st : ost) (posit : Z) : ost :=
  let '(ops, first, idx, inrow) := st in
  let cur := idx / R in
  let nxt := posit / R in
  if idx mod R =? 0 then (ops, first, idx + (nxt - cur) * R, inrow)
  else if cur <? nxt then (ops, first, idx + (nxt - cur - 1) * R, inrow)
  else st.

Fixpoint fill_ops (t : tag) (n : nat) (st : ost) : ost :=
  match n with O => st | S n' => fill_ops t n' (raw_consume_ops t st missing) end.

Definition oidx (st : ost) : Z := snd (fst st).

Definition consume_ops (st : ost) (posit digit : Z) : ost :=
  let st1 :=
    if oidx st <? posit then
      let st0 := if (0 <? R) && count_on then skip_rows_ops st posit else st in
      fill_ops (posit, true) (Z.to_nat (posit - oidx st0)) st0
    else st in
  raw_consume_ops (posit, false) st1 (48 + digit).

Fixpoint consume_all_ops (st : ost) (shown : list (Z * Z)) : ost :=
  match shown with
  | [] => st
  | (p, d) :: rest => consume_all_ops (consume_ops st p d) rest
  end.

Definition print_ops (shown : list (Z * Z)) : list (op * tag) :=
  fst (fst (fst (consume_all_ops ([], true, 0, 0) shown))).
End Ops.

(* the operations a starter string costs, per version: v3 row starters (WriteString for the zero string and for
   count-off margins, fmt.Fprintf for labels); v1/v2 fmt.Fprintf("%s0.") for the first cell, then
   fmt.Fprintf(label) + WriteString("  ") or WriteString("  ") alone *)
Definition zero_ops_of (v3 : bool) (z : list Z) : list op := if v3 then [OString z] else [OWrite z].
Definition nz_ops_of (v3 : bool) (con : bool) (nz : Z -> list Z) (i : Z) : list op :=
  if v3 then (if con then [OWrite (nz i)] else [OString (nz i)])
  else if con then [OWrite (firstn (length (nz i) - 2) (nz i)); OString (skipn (length (nz i) - 2) (nz i))]
  else [OString (nz i)].

(* all operations of one Fprint / Fwrite call up to (not including) the final Flush *)
Definition fprint_ops (v3 : bool) (o : popts) (maxd : Z) (shown : list (Z * Z)) : list (op * tag) :=
  let '(z, nz, con) := starters o maxd in
  print_ops (o_R o) (o_C o) (fix_rune (o_missing o)) con (zero_ops_of v3 z) (nz_ops_of v3 con nz) shown
  ++ (if o_trail o then [(OWrite [10], (-1, false))] else []).

(* ---- the underlying writer of the property: accepts k more bytes, then fails in one of four ways ---- *)
(* state: remaining budget (None once the fault has happened), mode, phase after the fault *)
Record fw := mkFw { fw_left : Z; fw_mode : Z; fw_faulted : bool }.

(* mode 0: error with partial write; 1: error with nothing written by the faulting call; 2: short write without
   error (then errors); 3: error with partial write, then full recovery *)
Definition fw_step (w : fw) (p : list Z) : nat * bool * fw :=
  let len := Z.of_nat (length p) in
  if fw_faulted w then
    if fw_mode w =? 3 then (length p, false, w) else (O, true, w)
  else if len <=? fw_left w then (length p, false, mkFw (fw_left w - len) (fw_mode w) false)
  else
    let r := Z.to_nat (fw_left w) in
    if fw_mode w =? 0 then (r, true, mkFw 0 0 true)
    else if fw_mode w =? 1 then (O, true, mkFw 0 1 true)
    else if fw_mode w =? 2 then (if (0 <? fw_left w) then (r, false, mkFw 0 2 false) else (O, true, mkFw 0 2 true))
    else (r, true, mkFw 0 3 true).

(* result of a call: n, err <> nil, accepted bytes, calls of the underlying writer, operations issued,
   highest position whose Consume had begun (-1: none) *)
Record presult := mkPR { pr_n : Z; pr_err : bool; pr_acc : list Z; pr_calls : Z; pr_issued : nat; pr_pos : Z }.

Definition run_fprint (fuel : nat) (size : nat) (w0 : fw) (ops : list (op * tag)) : option presult :=
  match exec fw fw_step size fuel (mk fw [] [] false w0 0 0 0) (map fst ops) 0 with
  | None => None
  | Some (s1, _, issued) =>
    let sF := flush fw fw_step s1 in
    let tags := firstn issued (map snd ops) in
    Some (mkPR (Z.of_nat (length (acc fw sF))) (berr fw sF) (acc fw sF) (Z.of_nat (ncalls fw sF)) issued
               (fold_left (fun m t => Z.max m (fst t)) tags (-1)))
  end.

(* the pinned printer.Consume spins in its gap loop when the error is detected by an operation of a gap fill *)
Definition hangs_pinned (ops : list (op * tag)) (r : presult) : bool :=
  pr_err r && match nth_error (map snd ops) (pr_issued r - 1) with Some (_, true) => (0 <? Z.of_nat (pr_issued r)) | _ => false end.
