(* C01 / C02 / C13: the result of a constructor depends only on the value num/den, not on the representation:
   ctor k (c * num) (c * den) n = ctor k num den n for every c > 0, hence equal results for equal fractions. *)
From Coq Require Import ZArith List Lia Bool.
Require Import Sqrt Cube Norm SqrtAll CubeAll RunList Compute ComputeProof.
Import ListNotations.
Open Scope Z_scope.

(* ---- running a scaled step function ---- *)
Section Sim.
  Variables (S1 S2 : Type) (step1 : S1 -> option (Z * S1)) (step2 : S2 -> option (Z * S2)) (R : S1 -> S2 -> Prop).
  Hypothesis step_sim : forall a b, R a b ->
    match step1 a, step2 b with
    | Some (d1, a'), Some (d2, b') => d1 = d2 /\ R a' b'
    | None, None => True
    | _, _ => False
    end.

  Lemma run_list_sim : forall k a b, R a b ->
    option_map fst (run_list step1 k a) = option_map fst (run_list step2 k b).
  Proof.
    induction k as [|k IH]; intros a b HR; cbn [run_list]; [reflexivity|].
    pose proof (step_sim a b HR) as H.
    destruct (step1 a) as [[d1 a']|]; destruct (step2 b) as [[d2 b']|]; try contradiction; [|reflexivity].
    destruct H as (-> & HR'). destruct (d2 =? -1); [reflexivity|].
    specialize (IH a' b' HR').
    destruct (run_list step1 k a') as [[[ds1 e1] s1]|]; destruct (run_list step2 k b') as [[[ds2 e2] s2]|];
      cbn in IH |- *; try discriminate; try reflexivity.
    inversion IH; subst. reflexivity.
  Qed.
End Sim.

(* ---- next_group under scaling ---- *)
Lemma next_group_scale c num den base : 0 < c -> 0 < den ->
  next_group (c * num) (c * den) base =
  match next_group num den base with None => None | Some (g, num') => Some (g, c * num') end.
Proof.
  intros Hc Hd. unfold next_group.
  destruct (Z.eqb_spec num 0) as [->|Hn].
  - rewrite Z.mul_0_r. reflexivity.
  - destruct (Z.eqb_spec (c * num) 0); [nia|].
    rewrite <- Z.mul_assoc. rewrite Z.div_mul_cancel_l by lia. rewrite Z.mul_mod_distr_l by lia. reflexivity.
Qed.

Lemma gen_step_scale c d st : 0 < c -> 0 < d ->
  let '(num, rem, incr) := st in
  match gen_step d st, gen_step (c * d) (c * num, rem, incr) with
  | Some (d1, (n1, r1, i1)), Some (d2, (n2, r2, i2)) => d1 = d2 /\ n2 = c * n1 /\ r2 = r1 /\ i2 = i1
  | None, None => True
  | _, _ => False
  end.
Proof.
  intros Hc Hd. destruct st as [[num rem] incr]. unfold gen_step.
  rewrite (next_group_scale c num d 100 Hc Hd).
  destruct (next_group num d 100) as [[g num']|].
  - destruct (sq_step 10 (rem, incr) g) as [[[r' i'] dg]|]; auto.
  - destruct (rem =? 0); [auto|]. destruct (sq_step 10 (rem, incr) 0) as [[[r' i'] dg]|]; auto.
Qed.

Lemma cgen_step_scale c d st : 0 < c -> 0 < d ->
  let '(num, rem, incr, incr2) := st in
  match cgen_step d st, cgen_step (c * d) (c * num, rem, incr, incr2) with
  | Some (d1, (n1, r1, i1, j1)), Some (d2, (n2, r2, i2, j2)) => d1 = d2 /\ n2 = c * n1 /\ r2 = r1 /\ i2 = i1 /\ j2 = j1
  | None, None => True
  | _, _ => False
  end.
Proof.
  intros Hc Hd. destruct st as [[[num rem] incr] incr2]. unfold cgen_step.
  rewrite (next_group_scale c num d 1000 Hc Hd).
  destruct (next_group num d 1000) as [[g num']|].
  - destruct (cb_step 10 (rem, incr, incr2) g) as [[[[r' i'] j'] dg]|]; auto 6.
  - destruct (rem =? 0); [auto 6|]. destruct (cb_step 10 (rem, incr, incr2) 0) as [[[[r' i'] j'] dg]|]; auto 6.
Qed.

Lemma rat_step_scale c d num : 0 < c -> 0 < d ->
  match rat_step d num, rat_step (c * d) (c * num) with
  | Some (d1, n1), Some (d2, n2) => d1 = d2 /\ n2 = c * n1
  | _, _ => False
  end.
Proof.
  intros Hc Hd. unfold rat_step. rewrite (next_group_scale c num d 10 Hc Hd).
  destruct (next_group num d 10) as [[g num']|]; auto.
Qed.

(* ---- the normalised triple is determined by the value ---- *)
Definition Nrm (base num den n d e : Z) : Prop :=
  0 < n /\ 0 < d /\ n < d /\ d <= n * base /\
  ((0 <= e /\ n = num /\ d = den * base ^ e) \/ (e <= 0 /\ n = num * base ^ (- e) /\ d = den)).

Lemma pow_lt_exp base a b : 2 <= base -> 0 <= a -> 0 <= b -> base ^ a < base ^ b -> a < b.
Proof.
  intros Hb Ha Hbb H. destruct (Z.lt_ge_cases a b); auto.
  assert (base ^ b <= base ^ a) by (apply Z.pow_le_mono_r; lia). lia.
Qed.

(* num/den in [base^(e-1), base^e), cross-multiplied *)
Lemma Nrm_bracket base num den n d e : 2 <= base -> 0 < num -> 0 < den -> Nrm base num den n d e ->
  (0 <= e -> num < den * base ^ e /\ den * base ^ e <= num * base) /\
  (e <= 0 -> num * base ^ (- e) < den /\ den <= num * base ^ (- e) * base).
Proof.
  intros Hb Hn Hd (H1 & H2 & H3 & H4 & [(He & -> & ->)|(He & -> & ->)]).
  - split; [intros _; split; lia|]. intros He0. assert (e = 0) by lia. subst e. cbn in *. split; lia.
  - split; [|intros _; split; lia]. intros He0. assert (e = 0) by lia. subst e. cbn in *. split; lia.
Qed.

Lemma Nrm_exp_unique base num den n d e n' d' e' c : 2 <= base -> 0 < num -> 0 < den -> 0 < c ->
  Nrm base num den n d e -> Nrm base (c * num) (c * den) n' d' e' -> e = e'.
Proof.
  intros Hb Hn Hd Hc N1 N2.
  destruct (Nrm_bracket base num den n d e Hb Hn Hd N1) as (P1 & M1).
  destruct (Nrm_bracket base (c * num) (c * den) n' d' e' Hb ltac:(nia) ltac:(nia) N2) as (P2 & M2).
  assert (Hpos : forall x, 0 <= x -> 0 < base ^ x) by (intros; apply Z.pow_pos_nonneg; lia).
  destruct (Z.le_gt_cases 0 e) as [He|He]; destruct (Z.le_gt_cases 0 e') as [He'|He'].
  - (* both >= 0 *)
    destruct (P1 He) as (A1 & A2). destruct (P2 He') as (B1 & B2).
    assert (B1' : num < den * base ^ e') by nia. assert (B2' : den * base ^ e' <= num * base) by nia.
    destruct (Z.lt_trichotomy e e') as [Hlt|[Heq|Hgt]]; auto; exfalso.
    + assert (base ^ (e + 1) <= base ^ e') by (apply Z.pow_le_mono_r; lia).
      rewrite Z.pow_add_r, Z.pow_1_r in H by lia. pose proof (Hpos e He). nia.
    + assert (base ^ (e' + 1) <= base ^ e) by (apply Z.pow_le_mono_r; lia).
      rewrite Z.pow_add_r, Z.pow_1_r in H by lia. pose proof (Hpos e' He'). nia.
  - (* e >= 0, e' < 0 *)
    exfalso. destruct (P1 He) as (A1 & A2). destruct (M2 ltac:(lia)) as (B1 & B2).
    assert (B2' : den <= num * base ^ (- e') * base) by nia. assert (B1' : num * base ^ (- e') < den) by nia.
    pose proof (Hpos e He). pose proof (Hpos (- e') ltac:(lia)).
    assert (base <= base ^ (- e')).
    { replace base with (base ^ 1) at 1 by apply Z.pow_1_r. apply Z.pow_le_mono_r; lia. }
    assert (1 <= base ^ e) by lia. nia.
  - (* e < 0, e' >= 0 *)
    exfalso. destruct (M1 ltac:(lia)) as (A1 & A2). destruct (P2 He') as (B1 & B2).
    assert (B1' : num < den * base ^ e') by nia. assert (B2' : den * base ^ e' <= num * base) by nia.
    pose proof (Hpos e' He'). pose proof (Hpos (- e) ltac:(lia)).
    assert (base <= base ^ (- e)).
    { replace base with (base ^ 1) at 1 by apply Z.pow_1_r. apply Z.pow_le_mono_r; lia. }
    assert (1 <= base ^ e') by lia. nia.
  - (* both < 0 *)
    destruct (M1 ltac:(lia)) as (A1 & A2). destruct (M2 ltac:(lia)) as (B1 & B2).
    assert (B1' : num * base ^ (- e') < den) by nia. assert (B2' : den <= num * base ^ (- e') * base) by nia.
    destruct (Z.lt_trichotomy e e') as [Hlt|[Heq|Hgt]]; auto; exfalso.
    + assert (base ^ (- e' + 1) <= base ^ (- e)) by (apply Z.pow_le_mono_r; lia).
      rewrite Z.pow_add_r, Z.pow_1_r in H by lia. pose proof (Hpos (- e') ltac:(lia)). nia.
    + assert (base ^ (- e + 1) <= base ^ (- e')) by (apply Z.pow_le_mono_r; lia).
      rewrite Z.pow_add_r, Z.pow_1_r in H by lia. pose proof (Hpos (- e) ltac:(lia)). nia.
Qed.

Lemma Nrm_scale base num den n d e n' d' e' c : 2 <= base -> 0 < num -> 0 < den -> 0 < c ->
  Nrm base num den n d e -> Nrm base (c * num) (c * den) n' d' e' -> e' = e /\ n' = c * n /\ d' = c * d.
Proof.
  intros Hb Hn Hd Hc N1 N2. pose proof (Nrm_exp_unique _ _ _ _ _ _ _ _ _ _ Hb Hn Hd Hc N1 N2) as ->.
  split; [reflexivity|].
  destruct N1 as (_ & _ & _ & _ & C1). destruct N2 as (_ & _ & _ & _ & C2).
  destruct C1 as [(He & -> & ->)|(He & -> & ->)]; destruct C2 as [(He' & -> & ->)|(He' & -> & ->)]; split; try ring.
  - assert (e' = 0) by lia. subst e'. cbn. ring.
  - assert (e' = 0) by lia. subst e'. cbn. ring.
  - assert (e' = 0) by lia. subst e'. cbn. ring.
  - assert (e' = 0) by lia. subst e'. cbn. ring.
Qed.

Lemma groups_init_Nrm base num den : 2 <= base -> 0 < num -> 0 < den ->
  exists n d e, groups_init (norm_fuel num den) num den base = Some (n, d, e) /\ Nrm base num den n d e.
Proof.
  intros Hb Hn Hd. destruct (norm_fuel_ok num den Hn Hd) as (F1 & F2).
  destruct (norm_spec base (norm_fuel num den) num den Hb Hn Hd F1 F2) as (n & d & e & G & A & B & C & D & E).
  exists n, d, e. split; [exact G|]. unfold Nrm. auto.
Qed.

Theorem ctor_scale k num den c n : 0 < c -> ctor k (c * num) (c * den) n = ctor k num den n.
Proof.
  intros Hc. unfold ctor.
  destruct (Z.leb_spec den 0) as [Hd|Hd].
  { destruct (Z.leb_spec (c * den) 0); [reflexivity|nia]. }
  destruct (Z.leb_spec (c * den) 0); [nia|].
  destruct (Z.ltb_spec num 0) as [Hn|Hn].
  { destruct (Z.ltb_spec (c * num) 0); [reflexivity|nia]. }
  destruct (Z.ltb_spec (c * num) 0); [nia|].
  destruct (Z.eqb_spec num 0) as [->|Hnz].
  { rewrite Z.mul_0_r. reflexivity. }
  destruct (Z.eqb_spec (c * num) 0); [nia|].
  assert (Hb : 2 <= base_of k) by (destruct k; cbn; lia).
  destruct (groups_init_Nrm (base_of k) num den Hb ltac:(lia) Hd) as (nn & dd & ee & G1 & N1).
  destruct (groups_init_Nrm (base_of k) (c * num) (c * den) Hb ltac:(nia) ltac:(nia)) as (nm & d1 & e1 & G2 & N2).
  rewrite G1, G2.
  assert (Hnum : 0 < num) by lia.
  destruct (Nrm_scale (base_of k) num den nn dd ee nm d1 e1 c Hb Hnum Hd Hc N1 N2) as (-> & -> & ->).
  assert (Hdd : 0 < dd) by (destruct N1; tauto).
  assert (E : (match k with
               | KSqrt => option_map fst (run_list (gen_step (c * dd)) n (c * nn, 0, 1))
               | KCube => option_map fst (run_list (cgen_step (c * dd)) n (c * nn, 0, 1, 6))
               | KRat => option_map fst (run_list (rat_step (c * dd)) n (c * nn))
               end) =
              (match k with
               | KSqrt => option_map fst (run_list (gen_step dd) n (nn, 0, 1))
               | KCube => option_map fst (run_list (cgen_step dd) n (nn, 0, 1, 6))
               | KRat => option_map fst (run_list (rat_step dd) n nn)
               end)).
  { destruct k; symmetry.
    - apply (run_list_sim _ _ (gen_step dd) (gen_step (c * dd))
               (fun a b => let '(x, r, i) := a in b = (c * x, r, i))); [|reflexivity].
      intros [[x r] i] b ->. pose proof (gen_step_scale c dd (x, r, i) Hc Hdd) as S. cbn zeta in S.
      destruct (gen_step dd (x, r, i)) as [[dg [[x1 r1] i1]]|];
        destruct (gen_step (c * dd) (c * x, r, i)) as [[dg' [[x2 r2] i2]]|]; try contradiction; auto.
      destruct S as (-> & -> & -> & ->). auto.
    - apply (run_list_sim _ _ (cgen_step dd) (cgen_step (c * dd))
               (fun a b => let '(x, r, i, j) := a in b = (c * x, r, i, j))); [|reflexivity].
      intros [[[x r] i] j] b ->. pose proof (cgen_step_scale c dd (x, r, i, j) Hc Hdd) as S. cbn zeta in S.
      destruct (cgen_step dd (x, r, i, j)) as [[dg [[[x1 r1] i1] j1]]|];
        destruct (cgen_step (c * dd) (c * x, r, i, j)) as [[dg' [[[x2 r2] i2] j2]]|]; try contradiction; auto.
      destruct S as (-> & -> & -> & -> & ->). auto.
    - apply (run_list_sim _ _ (rat_step dd) (rat_step (c * dd)) (fun a b => b = c * a)); [|reflexivity].
      intros x b ->. pose proof (rat_step_scale c dd x Hc Hdd) as S.
      destruct (rat_step dd x) as [[dg x1]|]; destruct (rat_step (c * dd) (c * x)) as [[dg' x2]|]; try contradiction; auto. }
  rewrite E. reflexivity.
Qed.

(* equal fractions give equal results, whichever constructor or representation supplied them *)
Theorem ctor_value_only k num den num' den' n : 0 < den -> 0 < den' -> num * den' = num' * den ->
  ctor k num den n = ctor k num' den' n.
Proof.
  intros Hd Hd' Heq.
  rewrite <- (ctor_scale k num den den' n Hd'), <- (ctor_scale k num' den' den n Hd).
  replace (den' * num) with (den * num') by lia. replace (den' * den) with (den * den') by ring. reflexivity.
Qed.
