From Coq Require Import ZArith Lia.
Open Scope Z_scope.

(* for remainder >= incr { remainder -= incr; digit++; incr += incr2; incr2 += 6 } *)
Fixpoint cb_loop (fuel : nat) (r i i2 d : Z) : option (Z * Z * Z * Z) :=
  if r <? i then Some (r, i, i2, d) else
  match fuel with
  | O => None
  | S f => cb_loop f (r - i) (i + i2) (i2 + 6) (d + 1)
  end.

Definition cb_step (fuel : nat) (st : Z * Z * Z) (g : Z) : option (Z * Z * Z * Z) :=
  let '(r, i, i2) := st in
  match cb_loop fuel (r * 1000 + g) i i2 0 with
  | Some (r', i', i2', d) => Some (r', i' * 100 - i2' * 45 + 171, i2' * 10 - 54, d)
  | None => None
  end.

Definition I1 q := 3*q*q + 3*q + 1.
Definition I2 q := 6*(q+1).

Lemma cb_loop_spec : forall fuel r d q,
  0 <= r -> 0 <= q ->
  r < (q + Z.of_nat fuel + 1)^3 - q^3 ->
  exists r' d', cb_loop fuel r (I1 q) (I2 q) d = Some (r', I1 (q + d'), I2 (q + d'), d + d')
     /\ 0 <= d' <= Z.of_nat fuel /\ 0 <= r' < I1 (q + d')
     /\ r + q^3 = r' + (q + d')^3.
Proof.
  induction fuel as [|f IH]; intros r d q Hr Hq Hb; cbn [cb_loop].
  - destruct (Z.ltb_spec r (I1 q)).
    + exists r, 0. replace (q + 0) with q by lia. replace (d + 0) with d by lia.
      repeat split; try lia.
    + exfalso. change (Z.of_nat 0) with 0 in Hb. unfold I1 in *. 
      replace ((q + 0 + 1)^3 - q^3) with (3*q*q+3*q+1) in Hb by ring. lia.
  - destruct (Z.ltb_spec r (I1 q)).
    + exists r, 0. replace (q + 0) with q by lia. replace (d + 0) with d by lia.
      repeat split; try lia.
    + assert (E1 : I1 q + I2 q = I1 (q + 1)) by (unfold I1, I2; ring).
      assert (E2 : I2 q + 6 = I2 (q + 1)) by (unfold I2; ring).
      rewrite E1, E2.
      destruct (IH (r - I1 q) (d + 1) (q + 1)) as (r' & d' & He & Hd & Hr' & Heq); try lia.
      { rewrite Nat2Z.inj_succ in Hb. unfold I1 in *.
        replace (q + 1 + Z.of_nat f + 1) with (q + Z.succ (Z.of_nat f) + 1) by lia.
        replace ((q+1)^3) with (q^3 + (3*q*q+3*q+1)) by ring. lia. }
      exists r', (d' + 1). replace (q + (d' + 1)) with (q + 1 + d') by lia.
      replace (d + (d' + 1)) with (d + 1 + d') by lia.
      rewrite He. repeat split; try lia.
      rewrite <- Heq. unfold I1. ring.
Qed.

Lemma cb_step_spec : forall r P g,
  0 <= P -> 0 <= r < I1 P -> 0 <= g < 1000 ->
  exists r' d, cb_step 10 (r, I1 (10*P), I2 (10*P)) g = Some (r', I1 (10 * (10 * P + d)), I2 (10 * (10*P+d)), d)
    /\ 0 <= d <= 9 /\ 0 <= r' < I1 (10 * P + d)
    /\ 1000 * (r + P^3) + g = r' + (10 * P + d)^3.
Proof.
  intros r P g HP Hr Hg. unfold cb_step.
  destruct (cb_loop_spec 10 (r * 1000 + g) 0 (10 * P)) as (r' & d' & He & Hd & Hr' & Heq); try lia.
  { change (Z.of_nat 10) with 10. unfold I1 in Hr.
    replace ((10 * P + 10 + 1)^3 - (10*P)^3) with (3300*P*P + 3630*P + 1331) by ring. nia. }
  rewrite He. exists r', d'.
  assert (d' <= 9).
  { destruct (Z.le_gt_cases d' 9); auto. exfalso.
    assert (d' = 10) by lia. subst d'. unfold I1 in *.
    assert ((10*P+10)^3 = 1000*(P^3 + (3*P*P+3*P+1))) by ring. 
    assert (r * 1000 + g + (10*P)^3 = 1000 * (r + P^3) + g) by ring. lia. }
  split. { replace (0 + d') with d' by lia. f_equal. f_equal. f_equal. f_equal. all: unfold I1, I2; ring. }
  repeat split; try lia.
Qed.
Print Assumptions cb_step_spec.
