From Coq Require Import ZArith Lia List.
Require Import Cube Norm.
Open Scope Z_scope.

(* the closure returned by computeRootDigits with the cube-root manager: state (num, rem, incr, incr2) *)
Definition cgen_step (den : Z) (st : Z * Z * Z * Z) : option (Z * (Z * Z * Z * Z)) :=
  let '(num, rem, incr, incr2) := st in
  match next_group num den 1000 with
  | None =>
    if rem =? 0 then Some (-1, st)
    else match cb_step 10 (rem, incr, incr2) 0 with
         | Some (r', i', i2', d) => Some (d, (num, r', i', i2'))
         | None => None
         end
  | Some (g, num') =>
    match cb_step 10 (rem, incr, incr2) g with
    | Some (r', i', i2', d) => Some (d, (num', r', i', i2'))
    | None => None
    end
  end.

Definition CInv (n d : Z) (c : nat) (P : Z) (st : Z * Z * Z * Z) : Prop :=
  let '(num, rem, incr, incr2) := st in
  let X := (n * 1000 ^ Z.of_nat c) / d in
  num = (n * 1000 ^ Z.of_nat c) mod d /\ rem = X - P ^ 3 /\ 0 <= rem < I1 P /\
  incr = I1 (10 * P) /\ incr2 = I2 (10 * P) /\ 0 <= P.

Lemma X_succ3 n d c : 0 < d -> 0 <= n ->
  let X := (n * 1000 ^ Z.of_nat c) / d in
  let r := (n * 1000 ^ Z.of_nat c) mod d in
  (n * 1000 ^ Z.of_nat (S c)) / d = X * 1000 + (r * 1000) / d /\
  (n * 1000 ^ Z.of_nat (S c)) mod d = (r * 1000) mod d.
Proof.
  intros Hd Hn X r. rewrite Nat2Z.inj_succ, Z.pow_succ_r by lia.
  set (p := 1000 ^ Z.of_nat c) in *.
  assert (E : n * (1000 * p) = (X * 1000) * d + r * 1000).
  { pose proof (Z.div_mod (n * p) d ltac:(lia)). subst X r. nia. }
  rewrite E. split.
  - rewrite Z.div_add_l by lia. reflexivity.
  - rewrite Z.add_comm, Z.mod_add by lia. reflexivity.
Qed.

Lemma cgen_step_inv n d c P st : 0 < d -> 0 <= n -> CInv n d c P st ->
  exists dg st', cgen_step d st = Some (dg, st') /\
    ( (dg = -1 /\ (n * 1000 ^ Z.of_nat c) mod d = 0 /\ P ^ 3 = (n * 1000 ^ Z.of_nat c) / d)
    \/ (0 <= dg <= 9 /\ CInv n d (S c) (10 * P + dg) st' /\
        ~ ((n * 1000 ^ Z.of_nat c) mod d = 0 /\ P ^ 3 = (n * 1000 ^ Z.of_nat c) / d)) ).
Proof.
  intros Hd Hn. destruct st as [[[num rem] incr] incr2]. intros (Hnum & Hrem & Hr & Hi & Hi2 & HP).
  destruct (X_succ3 n d c Hd Hn) as (HX & HM). cbn zeta in HX, HM.
  set (X := (n * 1000 ^ Z.of_nat c) / d) in *. rewrite <- Hnum in HX, HM.
  pose proof (Z.mod_pos_bound (n * 1000 ^ Z.of_nat c) d Hd) as Hb. rewrite <- Hnum in Hb.
  unfold cgen_step, next_group. subst incr incr2.
  destruct (Z.eqb_spec num 0) as [Hz|Hnz].
  - destruct (Z.eqb_spec rem 0) as [Hr0|Hr0].
    + exists (-1), (num, rem, I1 (10 * P), I2 (10 * P)). split; [reflexivity|]. left. repeat split; try lia.
    + destruct (cb_step_spec rem P 0 HP Hr ltac:(lia)) as (r' & dg & He & Hdg & Hr' & Heq).
      rewrite He. exists dg, (num, r', I1 (10 * (10 * P + dg)), I2 (10 * (10 * P + dg))).
      split; [reflexivity|]. right. split; [lia|]. split; [|lia].
      assert (E1 : num * 1000 / d = 0) by (rewrite Hz; apply Z.div_0_l; lia).
      assert (E2 : (num * 1000) mod d = 0) by (rewrite Hz; apply Z.mod_0_l; lia).
      unfold CInv. rewrite HX, HM, E1, E2. repeat split; try lia.
  - assert (Hg : 0 <= num * 1000 / d < 1000).
    { split; [apply Z.div_pos; lia|apply Z.div_lt_upper_bound; lia]. }
    destruct (cb_step_spec rem P (num * 1000 / d) HP Hr Hg) as (r' & dg & He & Hdg & Hr' & Heq).
    rewrite He. exists dg, ((num * 1000) mod d, r', I1 (10 * (10 * P + dg)), I2 (10 * (10 * P + dg))).
    split; [reflexivity|]. right. split; [lia|]. split; [|lia].
    unfold CInv. rewrite HX, HM. repeat split; try lia.
Qed.

Corollary cbrt_truncated n d c P st : 0 < d -> 0 <= n -> CInv n d c P st ->
  P ^ 3 * d <= n * 1000 ^ Z.of_nat c < (P + 1) ^ 3 * d.
Proof.
  intros Hd Hn. destruct st as [[[num rem] incr] incr2]. intros (Hnum & Hrem & Hr & _ & _ & HP).
  set (N := n * 1000 ^ Z.of_nat c) in *. unfold I1 in Hr.
  pose proof (Z.div_mod N d ltac:(lia)). pose proof (Z.mod_pos_bound N d Hd).
  assert ((P + 1) ^ 3 = P ^ 3 + (3 * P * P + 3 * P + 1)) by ring. nia.
Qed.

Lemma CInv_init n d : 0 < d -> 0 <= n < d -> CInv n d 0 0 (n, 0, 1, 6).
Proof.
  intros Hd Hn. unfold CInv, I1, I2. cbn. rewrite Z.mul_1_r. rewrite Z.mod_small, Z.div_small by lia. lia.
Qed.
Print Assumptions cgen_step_inv.
Print Assumptions cbrt_truncated.
