(* C10: the clauses of the property read off the declarative layout (PrnModel.layout = render of the cell list):
   which cells exist, what each shows, and what stands in front of a cell. *)
From Coq Require Import ZArith List Lia Bool.
Import ListNotations.
Require Import PrnModel PrnProof.
Open Scope Z_scope.

Section Facts.
Variables (R C : Z) (missing : Z) (zero_s : list Z) (nz : Z -> list Z) (count_on : bool).

Notation is_cell := (is_cell R count_on).
Notation in_rows := (in_rows R).
Notation cell_char := (cell_char missing).
Notation cell_pre := (cell_pre R C zero_s nz).
Notation render := (render R C zero_s nz).

(* the cells of the layout, in order *)
Definition cells (shown : list (Z * Z)) : list (Z * Z) :=
  map (fun q => (q, cell_char shown q)) (filter (is_cell shown) (zseq 0 (Z.to_nat (pmax shown + 1)))).

Lemma layout_is_render shown : layout R C missing zero_s nz count_on shown = render true (cells shown).
Proof. reflexivity. Qed.

Lemma cell_iff shown q ch :
  In (q, ch) (cells shown) <-> (0 <= q <= pmax shown /\ is_cell shown q = true /\ ch = cell_char shown q).
Proof.
  unfold cells. rewrite in_map_iff. split.
  - intros (q' & E & Hin). injection E as E1 E2. subst q' ch. apply filter_In in Hin. destruct Hin as (Hz & Hc).
    apply (In_zseq 0 nz) in Hz. pose proof (pmax_lb shown) as Hlb. split; [split; lia|]. split; [exact Hc|reflexivity].
  - intros (Hq & Hc & ->). exists q. split; [reflexivity|]. apply filter_In. split; [|exact Hc].
    apply (In_zseq 0 nz). lia.
Qed.

(* nothing beyond the last shown position *)
Lemma nothing_beyond shown q ch : In (q, ch) (cells shown) -> 0 <= q <= pmax shown.
Proof. intros H. apply cell_iff in H. tauto. Qed.

(* a position that is not shown displays the missing-digit rune *)
Lemma not_shown_is_missing shown q ch : In (q, ch) (cells shown) -> ~ In q (positions shown) -> ch = missing.
Proof.
  intros H Hn. apply cell_iff in H. destruct H as (_ & _ & ->). unfold PrnModel.cell_char. rewrite (lookup_none 0 nz) by exact Hn. reflexivity.
Qed.

Lemma lookup_asc : forall shown idx p d, asc idx shown -> In (p, d) shown -> lookup p shown = Some d.
Proof.
  induction shown as [|[p0 d0] r IH]; intros idx p d Ha Hin; [destruct Hin|].
  cbn [asc] in Ha. destruct Ha as (H0 & Hr). cbn [lookup]. destruct Hin as [E|Hin].
  - inversion E; subst. rewrite Z.eqb_refl. reflexivity.
  - assert (p0 + 1 <= p).
    { apply (asc_ge (p0 + 1) r Hr). unfold positions. apply in_map_iff. exists (p, d). split; [reflexivity|exact Hin]. }
    destruct (Z.eqb_spec p0 p); [lia|]. apply (IH (p0 + 1)); assumption.
Qed.

(* every shown position is a cell and displays its digit *)
Lemma shown_is_displayed shown p d : asc 0 shown -> In (p, d) shown -> In (p, 48 + d) (cells shown).
Proof.
  intros Ha Hin. apply cell_iff.
  assert (Hp : In p (positions shown)) by (unfold positions; apply in_map_iff; exists (p, d); split; [reflexivity|exact Hin]).
  split; [split; [apply (asc_ge 0 shown Ha p Hp)|apply pmax_ge; exact Hp]|]. split.
  - unfold PrnModel.is_cell. rewrite (proj2 (Z.leb_le p (pmax shown))) by (apply pmax_ge; exact Hp). cbn [andb].
    destruct (negb (rows_on R count_on)); [reflexivity|]. cbn [orb]. apply (in_rows_true R shown p p Hp). reflexivity.
  - unfold PrnModel.cell_char. rewrite (lookup_asc shown 0 p d Ha Hin). reflexivity.
Qed.

(* when labels are displayed, a row without any shown digit has no cell: it is omitted *)
Lemma rows_have_a_shown_digit shown q ch : rows_on R count_on = true -> In (q, ch) (cells shown) ->
  exists p, In p (positions shown) /\ p / R = q / R.
Proof.
  intros Hr H. apply cell_iff in H. destruct H as (_ & Hc & _). unfold PrnModel.is_cell in Hc.
  apply andb_prop in Hc. destruct Hc as (_ & Hc). rewrite Hr in Hc. cbn in Hc. apply (in_rows_elim R shown q Hc).
Qed.

(* what stands in front of a cell: the zero starter before position 0; a line feed (except at the very start) and
   the row starter of ITS OWN position at a row boundary; exactly one space at a column boundary; nothing otherwise *)
Lemma before_cell first q : q <> 0 ->
  cell_pre first q =
  if (0 <? R) && (q mod R =? 0) then (if first then [] else [10]) ++ nz q
  else if (0 <? C) && (PrnModel.canon R q mod C =? 0) then [32] else [].
Proof.
  intros Hq. unfold PrnModel.cell_pre, PrnModel.pre. destruct (Z.eqb_spec q 0); [lia|].
  destruct ((0 <? R) && (q mod R =? 0)); [reflexivity|].
  destruct ((0 <? C) && (PrnModel.canon R q mod C =? 0)); reflexivity.
Qed.

Lemma before_first_cell first : cell_pre first 0 = zero_s.
Proof. reflexivity. Qed.
End Facts.
