From Coq Require Import ZArith List Lia Bool.
Import ListNotations.
Open Scope Z_scope.

(* --- model of kmp.go (ttable, kmpKernel.Visit) ------------------------- *)

Definition getZ (l : list Z) (i : Z) : option Z :=
  if i <? 0 then None else nth_error l (Z.to_nat i).

(* for posit != -1 && c != pat[posit] { posit = tbl[posit] } *)
Fixpoint fallback (fuel : nat) (pat tbl : list Z) (c : Z) (posit : Z) : option Z :=
  if posit =? -1 then Some posit else
  match getZ pat posit with
  | None => None
  | Some x =>
    if c =? x then Some posit else
    match fuel with
    | O => None
    | S f => match getZ tbl posit with
             | None => None
             | Some p' => fallback f pat tbl c p'
             end
    end
  end.

(* outer loop of ttable: i = 1 .. len-1, state (tbl so far, posit) *)
Fixpoint tt_loop (n : nat) (i : Z) (pat tbl : list Z) (posit : Z) : option (list Z * Z) :=
  match n with
  | O => Some (tbl, posit)
  | S n' =>
    let posit1 := posit + 1 in
    let tbl1 := tbl ++ [posit1] in
    match getZ pat i with
    | None => None
    | Some c =>
      match fallback (Z.to_nat posit1 + 1) pat tbl1 c posit1 with
      | None => None
      | Some p2 => tt_loop n' (i + 1) pat tbl1 p2
      end
    end
  end.

Definition ttable (pat : list Z) : option (list Z) :=
  match tt_loop (length pat - 1) 1 pat [-1] (-1) with
  | None => None
  | Some (tbl, posit) => Some (tbl ++ [posit + 1])
  end.

Definition visit (pat tbl : list Z) (k : Z) (d : Z) : option (Z * bool) :=
  match getZ pat k with
  | None => None
  | Some x =>
    if d =? x then
      let k1 := k + 1 in
      if k1 =? Z.of_nat (length pat) then
        match getZ tbl k1 with None => None | Some k2 => Some (k2, true) end
      else Some (k1, false)
    else
      match fallback (Z.to_nat k + 1) pat tbl d k with
      | None => None
      | Some k' => Some (k' + 1, false)
      end
  end.

(* run the automaton over a text; returns final state and the list of positions (index of last char) where Visit was true *)
Fixpoint run (pat tbl : list Z) (k : Z) (pos : Z) (w : list Z) (acc : list Z) : option (Z * list Z) :=
  match w with
  | [] => Some (k, rev acc)
  | d :: w' =>
    match visit pat tbl k d with
    | None => None
    | Some (k', m) => run pat tbl k' (pos + 1) w' (if m then pos :: acc else acc)
    end
  end.

Definition kmp_all (pat w : list Z) : option (list Z) :=
  match ttable pat with
  | None => None
  | Some tbl => match run pat tbl 0 0 w [] with None => None | Some (_, ms) => Some ms end
  end.

Eval vm_compute in ttable [1;1;2;1;1;1].
Eval vm_compute in kmp_all [1;1] [1;1;1;2;1;1].
Eval vm_compute in kmp_all [1;2;1] [1;2;1;2;1;3;1;2;1].
