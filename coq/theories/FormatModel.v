(* Top-level model of Number.Format / String / Exact (sqroot.go): format spec per verb, fixed or scientific
   rendering through the streaming formatter of Fmt.v, field padding, bad verbs. Output: code points. *)
From Coq Require Import ZArith List Lia Bool.
Require Import RunList Compute Views HistModel Fmt PrintModel.
Import ListNotations.
Open Scope Z_scope.

Record fspec := mkFs { fs_sig : Z; fs_exact : bool; fs_sci : bool; fs_capital : bool }.

Definition big_exponent (e : Z) : bool := (e <? -3) || (6 <? e).

Definition is_verb (v : Z) (l : list Z) : bool := existsb (Z.eqb v) l.

(* newFormatSpec: verbs f F g G v e E with an optional precision *)
Definition new_format_spec (verb : Z) (prec : option Z) (exponent : Z) : option fspec :=
  if is_verb verb [102; 70] then
    let p := match prec with Some p => p | None => 6 end in
    Some (mkFs (p + exponent) true false false)
  else if is_verb verb [103; 71; 118] then
    let p := match prec with Some p => p | None => 16 end in
    let sg := if p =? 0 then 1 else p in
    Some (mkFs sg false ((sg <? exponent) || big_exponent exponent) (verb =? 71))
  else if is_verb verb [101; 69] then
    let p := match prec with Some p => p | None => 6 end in
    Some (mkFs p true true (verb =? 69))
  else None.

(* fmt "%+03d" *)
Definition fmt_exp (e : Z) : list Z :=
  let ds := dec (Z.abs e) in
  (if e <? 0 then 45 else 43) :: (if Z.of_nat (length ds) <? 2 then 48 :: ds else ds).

(* the digits the formatter may consume: at most sig of them, from the start of the number *)
Definition digits_for (d : dsrc) (v : Views.val) (sg : Z) : list Z :=
  let k := match span d v with Some s => Z.min sg (Z.of_nat s) | None => sg end in   (* never more than the number has *)
  map snd (fwd_list d (eff_hi d v) 0 (Z.to_nat k)).

Definition print_number (f : fspec) (d : dsrc) (v : Views.val) (exponent : Z) : list Z :=
  if fs_sci f then
    print_fixed (fs_sig f) 0 (fs_exact f) (digits_for d v (fs_sig f))
    ++ [if fs_capital f then 69 else 101] ++ fmt_exp exponent
  else print_fixed (fs_sig f) exponent (fs_exact f) (digits_for d v (fs_sig f)).

(* String(): %g with the default precision *)
Definition string_of (d : dsrc) (v : Views.val) : list Z :=
  let e := exponent_of v in
  print_number (mkFs 16 false (big_exponent e) false) d v e.

(* v3 Exact(): every digit of a finite number *)
Definition exact_of (d : dsrc) (v : Views.val) : list Z :=
  let e := exponent_of v in
  print_number (mkFs (2 ^ 63 - 1) false (big_exponent e) false) d v e.

Definition pad_field (width : option Z) (minus : bool) (t : list Z) : list Z :=
  match width with
  | None => t
  | Some w =>
    let n := w - Z.of_nat (length t) in
    if minus then t ++ spaces n else spaces n ++ t
  end.

(* Format(state, verb): verb, precision, width, '-' flag *)
Definition format (d : dsrc) (v : Views.val) (verb : Z) (prec width : option Z) (minus : bool) : list Z :=
  let e := exponent_of v in
  match new_format_spec verb prec e with
  | None => [37; 33] ++ [fix_rune verb] ++ [40; 110; 117; 109; 98; 101; 114; 61] ++ string_of d v ++ [41]
  | Some f => pad_field width minus (print_number f d v e)
  end.
