(* The truncation property of the longest prefix implies that of every shorter prefix: checking the digits of a
   root (C01 / C02 / C03 / C13) at their full length is as good as checking every prefix.  ctor_check_last does one
   comparison with big numbers instead of one per digit, and is sound for ctor_spec. *)
From Coq Require Import ZArith List Lia Bool.
Require Import RunList C01Form Compute ComputeProof.
Import ListNotations.
Open Scope Z_scope.

Lemma pw_mono k a b : 0 <= a <= b -> pw k a <= pw k b.
Proof. intros H. destruct k; cbn [pw]; [nia| |lia]. assert (a ^ 3 <= b ^ 3) by (apply Z.pow_le_mono_l; lia). lia. Qed.

Lemma pw_smono k a b : 0 <= a < b -> pw k a < pw k b.
Proof. intros H. destruct k; cbn [pw]; [nia| |lia]. apply Z.pow_lt_mono_l; lia. Qed.

Lemma pw_nonneg k a : 0 <= a -> 0 <= pw k a.
Proof. intros H. destruct k; cbn [pw]; [nia| |lia]. apply Z.pow_nonneg. lia. Qed.

(* one digit back *)
Lemma trunc_ok_back k num den e j M d : 0 < den -> 0 <= M -> 0 <= d <= 9 ->
  trunc_ok k num den e (S j) (10 * M + d) -> trunc_ok k num den e j M.
Proof.
  intros Hden HM Hd. unfold trunc_ok. cbn zeta. set (p := power_of k).
  pose proof (power_of_pos k) as Hp. fold p in Hp. unfold p10.
  rewrite Nat2Z.inj_succ. set (jz := Z.of_nat j). assert (0 <= jz) by (unfold jz; lia).
  assert (Hpp : 0 < 10 ^ p) by (apply Z.pow_pos_nonneg; lia).
  pose proof (pw_shift k M) as Hs. pose proof (pw_shift k (M + 1)) as Hs1. fold p in Hs, Hs1.
  pose proof (pw_mono k (10 * M) (10 * M + d) ltac:(lia)) as Hlo.
  pose proof (pw_mono k (10 * M + d + 1) (10 * (M + 1)) ltac:(lia)) as Hhi.
  pose proof (pw_nonneg k M HM) as HpM.
  destruct (Z.le_gt_cases (jz + 1) e) as [Hle|Hgt].
  - rewrite (Z.max_r 0 (p * (e - Z.succ jz))) by nia. rewrite (Z.max_l 0 (p * (Z.succ jz - e))) by nia.
    rewrite (Z.max_r 0 (p * (e - jz))) by nia. rewrite (Z.max_l 0 (p * (jz - e))) by nia.
    replace (p * (e - jz)) with (p + p * (e - Z.succ jz)) by lia.
    rewrite Z.pow_add_r by nia. rewrite Z.pow_0_r.
    set (T := 10 ^ (p * (e - Z.succ jz))). assert (HT : 0 < T) by (apply Z.pow_pos_nonneg; nia).
    intros (H1 & H2). split.
    + apply Z.le_trans with (pw k (10 * M + d) * T * den); [|exact H1].
      rewrite Hs in Hlo. apply Z.mul_le_mono_nonneg_r; [lia|].
      replace (pw k M * (10 ^ p * T)) with (10 ^ p * pw k M * T) by ring.
      apply Z.mul_le_mono_nonneg_r; lia.
    + apply Z.lt_le_trans with (pw k (10 * M + d + 1) * T * den); [exact H2|].
      rewrite Hs1 in Hhi. apply Z.mul_le_mono_nonneg_r; [lia|].
      replace (pw k (M + 1) * (10 ^ p * T)) with (10 ^ p * pw k (M + 1) * T) by ring.
      apply Z.mul_le_mono_nonneg_r; lia.
  - rewrite (Z.max_l 0 (p * (e - Z.succ jz))) by nia. rewrite (Z.max_r 0 (p * (Z.succ jz - e))) by nia.
    rewrite (Z.max_l 0 (p * (e - jz))) by nia. rewrite (Z.max_r 0 (p * (jz - e))) by nia.
    replace (p * (Z.succ jz - e)) with (p + p * (jz - e)) by lia.
    rewrite Z.pow_add_r by nia. rewrite Z.pow_0_r.
    set (U := 10 ^ (p * (jz - e))). assert (HU : 0 < U) by (apply Z.pow_pos_nonneg; nia).
    rewrite !Z.mul_1_r. intros (H1 & H2). split.
    + apply (Z.mul_le_mono_pos_l _ _ (10 ^ p) Hpp).
      apply Z.le_trans with (pw k (10 * M + d) * den); [|lia].
      rewrite Hs in Hlo. replace (10 ^ p * (pw k M * den)) with (10 ^ p * pw k M * den) by ring.
      apply Z.mul_le_mono_nonneg_r; lia.
    + apply (Z.mul_lt_mono_pos_l (10 ^ p) _ _ Hpp).
      apply Z.lt_le_trans with (pw k (10 * M + d + 1) * den); [lia|].
      rewrite Hs1 in Hhi. replace (10 ^ p * (pw k (M + 1) * den)) with (10 ^ p * pw k (M + 1) * den) by ring.
      apply Z.mul_le_mono_nonneg_r; lia.
Qed.

Lemma exact_at_up k num den e j M : 0 < den ->
  exact_at k num den e j M -> exact_at k num den e (S j) (10 * M).
Proof.
  intros Hden. unfold exact_at. cbn zeta. rewrite pw_shift. set (p := power_of k).
  pose proof (power_of_pos k) as Hp. fold p in Hp. unfold p10.
  rewrite Nat2Z.inj_succ. set (jz := Z.of_nat j). assert (0 <= jz) by (unfold jz; lia).
  destruct (Z.le_gt_cases (jz + 1) e) as [Hle|Hgt].
  - rewrite (Z.max_r 0 (p * (e - Z.succ jz))) by nia. rewrite (Z.max_l 0 (p * (Z.succ jz - e))) by nia.
    rewrite (Z.max_r 0 (p * (e - jz))) by nia. rewrite (Z.max_l 0 (p * (jz - e))) by nia.
    replace (p * (e - jz)) with (p + p * (e - Z.succ jz)) by lia.
    rewrite Z.pow_add_r by nia. intros H1. rewrite <- H1. ring.
  - rewrite (Z.max_l 0 (p * (e - Z.succ jz))) by nia. rewrite (Z.max_r 0 (p * (Z.succ jz - e))) by nia.
    rewrite (Z.max_l 0 (p * (e - jz))) by nia. rewrite (Z.max_r 0 (p * (jz - e))) by nia.
    replace (p * (Z.succ jz - e)) with (p + p * (jz - e)) by lia.
    rewrite Z.pow_add_r by nia. rewrite Z.pow_0_r. intros H1.
    replace (num * (10 ^ p * 10 ^ (p * (jz - e)))) with (10 ^ p * (num * 10 ^ (p * (jz - e)))) by ring.
    rewrite <- H1. ring.
Qed.

(* once a prefix is exact, the next digit of a truncation is 0 and the longer prefix is exact too *)
Lemma exact_then_zero k num den e j M d : 0 < den -> 0 <= M -> 0 <= d ->
  exact_at k num den e j M -> trunc_ok k num den e (S j) (10 * M + d) ->
  d = 0 /\ exact_at k num den e (S j) (10 * M + d).
Proof.
  intros Hden HM Hd Hex (Hlo & _). pose proof (exact_at_up k num den e j M Hden Hex) as Hup.
  unfold exact_at in Hup. cbn zeta in *. rewrite <- Hup in Hlo.
  assert (HA : 0 < p10 (power_of k * (e - Z.of_nat (S j)))) by (unfold p10; apply Z.pow_pos_nonneg; lia).
  assert (Hle : pw k (10 * M + d) <= pw k (10 * M)).
  { apply (Z.mul_le_mono_pos_r _ _ (p10 (power_of k * (e - Z.of_nat (S j))) * den)); [nia|]. lia. }
  destruct (Z.eq_dec d 0) as [->|Hne].
  - split; [reflexivity|]. rewrite Z.add_0_r. apply exact_at_up; assumption.
  - exfalso. pose proof (pw_smono k (10 * M) (10 * M + d) ltac:(lia)). lia.
Qed.

Lemma val_from_nonneg : forall l P, 0 <= P -> Forall (fun d => 0 <= d <= 9) l -> 0 <= val_from P l.
Proof. induction l as [|d r IH]; intros P HP HF; cbn [val_from]; [exact HP|]. inversion HF as [|? ? Hd Hr]; subst. apply IH; [lia|assumption]. Qed.

Lemma val_nonneg ds : Forall (fun d => 0 <= d <= 9) ds -> 0 <= val ds.
Proof. intros H. apply val_from_nonneg; [lia|exact H]. Qed.

Lemma Forall_firstn {A} (P : A -> Prop) n l : Forall P l -> Forall P (firstn n l).
Proof. revert l. induction n as [|n IH]; intros [|a l] H; cbn; try constructor; inversion H; subst; auto. Qed.

Lemma nth_error_lt {A} (l : list A) j : (j < length l)%nat -> exists d, nth_error l j = Some d.
Proof. intros H. destruct (nth_error l j) eqn:E; [eauto|]. apply nth_error_None in E. lia. Qed.

(* all prefixes from the last one *)
Theorem trunc_all_prefixes k num den e ds : 0 < den -> Forall (fun d => 0 <= d <= 9) ds ->
  trunc_ok k num den e (length ds) (val ds) ->
  forall j, (j <= length ds)%nat -> trunc_ok k num den e j (val (firstn j ds)).
Proof.
  intros Hden HF Hlast.
  assert (G : forall m j, (j + m = length ds)%nat -> trunc_ok k num den e j (val (firstn j ds))).
  { induction m as [|m IH]; intros j Hj.
    - rewrite Nat.add_0_r in Hj. subst j. rewrite firstn_len_all. exact Hlast.
    - assert (Hlt : (j < length ds)%nat) by lia. destruct (nth_error_lt ds j Hlt) as (d & Ed).
      specialize (IH (S j) ltac:(lia)). rewrite (firstn_S_nth ds j d Ed), val_snoc in IH.
      assert (Hd : 0 <= d <= 9) by (rewrite Forall_forall in HF; apply HF; eapply nth_error_In; eauto).
      apply (trunc_ok_back k num den e j _ d Hden); [apply val_nonneg, Forall_firstn, HF|exact Hd|exact IH]. }
  intros j Hj. apply (G (length ds - j)%nat). lia.
Qed.

(* no shorter prefix is exact when the one before the last digit is not *)
Theorem notyet_from_last k num den e ds : 0 < den -> Forall (fun d => 0 <= d <= 9) ds ->
  trunc_ok k num den e (length ds) (val ds) ->
  (forall r dl, ds = r ++ [dl] -> ~ exact_at k num den e (length r) (val r)) ->
  forall j, (j < length ds)%nat -> ~ exact_at k num den e j (val (firstn j ds)).
Proof.
  intros Hden HF Hlast Hne.
  pose proof (trunc_all_prefixes k num den e ds Hden HF Hlast) as HT.
  (* exactness propagates upwards along the digits *)
  assert (Up : forall m j, (j + m < length ds)%nat -> exact_at k num den e j (val (firstn j ds)) ->
                exact_at k num den e (j + m) (val (firstn (j + m) ds))).
  { induction m as [|m IH]; intros j Hj Hex; [rewrite Nat.add_0_r; exact Hex|].
    replace (j + S m)%nat with (S (j + m)) by lia.
    specialize (IH j ltac:(lia) Hex).
    destruct (nth_error_lt ds (j + m) ltac:(lia)) as (d & Ed).
    assert (Hd : 0 <= d <= 9) by (rewrite Forall_forall in HF; apply HF; eapply nth_error_In; eauto).
    pose proof (HT (S (j + m)) ltac:(lia)) as Ht. rewrite (firstn_S_nth ds _ d Ed), val_snoc in Ht |- *.
    apply (exact_then_zero k num den e (j + m) _ d Hden); [apply val_nonneg, Forall_firstn, HF|lia|exact IH|exact Ht]. }
  intros j Hj Hex.
  destruct (exists_last (l := ds)) as (r & dl & E); [intros ->; cbn in Hj; lia|].
  apply (Hne r dl E). assert (Hl : length ds = S (length r)) by (rewrite E, app_length; cbn; lia).
  specialize (Up (length r - j)%nat j ltac:(lia) Hex). replace (j + (length r - j))%nat with (length r) in Up by lia.
  rewrite E in Up. rewrite firstn_app, Nat.sub_diag, firstn_len_all in Up. cbn [firstn] in Up. rewrite app_nil_r in Up. exact Up.
Qed.

(* ---- the checker that looks at the full length only ---- *)
Definition digits_ok_b (ds : list Z) : bool := forallb (fun d => (0 <=? d) && (d <=? 9)) ds.

Definition notyet_b (k : kind) (num den e : Z) (ds : list Z) : bool :=
  match rev ds with
  | [] => true
  | _ :: rr => negb (exact_at_b k num den e (length rr) (val (rev rr)))
  end.

Definition ctor_check_last (k : kind) (num den : Z) (n : nat) (e : Z) (ds : list Z) (ended : bool) : bool :=
  (length ds <=? n)%nat && (ended || (length ds =? n)%nat) && first_ok ds && digits_ok_b ds &&
  trunc_ok_b k num den e (length ds) (val ds) && notyet_b k num den e ds &&
  (negb ended || exact_at_b k num den e (length ds) (val ds)).

Theorem ctor_check_last_sound k num den n e ds ended : 0 < den ->
  ctor_check_last k num den n e ds ended = true -> ctor_spec k num den n e ds ended.
Proof.
  intros Hden H. unfold ctor_check_last in H.
  apply andb_prop in H. destruct H as (H & Hend). apply andb_prop in H. destruct H as (H & Hny).
  apply andb_prop in H. destruct H as (H & Htr). apply andb_prop in H. destruct H as (H & Hdig).
  apply andb_prop in H. destruct H as (H & Hfirst). apply andb_prop in H. destruct H as (Hlen & Hfull).
  assert (HF : Forall (fun d => 0 <= d <= 9) ds).
  { apply Forall_forall. intros d Hd. unfold digits_ok_b in Hdig. rewrite forallb_forall in Hdig.
    specialize (Hdig d Hd). apply andb_prop in Hdig. destruct Hdig as (H0 & H9). apply Z.leb_le in H0, H9. lia. }
  apply trunc_ok_b_iff in Htr.
  constructor.
  - apply Nat.leb_le. exact Hlen.
  - intros ->. cbn in Hfull. apply Nat.eqb_eq. exact Hfull.
  - exact HF.
  - intros d0 r ->. cbn in Hfirst. lia.
  - apply (trunc_all_prefixes k num den e ds Hden HF Htr).
  - apply (notyet_from_last k num den e ds Hden HF Htr).
    intros r dl E Hex. unfold notyet_b in Hny. rewrite E, rev_app_distr in Hny. cbn [rev app] in Hny.
    rewrite rev_length, rev_involutive in Hny. apply exact_at_b_iff in Hex. rewrite Hex in Hny. discriminate.
  - intros ->. cbn in Hend. now apply exact_at_b_iff.
Qed.

(* and it accepts exactly what the per-prefix checker accepts (for digits of a positive denominator): completeness
   direction - every output the sound per-prefix checker accepts passes the last-only checker *)
Theorem ctor_check_last_complete k num den n e ds ended :
  ctor_check k num den n e ds ended = true -> ctor_check_last k num den n e ds ended = true.
Proof.
  intros H. pose proof (ctor_check_sound k num den n e ds ended H) as [S1 S2 S3 S4 S5 S6 S7].
  unfold ctor_check in H.
  apply andb_prop in H. destruct H as (H & Hend). apply andb_prop in H. destruct H as (H & _).
  apply andb_prop in H. destruct H as (H & Hfirst). apply andb_prop in H. destruct H as (Hlen & Hfull).
  unfold ctor_check_last. rewrite Hlen, Hfull, Hfirst, Hend. cbn [andb].
  assert (digits_ok_b ds = true) as ->.
  { unfold digits_ok_b. apply forallb_forall. intros d Hd. rewrite Forall_forall in S3. specialize (S3 d Hd).
    apply andb_true_intro. split; apply Z.leb_le; lia. }
  assert (trunc_ok_b k num den e (length ds) (val ds) = true) as ->.
  { apply trunc_ok_b_iff. specialize (S5 (length ds) (le_n _)). rewrite firstn_len_all in S5. exact S5. }
  assert (notyet_b k num den e ds = true) as ->; [|reflexivity].
  unfold notyet_b. destruct (rev ds) as [|dl rr] eqn:E; [reflexivity|].
  assert (Eds : ds = rev rr ++ [dl]) by (rewrite <- (rev_involutive ds), E; reflexivity).
  apply negb_true_iff. destruct (exact_at_b k num den e (length rr) (val (rev rr))) eqn:Ex; [|reflexivity].
  exfalso. apply exact_at_b_iff in Ex.
  apply (S6 (length rr)); [rewrite Eds, app_length, rev_length; cbn; lia|].
  rewrite Eds. rewrite firstn_app, rev_length, Nat.sub_diag. cbn [firstn]. rewrite app_nil_r.
  assert (firstn (length rr) (rev rr) = rev rr) as -> by (rewrite <- (rev_length rr); apply firstn_len_all). exact Ex.
Qed.
