(* C06: the wait indices of the read paths through a view's numberSpec (ViewReads.v): a forward traversal of a view
   stopped after k items never waits beyond (clamped start) + k nor beyond the view's limit; deriving the view
   waits for nothing (the dispatch below is all a view's construction consists of). *)
From Coq Require Import Arith List Lia Bool.
Require Import LayerC LayerC2 Demand ViewReads SearchDemand.
Import ListNotations.

Section ViewDemand.
Variable D : nat -> option nat.
Hypothesis D_closed : forall i, D i = None -> D (S i) = None.
Variable W : nat -> nat -> nat * bool.
Hypothesis W_ok : forall c i, WaitOK D i (W c i).

Definition view_scan_demand (big k c : nat) (sp : nspec) (start : nat) : list nat :=
  match sp with
  | NNil => []
  | NMemo => scan_demand W k c start big
  | NLim l => scan_demand W k c (Nat.min start l) (Nat.min big l)
  end.

Theorem view_scan_demand_bound big k c sp start x : In x (view_scan_demand big k c sp start) ->
  x <= (match sp with NLim l => Nat.min start l | _ => start end) + k /\
  (match sp with NLim l => x <= l | _ => True end).
Proof.
  unfold view_scan_demand. destruct sp as [| |l]; intros H.
  - destruct H.
  - split; [apply (stopped_scan_waits D D_closed W W_ok k c start big x H)|exact I].
  - split; [apply (stopped_scan_waits D D_closed W W_ok k c _ _ x H)|].
    destruct (scan_demand_bound D W k c _ _ x H) as [->|(_ & Hl)]; lia.
Qed.

(* At through a view: one wait, for the position asked about, and none when the position is outside the view *)
Definition view_at_demand (sp : nspec) (p : nat) : list nat :=
  match sp with
  | NNil => []
  | NMemo => [p]
  | NLim l => if p <? l then [p] else []
  end.
End ViewDemand.
