(* Termination of the memoizer's transition system between calls (C05): from every reachable state, every
   schedule of internal steps (no new wait call arrives) is finite - its length is bounded by an explicit
   measure G - and a schedule that cannot be extended has returned every pending call.  No fairness assumption:
   nothing in the protocol can spin.  (With new calls arriving for ever, a given reader still needs the lock to
   be granted to it eventually - sync.Mutex's starvation freedom, outside the model.) *)
From Coq Require Import Arith Lia List Bool.
Require Import Conc.
Import ListNotations.

Section Term.
Variable B K : nat.
Hypothesis Bpos : 0 < B.
Variable valid : nat -> bool.

Notation step := (Conc.step B K valid).
Notation reach := (Conc.reach B K valid).
Notation Inv := (Conc.Inv B K).

(* an upper bound on the broadcasts the producer can still make *)
Definition bleft (p : ppcT) : nat :=
  match p with
  | PExit => 0
  | PTop i | PWtg i | PParked i | PWoken i | PComp i _ => K + 1 - i
  | PPubWant f i | PPub f i => 1 + (if f then 0 else K - i)
  | PPubU f i => if f then 0 else K - i
  end.

(* an upper bound on the steps the producer can still take without being signalled again *)
Definition top (i : nat) : nat := (K + 2 - i) * (B + 10).
Definition prk (p : ppcT) : nat :=
  match p with
  | PExit => 0
  | PTop i => top i
  | PWoken i => top (S i) + B + 9
  | PWtg i => top (S i) + B + 8
  | PParked i => top (S i) + B + 6
  | PComp i j => top (S i) + B + 7 - j
  | PPubWant _ i => top (S i) + 3
  | PPub _ i => top (S i) + 2
  | PPubU _ i => top (S i) + 1
  end.

(* steps a reader can still take when c broadcasts remain; a reader that has not yet passed the "raise
   maxLength and signal" point also pays for the producer's wake-up (3) *)
Definition rw (r : rpcT) (c : nat) : nat :=
  match r with
  | RIdle => 0
  | RParked _ => 2 * c
  | RLoop _ => 2 * c + 1
  | RWoken _ => 2 * c + 2
  | RLocked _ => 2 * c + 5
  | RWant _ => 2 * c + 6
  end.

Fixpoint sumw (f : nat -> rpcT) (c n : nat) : nat :=
  match n with O => 0 | S n' => sumw f c n' + rw (f n') c end.

Definition G (n : nat) (s : st) : nat := prk (ppc s) + sumw (rpc s) (bleft (ppc s)) n.

Definition support (s : st) (n : nat) : Prop := forall t, n <= t -> rpc s t = RIdle.

Lemma rw_mono r c c' : c' <= c -> rw r c' <= rw r c.
Proof. destruct r; cbn; lia. Qed.
Lemma sumw_mono f c c' n : c' <= c -> sumw f c' n <= sumw f c n.
Proof. intros H. induction n as [|n IH]; cbn [sumw]; [lia|]. pose proof (rw_mono (f n) c c' H). lia. Qed.

Lemma sumw_ext f g c n : (forall t, t < n -> f t = g t) -> sumw f c n = sumw g c n.
Proof. induction n as [|n IH]; intros H; cbn [sumw]; [reflexivity|]. rewrite IH by (intros; apply H; lia). rewrite H by lia. reflexivity. Qed.

Lemma sumw_upd f t v c n : t < n -> sumw (upd f t v) c n + rw (f t) c = sumw f c n + rw v c.
Proof.
  induction n as [|n IH]; intros H; [lia|]. cbn [sumw].
  destruct (Nat.eq_dec t n) as [->|Hne].
  - rewrite upd_same. rewrite (sumw_ext (upd f n v) f c n); [lia|]. intros u Hu. apply upd_other. lia.
  - rewrite upd_other by lia. specialize (IH ltac:(lia)). lia.
Qed.

Lemma sumw_wake f c n : sumw (wake_all f) c n <= sumw f (S c) n.
Proof.
  induction n as [|n IH]; cbn [sumw]; [lia|].
  assert (rw (wake_all f n) c <= rw (f n) (S c)) by (unfold wake_all; destruct (f n); cbn; lia). lia.
Qed.

Lemma support_upd s t v n : support s n -> t < n -> forall u, n <= u -> upd (rpc s) t v u = RIdle.
Proof. intros Hs Ht u Hu. rewrite upd_other by lia. apply Hs. exact Hu. Qed.

Lemma top_S i : i <= K + 1 -> top i = top (S i) + (B + 10).
Proof. intros H. unfold top. replace (K + 2 - i) with (S (K + 2 - S i)) by lia. cbn [Nat.mul]. lia. Qed.

Ltac simp := cbn [lock dlen done maxlen ppc plocal rpc imax] in *.

(* a reader that is not idle lies inside the support *)
Lemma in_support s n t : support s n -> rpc s t <> RIdle -> t < n.
Proof. intros Hs Ht. destruct (Nat.lt_ge_cases t n) as [H|H]; [exact H|]. elim Ht. apply Hs. exact H. Qed.

(* every internal step lowers G and keeps the support *)
Theorem internal_step_decreases s l s' n : Inv s -> pidx_le K s -> support s n -> step s l s' -> is_call l = false ->
  support s' n /\ G n s' < G n s.
Proof.
  intros I HPI Hs ST Hc. pose proof (i_pos _ _ _ I) as HPos. unfold pidx_le in HPI. unfold G.
  destruct ST; simp; try discriminate;
    try (match goal with H : ppc _ = _ |- _ => rewrite H in *; simp end).
  (* producer steps: the reader table is untouched *)
  - split; [exact Hs|]. cbn [prk bleft]. rewrite (top_S i) by lia. lia.
  - split; [exact Hs|]. cbn [prk bleft]. rewrite (top_S K) by lia. replace (K + 1 - K) with 1 by lia. cbn. lia.
  - split; [exact Hs|]. cbn [prk bleft]. lia.
  - split; [exact Hs|]. cbn [prk bleft]. lia.
  - split; [exact Hs|]. cbn [prk bleft]. lia.
  - split; [exact Hs|]. cbn [prk bleft]. lia.
  - split; [exact Hs|]. cbn [prk bleft].
    pose proof (sumw_mono (rpc s) (K + 1 - i) (1 + 0) n ltac:(lia)). lia.
  - split; [exact Hs|]. cbn [prk bleft].
    pose proof (sumw_mono (rpc s) (K + 1 - i) (1 + (K - i)) n ltac:(lia)). lia.
  - split; [exact Hs|]. cbn [prk bleft]. lia.
  - (* broadcast *)
    split.
    + intros u Hu. simp. unfold wake_all. rewrite (Hs u Hu). reflexivity.
    + cbn [prk bleft]. pose proof (sumw_wake (rpc s) (if f then 0 else K - i) n). cbn [Nat.add]. lia.
  - split; [exact Hs|]. destruct f; cbn [prk bleft].
    + pose proof (sumw_mono (rpc s) 0 0 n ltac:(lia)). lia.
    + destruct HPos as (_ & Hf). specialize (Hf eq_refl).
      replace (K + 1 - S i) with (K - i) by lia. lia.
  (* reader steps *)
  - (* want -> locked *)
    assert (Ht : t < n) by (apply (in_support s n t Hs); congruence).
    split; [intros u Hu; simp; apply (support_upd s t _ n Hs Ht u Hu)|].
    pose proof (sumw_upd (rpc s) t (RLocked x) (bleft (ppc s)) n Ht) as E. rewrite H in E. cbn [rw] in E. lia.
  - (* locked -> loop with signal *)
    assert (Ht : t < n) by (apply (in_support s n t Hs); congruence).
    split; [intros u Hu; simp; apply (support_upd s t _ n Hs Ht u Hu)|].
    assert (Hb : bleft (wake_p (ppc s)) = bleft (ppc s)) by (destruct (ppc s); reflexivity).
    assert (Hp : prk (wake_p (ppc s)) <= prk (ppc s) + 3) by (destruct (ppc s); cbn; lia).
    rewrite Hb.
    pose proof (sumw_upd (rpc s) t (RLoop x) (bleft (ppc s)) n Ht) as E. rewrite H in E. cbn [rw] in E. lia.
  - assert (Ht : t < n) by (apply (in_support s n t Hs); congruence).
    split; [intros u Hu; simp; apply (support_upd s t _ n Hs Ht u Hu)|].
    pose proof (sumw_upd (rpc s) t (RLoop x) (bleft (ppc s)) n Ht) as E. rewrite H in E. cbn [rw] in E. lia.
  - assert (Ht : t < n) by (apply (in_support s n t Hs); congruence).
    split; [intros u Hu; simp; apply (support_upd s t _ n Hs Ht u Hu)|].
    pose proof (sumw_upd (rpc s) t (RParked x) (bleft (ppc s)) n Ht) as E. rewrite H in E. cbn [rw] in E. lia.
  - assert (Ht : t < n) by (apply (in_support s n t Hs); congruence).
    split; [intros u Hu; simp; apply (support_upd s t _ n Hs Ht u Hu)|].
    pose proof (sumw_upd (rpc s) t RIdle (bleft (ppc s)) n Ht) as E. rewrite H in E. cbn [rw] in E. lia.
  - assert (Ht : t < n) by (apply (in_support s n t Hs); congruence).
    split; [intros u Hu; simp; apply (support_upd s t _ n Hs Ht u Hu)|].
    pose proof (sumw_upd (rpc s) t (RLoop x) (bleft (ppc s)) n Ht) as E. rewrite H in E. cbn [rw] in E. lia.
Qed.

(* schedules of internal steps, with their length *)
Inductive isteps_n : nat -> st -> st -> Prop :=
| isn_refl s : isteps_n 0 s s
| isn_step k s l s' s'' : step s l s' -> is_call l = false -> isteps_n k s' s'' -> isteps_n (S k) s s''.

(* every schedule without new calls is finite: at most G n s steps *)
Theorem internal_runs_bounded k s s' n : reach s -> support s n -> isteps_n k s s' ->
  reach s' /\ support s' n /\ k + G n s' <= G n s.
Proof.
  intros Hr Hs Hst. induction Hst as [s|k s l s1 s2 ST Hc Hst IH].
  - split; [exact Hr|]. split; [exact Hs|]. lia.
  - destruct (internal_step_decreases s l s1 n (reach_inv _ _ Bpos _ _ Hr) (reach_pidx _ _ Bpos _ _ Hr) Hs ST Hc) as (Hs1 & Hd).
    assert (Hr1 : reach s1) by (econstructor; eauto).
    destruct (IH Hr1 Hs1) as (H1 & H2 & H3). split; [exact H1|]. split; [exact H2|]. lia.
Qed.

(* and one that cannot be extended has returned every call: together, every maximal schedule of the
   transition system completes all pending waits, without any fairness assumption *)
Theorem stuck_means_all_returned k s s' n : reach s -> support s n -> isteps_n k s s' ->
  (forall l s'', step s' l s'' -> is_call l = true) -> forall t, rpc s' t = RIdle.
Proof.
  intros Hr Hs Hst Hstuck t. destruct (internal_runs_bounded k s s' n Hr Hs Hst) as (Hr' & _ & _).
  destruct (rpc s' t) eqn:Et; [reflexivity| | | | |];
    (assert (Hne : exists u, rpc s' u <> RIdle) by (exists t; congruence);
     destruct (deadlock_free _ _ Bpos _ _ Hr' Hne) as (l & s2 & ST & Hc);
     rewrite (Hstuck l s2 ST) in Hc; discriminate).
Qed.

(* reachable states have finite support *)
Theorem reach_support s : reach s -> exists n, support s n.
Proof.
  induction 1 as [|s l s' Hr (n & Hs) ST].
  - exists 0. intros t _. reflexivity.
  - destruct ST; simp; try (exists n; exact Hs).
    + exists n. intros u Hu. simp. unfold wake_all. rewrite (Hs u Hu). reflexivity.
    + exists (Nat.max n (S t)). intros u Hu. simp. rewrite upd_other by lia. apply Hs. lia.
    + exists (Nat.max n (S t)). intros u Hu. simp. rewrite upd_other by lia. apply Hs. lia.
    + exists (Nat.max n (S t)). intros u Hu. simp. rewrite upd_other by lia. apply Hs. lia.
    + exists (Nat.max n (S t)). intros u Hu. simp. rewrite upd_other by lia. apply Hs. lia.
    + exists (Nat.max n (S t)). intros u Hu. simp. rewrite upd_other by lia. apply Hs. lia.
    + exists (Nat.max n (S t)). intros u Hu. simp. rewrite upd_other by lia. apply Hs. lia.
    + exists (Nat.max n (S t)). intros u Hu. simp. rewrite upd_other by lia. apply Hs. lia.
Qed.
End Term.
