(* Generic runner for digit generators (closures returned by computeRootDigits / groupsToDigits):
   run a step function k times, stop at the first -1, collect the digits. *)
From Coq Require Import ZArith Lia List.
Import ListNotations.
Open Scope Z_scope.

Fixpoint val_from (P : Z) (ds : list Z) : Z :=
  match ds with [] => P | d :: r => val_from (10 * P + d) r end.
Definition val (ds : list Z) : Z := val_from 0 ds.

Lemma val_from_app P a b : val_from P (a ++ b) = val_from (val_from P a) b.
Proof. revert P; induction a as [|x a IH]; intros P; cbn; auto. Qed.

Section Run.
  Variable St : Type.
  Variable step : St -> option (Z * St).

  Fixpoint run_list (k : nat) (st : St) : option (list Z * bool * St) :=
    match k with
    | O => Some ([], false, st)
    | S k' =>
      match step st with
      | None => None
      | Some (d, st') =>
        if d =? -1 then Some ([], true, st)
        else match run_list k' st' with
             | None => None
             | Some (ds, e, s'') => Some (d :: ds, e, s'')
             end
      end
    end.

  Variable I : nat -> Z -> St -> Prop.        (* invariant after c digits with value P *)
  Variable E : nat -> Z -> Prop.              (* "the c digits are exact" *)
  Hypothesis step_inv : forall c P st, I c P st ->
    exists dg st', step st = Some (dg, st') /\
      ((dg = -1 /\ E c P) \/ (0 <= dg <= 9 /\ I (S c) (10 * P + dg) st' /\ ~ E c P)).

  Theorem run_list_spec : forall k c P st, I c P st ->
    exists ds ended st', run_list k st = Some (ds, ended, st') /\
      (length ds <= k)%nat /\ (ended = false -> length ds = k) /\
      Forall (fun d => 0 <= d <= 9) ds /\
      (forall j, (j <= length ds)%nat -> exists s, I (c + j) (val_from P (firstn j ds)) s) /\
      (forall j, (j < length ds)%nat -> ~ E (c + j) (val_from P (firstn j ds))) /\
      (ended = true -> E (c + length ds) (val_from P ds)) /\
      I (c + length ds) (val_from P ds) st'.
  Proof.
    induction k as [|k IH]; intros c P st HI.
    - exists [], false, st. cbn [run_list length firstn val_from]. rewrite Nat.add_0_r.
      split; [reflexivity|]. split; [lia|]. split; [reflexivity|]. split; [constructor|].
      split. { intros j Hj. assert (j = 0%nat) by lia. subst. rewrite Nat.add_0_r. cbn. exists st. exact HI. }
      split. { intros j Hj. lia. }
      split; [discriminate|exact HI].
    - cbn [run_list]. destruct (step_inv c P st HI) as (dg & st' & Hs & Hc). rewrite Hs.
      destruct Hc as [(-> & HE)|(Hdg & HI' & HnE)].
      + cbn [Z.eqb Pos.eqb]. exists [], true, st. cbn [length firstn val_from]. rewrite Nat.add_0_r.
        split; [reflexivity|]. split; [lia|]. split; [discriminate|]. split; [constructor|].
        split. { intros j Hj. assert (j = 0%nat) by lia. subst. rewrite Nat.add_0_r. cbn. exists st. exact HI. }
        split. { intros j Hj. lia. }
        split; [intros _; exact HE|exact HI].
      + destruct (Z.eqb_spec dg (-1)); [lia|].
        destruct (IH (S c) (10 * P + dg) st' HI') as (ds & ended & st'' & Hr & Hlen & Hnot & Hrng & Hpre & HnotE & Hend & Hfin).
        rewrite Hr. exists (dg :: ds), ended, st''. cbn [length].
        split; [reflexivity|]. split; [lia|]. split. { intros Hf. specialize (Hnot Hf). lia. }
        split. { constructor; auto. }
        split. { intros [|j] Hj.
          - rewrite Nat.add_0_r. cbn. exists st. exact HI.
          - cbn [firstn val_from]. replace (c + S j)%nat with (S c + j)%nat by lia. apply Hpre. lia. }
        split. { intros [|j] Hj.
          - rewrite Nat.add_0_r. cbn. exact HnE.
          - cbn [firstn val_from]. replace (c + S j)%nat with (S c + j)%nat by lia. apply HnotE. lia. }
        cbn [val_from]. replace (c + S (length ds))%nat with (S c + length ds)%nat by lia. split; auto.
  Qed.

  (* running further only extends the digit list *)
  Lemma run_list_prefix : forall k st ds ended st', run_list k st = Some (ds, ended, st') ->
    forall j, (j <= length ds)%nat -> exists s, run_list j st = Some (firstn j ds, false, s).
  Proof.
    induction k as [|k IH]; intros st ds ended st' H j Hj.
    - cbn in H. inversion H; subst. cbn in Hj. assert (j = 0%nat) by lia. subst. cbn. eauto.
    - cbn [run_list] in H. destruct j as [|j]; [cbn; eauto|].
      destruct (step st) as [[d s1]|] eqn:Es; [|discriminate].
      destruct (d =? -1) eqn:Ed.
      + inversion H; subst. cbn in Hj. lia.
      + destruct (run_list k s1) as [[[ds1 e1] s2]|] eqn:Er; [|discriminate].
        inversion H; subst. cbn [length] in Hj.
        destruct (IH s1 ds1 ended st' Er j ltac:(lia)) as (s & Hs).
        cbn [run_list firstn]. rewrite Es, Ed, Hs. eauto.
  Qed.
  (* one more step *)
  Lemma run_list_snoc : forall n st ds st', run_list n st = Some (ds, false, st') ->
    run_list (S n) st =
      match step st' with
      | None => None
      | Some (d, st'') => if d =? -1 then Some (ds, true, st') else Some (ds ++ [d], false, st'')
      end.
  Proof.
    induction n as [|n IH]; intros st ds st' H.
    - cbn in H. inversion H; subst. cbn [run_list]. destruct (step st') as [[d s]|]; [|reflexivity].
      destruct (d =? -1); reflexivity.
    - remember (S n) as m. cbn [run_list]. subst m. cbn [run_list] in H.
      destruct (step st) as [[d s1]|] eqn:Es; [|discriminate].
      destruct (d =? -1) eqn:Ed; [discriminate|].
      destruct (run_list n s1) as [[[ds1 e1] s2]|] eqn:Er; [|discriminate].
      inversion H; subst. rewrite (IH s1 ds1 st' Er).
      destruct (step st') as [[d2 s3]|]; [|reflexivity]. destruct (d2 =? -1); reflexivity.
  Qed.

  (* the sequence ends after exactly n digits iff the n digits are exact *)
  Lemma run_list_end_iff : forall n c P st ds st', I c P st -> run_list n st = Some (ds, false, st') ->
    (E (c + n) (val_from P ds) <-> option_map fst (run_list (S n) st) = Some (ds, true)).
  Proof.
    intros n c P st ds st' HI Hr.
    destruct (run_list_spec n c P st HI) as (ds0 & en0 & st0 & Hr0 & _ & Hfull & _ & _ & _ & _ & Hfin).
    rewrite Hr in Hr0. inversion Hr0; subst ds0 en0 st0. rewrite (Hfull eq_refl) in Hfin.
    rewrite (run_list_snoc n st ds st' Hr).
    destruct (step_inv _ _ _ Hfin) as (dg & s2 & Hs & Hc). rewrite Hs.
    destruct Hc as [(-> & HE)|(Hdg & _ & HnE)].
    - cbn. split; auto.
    - destruct (Z.eqb_spec dg (-1)); [lia|]. cbn. split; [tauto|]. intros H. inversion H.
  Qed.
End Run.

Arguments run_list {St} step k st.
