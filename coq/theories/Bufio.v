From Coq Require Import ZArith List Lia Bool.
Import ListNotations.

(* ---- model of bufio.Writer over an arbitrary underlying writer ---- *)
Section Bufio.
Variable wst : Type.                                   (* state of the underlying io.Writer *)
Variable wstep : wst -> list Z -> nat * bool * wst.    (* Write(p) = (n, err != nil, new state) *)
Variable size : nat.                                   (* len(b.buf) *)

(* acc: every byte the underlying writer has accepted so far (what countingWriter counts);
   buf: b.buf[0:b.n]; berr: b.err != nil *)
Record bst := mk { acc : list Z; buf : list Z; berr : bool; ws : wst; ncalls : nat; after_err : nat; nfault : nat }.

Definition under (s : bst) (p : list Z) : nat * bool * bst :=
  let '(n, e, w') := wstep (ws s) p in
  let n := Nat.min n (length p) in                     (* io.Writer contract: 0 <= n <= len(p) *)
  (n, e, mk (acc s ++ firstn n p) (buf s) (berr s) w' (S (ncalls s))
            (if berr s then S (after_err s) else after_err s)
            (if e || (n <? length p)%nat then S (nfault s) else nfault s)).

(* func (b *Writer) Flush() error *)
Definition flush (s : bst) : bst :=
  if berr s then s
  else match buf s with
       | [] => s
       | _ =>
         let '(n, e, s1) := under s (buf s) in
         let e' := e || (n <? length (buf s))%nat in
         if e' then mk (acc s1) (skipn n (buf s)) true (ws s1) (ncalls s1) (after_err s1) (nfault s1)
         else mk (acc s1) [] false (ws s1) (ncalls s1) (after_err s1) (nfault s1)
       end.

(* func (b *Writer) Write(p []byte): returns the state and the part of p that was neither buffered nor accepted *)
Fixpoint write (fuel : nat) (s : bst) (p : list Z) : option (bst * list Z) :=
  if (size - length (buf s) <? length p)%nat && negb (berr s) then
    match fuel with
    | O => None
    | S f =>
      match buf s with
      | [] =>                                          (* large write, empty buffer: write directly *)
        let '(n, e, s1) := under s p in
        write f (mk (acc s1) (buf s1) e (ws s1) (ncalls s1) (after_err s1) (nfault s1)) (skipn n p)
      | _ =>
        let k := (size - length (buf s))%nat in
        let s1 := mk (acc s) (buf s ++ firstn k p) (berr s) (ws s) (ncalls s) (after_err s) (nfault s) in
        write f (flush s1) (skipn k p)
      end
    end
  else if berr s then Some (s, p)
  else Some (mk (acc s) (buf s ++ p) (berr s) (ws s) (ncalls s) (after_err s) (nfault s), []).

(* func (b *Writer) WriteString(s string) when the underlying writer is not an io.StringWriter: never direct *)
Fixpoint write_string (fuel : nat) (s : bst) (p : list Z) : option (bst * list Z) :=
  if (size - length (buf s) <? length p)%nat && negb (berr s) then
    match fuel with
    | O => None
    | S f =>
      let k := (size - length (buf s))%nat in
      let s1 := mk (acc s) (buf s ++ firstn k p) (berr s) (ws s) (ncalls s) (after_err s) (nfault s) in
      write_string f (flush s1) (skipn k p)
    end
  else if berr s then Some (s, p)
  else Some (mk (acc s) (buf s ++ p) (berr s) (ws s) (ncalls s) (after_err s) (nfault s), []).

(* func (b *Writer) WriteByte(c byte) *)
Definition write_byte (s : bst) (c : Z) : bst * list Z :=
  if berr s then (s, [c])
  else
    let s1 := if (size - length (buf s) <=? 0)%nat then flush s else s in
    if berr s1 then (s1, [c])
    else (mk (acc s1) (buf s1 ++ [c]) false (ws s1) (ncalls s1) (after_err s1) (nfault s1), []).

(* func (b *Writer) WriteRune(r rune), bs = UTF-8 encoding of r *)
Definition write_rune (fuel : nat) (s : bst) (bs : list Z) : option (bst * list Z) :=
  match bs with
  | [c] => Some (write_byte s c)
  | _ =>
    if berr s then Some (s, bs)
    else
      let s1 := if (size - length (buf s) <? 4)%nat then flush s else s in
      if berr s1 then Some (s1, bs)
      else if (size - length (buf s1) <? 4)%nat then write_string fuel s1 bs
      else Some (mk (acc s1) (buf s1 ++ bs) false (ws s1) (ncalls s1) (after_err s1) (nfault s1), [])
  end.

(* ---- invariants ---- *)
Definition good (s : bst) : Prop := after_err s = 0 /\ (length (buf s) <= size)%nat /\ (berr s = true -> 0 < nfault s).

Lemma under_spec s p : berr s = false ->
  let '(n, e, s1) := under s p in
  (n <= length p)%nat /\ acc s1 = acc s ++ firstn n p /\ buf s1 = buf s /\ berr s1 = berr s /\
  after_err s1 = after_err s /\
  nfault s1 = (if e || (n <? length p)%nat then S (nfault s) else nfault s).
Proof.
  intros Hb. unfold under. destruct (wstep (ws s) p) as [[n e] w']. cbn. rewrite Hb.
  repeat split; auto; apply Nat.le_min_r.
Qed.

Ltac mkgood := unfold good; cbn [acc buf berr ws ncalls after_err nfault].

Lemma flush_spec s : good s ->
  acc (flush s) ++ buf (flush s) = acc s ++ buf s /\ good (flush s) /\
  (berr s = true -> flush s = s) /\ (berr (flush s) = false -> buf (flush s) = [] \/ flush s = s).
Proof.
  intros (Ha & Hl & Hf). unfold flush. destruct (berr s) eqn:Eb.
  - split; [reflexivity|]. split; [mkgood; rewrite Eb; auto|]. split; auto.
  - destruct (buf s) as [|b0 bs] eqn:Ebuf.
    + split; [rewrite ?Ebuf; reflexivity|]. split; [mkgood; rewrite ?Eb, ?Ebuf; repeat split; auto; discriminate|].
      split; [discriminate|]. intros _. right. reflexivity.
    + rewrite <- Ebuf in *. pose proof (under_spec s (buf s) Eb) as H.
      destruct (under s (buf s)) as [[n e] s1]. destruct H as (Hn & Hacc & Hbuf & Hberr & Hae & Hnf).
      destruct (e || (n <? length (buf s))%nat) eqn:Ee; cbn.
      * split; [rewrite Hacc, <- app_assoc, firstn_skipn; reflexivity|].
        split; [mkgood; repeat split; [lia|rewrite skipn_length; lia|intros _; lia]|].
        split; [discriminate|discriminate].
      * apply orb_false_iff in Ee. destruct Ee as (_ & Hlt). apply Nat.ltb_ge in Hlt.
        split; [rewrite Hacc, firstn_all2 by lia; rewrite app_nil_r; reflexivity|].
        split; [mkgood; repeat split; [lia|cbn; lia|discriminate]|].
        split; [discriminate|]. intros _. left. reflexivity.
Qed.

Definition OpInv (s : bst) (p : list Z) (s' : bst) (rem : list Z) : Prop :=
  acc s' ++ buf s' ++ rem = acc s ++ buf s ++ p /\ good s' /\
  (berr s' = false -> rem = []) /\ (berr s = true -> s' = s /\ rem = p).

Lemma OpInv_err s p : good s -> berr s = true -> OpInv s p s p.
Proof. intros Hg Eb. unfold OpInv. split; [reflexivity|]. split; [exact Hg|]. split; [intros; congruence|intros; auto]. Qed.

Lemma OpInv_intro s p s' rem : berr s = false ->
  acc s' ++ buf s' ++ rem = acc s ++ buf s ++ p -> good s' -> (berr s' = false -> rem = []) -> OpInv s p s' rem.
Proof. intros Eb H1 H2 H3. unfold OpInv. split; [exact H1|]. split; [exact H2|]. split; [exact H3|]. intros; congruence. Qed.

Lemma OpInv_pre s s1 p s' rem : berr s = false -> acc s1 ++ buf s1 = acc s ++ buf s ->
  OpInv s1 p s' rem -> OpInv s p s' rem.
Proof.
  intros Eb Hs (H1 & H2 & H3 & H4). apply OpInv_intro; auto.
  rewrite H1, app_assoc, Hs, <- app_assoc. reflexivity.
Qed.

(* appending to the buffer when it fits *)
Lemma OpInv_buffer s p : good s -> berr s = false -> (length (buf s) + length p <= size)%nat ->
  OpInv s p (mk (acc s) (buf s ++ p) false (ws s) (ncalls s) (after_err s) (nfault s)) [].
Proof.
  intros (Ha & Hl & Hf) Eb Hfit. apply OpInv_intro; auto.
  - cbn. now rewrite app_nil_r.
  - mkgood. rewrite app_length. repeat split; auto. discriminate.
Qed.

(* one round of "fill the buffer, flush" *)
Lemma fill_flush s p : good s -> berr s = false ->
  let k := (size - length (buf s))%nat in
  let s1 := mk (acc s) (buf s ++ firstn k p) (berr s) (ws s) (ncalls s) (after_err s) (nfault s) in
  good (flush s1) /\ acc (flush s1) ++ buf (flush s1) ++ skipn k p = acc s ++ buf s ++ p.
Proof.
  intros (Ha & Hl & Hf) Eb k s1.
  assert (Hg1 : good s1).
  { unfold s1. mkgood. rewrite app_length, firstn_length. repeat split; auto; lia. }
  destruct (flush_spec s1 Hg1) as (F1 & F2 & _ & _). split; [exact F2|].
  rewrite app_assoc, F1. unfold s1; cbn. rewrite <- !app_assoc. f_equal. f_equal. apply firstn_skipn.
Qed.

Lemma write_spec fuel : forall s p s' rem, good s -> write fuel s p = Some (s', rem) -> OpInv s p s' rem.
Proof.
  induction fuel as [|f IH]; intros s p s' rem Hg Hw; cbn [write] in Hw.
  - destruct ((size - length (buf s) <? length p)%nat && negb (berr s)) eqn:Ec; [discriminate|].
    destruct (berr s) eqn:Eb; inversion Hw; subst; clear Hw; [apply OpInv_err; auto|].
    apply andb_false_iff in Ec. destruct Ec as [Ec|Ec]; [|discriminate]. apply Nat.ltb_ge in Ec.
    apply OpInv_buffer; auto. destruct Hg as (_ & Hl & _). lia.
  - destruct ((size - length (buf s) <? length p)%nat && negb (berr s)) eqn:Ec.
    + apply andb_true_iff in Ec. destruct Ec as (Ec & Eb). apply negb_true_iff in Eb.
      destruct (buf s) as [|b0 bs] eqn:Ebuf.
      * (* direct write *)
        pose proof (under_spec s p Eb) as H. destruct (under s p) as [[n e] s1].
        destruct H as (Hn & Hacc & Hbuf & Hberr & Hae & Hnf).
        apply IH in Hw.
        -- destruct Hw as (H1 & H2 & H3 & _). cbn in *. apply OpInv_intro; auto.
           rewrite H1, Hacc, Hbuf, Ebuf. cbn. rewrite <- app_assoc, firstn_skipn. reflexivity.
        -- destruct Hg as (Ha & Hl & Hf). mkgood. rewrite Hbuf, Ebuf. cbn. repeat split; try lia.
           intros He. rewrite Hnf, He. cbn. lia.
      * rewrite <- Ebuf in *. destruct (fill_flush s p Hg Eb) as (G1 & G2).
        apply IH in Hw; [|exact G1]. destruct Hw as (H1 & H2 & H3 & _).
        apply OpInv_intro; auto. rewrite H1. exact G2.
    + destruct (berr s) eqn:Eb; inversion Hw; subst; clear Hw; [apply OpInv_err; auto|].
      apply andb_false_iff in Ec. destruct Ec as [Ec|Ec]; [|discriminate]. apply Nat.ltb_ge in Ec.
      apply OpInv_buffer; auto. destruct Hg as (_ & Hl & _). lia.
Qed.

Lemma write_string_spec fuel : forall s p s' rem, good s -> write_string fuel s p = Some (s', rem) -> OpInv s p s' rem.
Proof.
  induction fuel as [|f IH]; intros s p s' rem Hg Hw; cbn [write_string] in Hw.
  - destruct ((size - length (buf s) <? length p)%nat && negb (berr s)) eqn:Ec; [discriminate|].
    destruct (berr s) eqn:Eb; inversion Hw; subst; clear Hw; [apply OpInv_err; auto|].
    apply andb_false_iff in Ec. destruct Ec as [Ec|Ec]; [|discriminate]. apply Nat.ltb_ge in Ec.
    apply OpInv_buffer; auto. destruct Hg as (_ & Hl & _). lia.
  - destruct ((size - length (buf s) <? length p)%nat && negb (berr s)) eqn:Ec.
    + apply andb_true_iff in Ec. destruct Ec as (Ec & Eb). apply negb_true_iff in Eb.
      destruct (fill_flush s p Hg Eb) as (G1 & G2).
      apply IH in Hw; [|exact G1]. destruct Hw as (H1 & H2 & H3 & _).
      apply OpInv_intro; auto. rewrite H1. exact G2.
    + destruct (berr s) eqn:Eb; inversion Hw; subst; clear Hw; [apply OpInv_err; auto|].
      apply andb_false_iff in Ec. destruct Ec as [Ec|Ec]; [|discriminate]. apply Nat.ltb_ge in Ec.
      apply OpInv_buffer; auto. destruct Hg as (_ & Hl & _). lia.
Qed.

Hypothesis size_pos : (0 < size)%nat.

(* after a successful flush of a non-empty buffer the buffer is empty *)
Lemma flush_ok_empty s : good s -> berr (flush s) = false -> buf (flush s) = [].
Proof.
  intros Hg Hok. destruct (flush_spec s Hg) as (_ & _ & F3 & F4).
  destruct (F4 Hok) as [H|H]; auto.
  unfold flush in *. destruct (berr s) eqn:Eb; [congruence|].
  destruct (buf s) eqn:Ebuf; [rewrite Ebuf; reflexivity|].
  pose proof (under_spec s (buf s) Eb) as U. rewrite Ebuf in U.
  destruct (under s (z :: l)) as [[n e] s1].
  destruct (e || (n <? length (z :: l))%nat); cbn in Hok; [discriminate|reflexivity].
Qed.

Lemma write_byte_spec s c : good s -> let '(s', rem) := write_byte s c in OpInv s [c] s' rem.
Proof.
  intros Hg. unfold write_byte. destruct (berr s) eqn:Eb; [apply OpInv_err; auto|].
  destruct (size - length (buf s) <=? 0)%nat eqn:Ef.
  - destruct (flush_spec s Hg) as (F1 & F2 & _ & _).
    destruct (berr (flush s)) eqn:Eb1.
    + apply (OpInv_pre s (flush s)); auto. apply OpInv_err; auto.
    + apply (OpInv_pre s (flush s)); auto. apply OpInv_buffer; auto.
      rewrite (flush_ok_empty s Hg Eb1). cbn. lia.
  - apply Nat.leb_gt in Ef. rewrite Eb. apply OpInv_buffer; auto. cbn. lia.
Qed.

Definition rune_multi (fuel : nat) (s : bst) (bs : list Z) : option (bst * list Z) :=
  if berr s then Some (s, bs)
  else
    let s1 := if (size - length (buf s) <? 4)%nat then flush s else s in
    if berr s1 then Some (s1, bs)
    else if (size - length (buf s1) <? 4)%nat then write_string fuel s1 bs
    else Some (mk (acc s1) (buf s1 ++ bs) false (ws s1) (ncalls s1) (after_err s1) (nfault s1), []).

Lemma rune_multi_spec fuel s bs s' rem : (length bs <= 4)%nat -> good s ->
  rune_multi fuel s bs = Some (s', rem) -> OpInv s bs s' rem.
Proof.
  intros Hlen Hg Hw. unfold rune_multi in Hw.
  destruct (berr s) eqn:Eb; [inversion Hw; subst; apply OpInv_err; auto|].
  destruct (flush_spec s Hg) as (F1 & F2 & F3 & F4).
  set (s1 := if (size - length (buf s) <? 4)%nat then flush s else s) in *.
  assert (G : good s1 /\ acc s1 ++ buf s1 = acc s ++ buf s) by (unfold s1; destruct (_ <? _)%nat; auto).
  destruct G as (G1 & G2).
  apply (OpInv_pre s s1); auto.
  destruct (berr s1) eqn:Eb1; [inversion Hw; subst; apply OpInv_err; auto|].
  destruct (size - length (buf s1) <? 4)%nat eqn:E4.
  - apply write_string_spec in Hw; auto.
  - inversion Hw; subst. apply Nat.ltb_ge in E4. apply OpInv_buffer; auto. lia.
Qed.

Lemma write_rune_spec fuel s bs s' rem : (length bs <= 4)%nat -> good s ->
  write_rune fuel s bs = Some (s', rem) -> OpInv s bs s' rem.
Proof.
  intros Hlen Hg Hw. destruct bs as [|c [|c2 bs2]].
  - apply (rune_multi_spec fuel); auto.
  - cbn in Hw. inversion Hw as [E]. pose proof (write_byte_spec s c Hg) as H. rewrite E in H. exact H.
  - apply (rune_multi_spec fuel); auto.
Qed.

(* ---- a client that issues operations until one reports an error, then Flushes (rawPrinter + Finish) ---- *)
Inductive op := OWrite (p : list Z) | OString (p : list Z) | OByte (c : Z) | ORune (bs : list Z).

Definition op_bytes (o : op) : list Z :=
  match o with OWrite p | OString p => p | OByte c => [c] | ORune bs => bs end.

Definition op_ok (o : op) : Prop := match o with ORune bs => (length bs <= 4)%nat | _ => True end.

Definition do_op (fuel : nat) (s : bst) (o : op) : option (bst * list Z) :=
  match o with
  | OWrite p => write fuel s p
  | OString p => write_string fuel s p
  | OByte c => Some (write_byte s c)
  | ORune bs => write_rune fuel s bs
  end.

Lemma do_op_spec fuel s o s' rem : op_ok o -> good s -> do_op fuel s o = Some (s', rem) -> OpInv s (op_bytes o) s' rem.
Proof.
  intros Hok Hg H. destruct o; cbn in *.
  - eapply write_spec; eauto.
  - eapply write_string_spec; eauto.
  - inversion H as [E]. pose proof (write_byte_spec s c Hg) as W. rewrite E in W. exact W.
  - eapply write_rune_spec; eauto.
Qed.

(* returns the final state, the bytes never handed to the underlying writer, and how many operations were issued *)
Fixpoint exec (fuel : nat) (s : bst) (ops : list op) (issued : nat) : option (bst * list Z * nat) :=
  match ops with
  | [] => Some (s, [], issued)
  | o :: r =>
    match do_op fuel s o with
    | None => None
    | Some (s', rem) =>
      if berr s' then Some (s', rem ++ concat (map op_bytes r), S issued)      (* p.err latched: stop *)
      else exec fuel s' r (S issued)
    end
  end.

Lemma exec_spec fuel : forall ops s issued s' rem issued', Forall op_ok ops -> good s -> berr s = false ->
  exec fuel s ops issued = Some (s', rem, issued') ->
  acc s' ++ buf s' ++ rem = acc s ++ buf s ++ concat (map op_bytes ops) /\ good s' /\
  (berr s' = false -> rem = [] /\ issued' = (issued + length ops)%nat).
Proof.
  induction ops as [|o r IH]; intros s issued s' rem issued' Hok Hg Eb H; cbn [exec] in H.
  - inversion H; subst. cbn. rewrite !app_nil_r. split; [reflexivity|]. split; [exact Hg|]. intros _. split; [reflexivity|]. cbn. lia.
  - inversion Hok as [|? ? Ho Hr]; subst.
    destruct (do_op fuel s o) as [[s1 rem1]|] eqn:Ed; [|discriminate].
    apply do_op_spec in Ed; auto. destruct Ed as (D1 & D2 & D3 & _).
    cbn [map concat]. destruct (berr s1) eqn:Eb1.
    + inversion H; subst. split; [|split; [exact D2|intros; congruence]].
      rewrite app_assoc, app_assoc, <- (app_assoc (acc s')), D1, <- !app_assoc. reflexivity.
    + specialize (D3 eq_refl). subst rem1. rewrite app_nil_r in D1.
      apply IH in H; auto. destruct H as (H1 & H2 & H3).
      split; [|split; [exact H2|]].
      * rewrite H1, app_assoc, D1, <- !app_assoc. reflexivity.
      * intros E. destruct (H3 E) as (-> & ->). split; auto. cbn. lia.
Qed.

(* C12 at the bufio level.  T = the bytes of all operations = the fault-free output. *)
Theorem client_faults fuel ops w0 s1 rem issued :
  Forall op_ok ops ->
  exec fuel (mk [] [] false w0 0 0 0) ops 0 = Some (s1, rem, issued) ->
  let sF := flush s1 in                      (* Finish *)
  let T := concat (map op_bytes ops) in
  (exists rest, T = acc sF ++ rest) /\       (* accepted bytes are a prefix of the fault-free output *)
  after_err sF = 0 /\                        (* the underlying writer is never called again once an error is latched *)
  (berr sF = false -> acc sF = T /\ issued = length ops) /\   (* no error reported => delivered completely *)
  (berr sF = true -> 0 < nfault sF).         (* error reported => some Write call returned an error or a short count *)
Proof.
  intros Hok He sF T.
  assert (G0 : good (mk [] [] false w0 0 0 0)) by (mkgood; repeat split; auto; cbn; try lia; discriminate).
  destruct (exec_spec fuel ops _ 0%nat s1 rem issued Hok G0 eq_refl He) as (E1 & E2 & E3). cbn in E1.
  destruct (flush_spec s1 E2) as (F1 & F2 & F3 & F4). fold sF in F1, F2, F3, F4.
  split; [|split; [apply F2|split]].
  - exists (buf sF ++ rem). fold T in E1. rewrite <- E1, app_assoc, <- F1, <- app_assoc. reflexivity.
  - intros Hok'. destruct (berr s1) eqn:Eb1.
    + rewrite (F3 eq_refl) in Hok'. congruence.
    + destruct (E3 eq_refl) as (-> & ->). rewrite app_nil_r in E1. split; [|reflexivity].
      fold T in E1. rewrite <- E1, <- F1. unfold sF. rewrite (flush_ok_empty s1 E2 Hok'). now rewrite app_nil_r.
  - apply F2.
Qed.
End Bufio.
