(* C09: the backward searches report the same occurrences as the forward ones, in descending order:
   occ_bwd pat lo w = rev (occ_fwd pat lo w). *)
From Coq Require Import ZArith List Lia Bool Arith Sorted.
Require Import KmpModel KmpSpec KmpProof FindModel.
Import ListNotations.
Local Close Scope Z_scope.

(* ---- occurrence of pat in w starting at index i ---- *)
Definition occurs_at (pat w : list Z) (i : nat) : Prop :=
  i + length pat <= length w /\ forall j, j < length pat -> nth_error pat j = nth_error w (i + j).

Lemma nth_error_firstn {A} (l : list A) n j : j < n -> nth_error (firstn n l) j = nth_error l j.
Proof.
  revert l j. induction n as [|n IH]; intros l j H; [lia|].
  destruct l as [|a l]; [destruct j; reflexivity|]. destruct j as [|j]; [reflexivity|]. cbn. apply IH. lia.
Qed.

Lemma nth_error_rev {A} (l : list A) t : t < length l -> nth_error (rev l) t = nth_error l (length l - 1 - t).
Proof.
  intros H. destruct (nth_error l (length l - 1 - t)) as [x|] eqn:E.
  - assert (Hd : nth (length l - 1 - t) l x = x) by (apply nth_error_nth; exact E).
    rewrite <- Hd. replace (length l - 1 - t) with (length l - S t) by lia.
    rewrite <- (rev_nth l x H). apply nth_error_nth'. rewrite rev_length. exact H.
  - apply nth_error_None in E. lia.
Qed.

(* what spec_ends reports: q is reported iff pat occurs at q + 1 - |pat| *)
Lemma reported_iff pat w q : 1 <= length pat -> q < length w ->
  (Pb pat (firstn (S q) w) (length pat) = true <-> length pat <= S q /\ occurs_at pat w (S q - length pat)).
Proof.
  intros Hm Hq. rewrite Pb_spec. unfold P, occurs_at.
  assert (Hl : length (firstn (S q) w) = S q) by (rewrite firstn_length; lia). rewrite Hl.
  split.
  - intros (H1 & _ & H3). split; [exact H1|]. split; [lia|].
    intros j Hj. rewrite (H3 j Hj). rewrite nth_error_firstn by lia. reflexivity.
  - intros (H1 & H2 & H3). split; [exact H1|]. split; [lia|].
    intros j Hj. rewrite (H3 j Hj). rewrite nth_error_firstn by lia. reflexivity.
Qed.

Lemma in_spec_ends pat w z : 1 <= length pat ->
  (In z (spec_ends pat w 0 (length w)) <->
   exists q, z = Z.of_nat q /\ q < length w /\ length pat <= S q /\ occurs_at pat w (S q - length pat)).
Proof.
  intros Hm. unfold spec_ends. rewrite in_map_iff. split.
  - intros (q & <- & Hin). apply filter_In in Hin. destruct Hin as (Hs & Hp). apply in_seq in Hs.
    exists q. split; [reflexivity|]. split; [lia|]. apply reported_iff; auto. lia.
  - intros (q & -> & Hq & Hr). exists q. split; [reflexivity|]. apply filter_In. split; [apply in_seq; lia|].
    apply reported_iff; auto.
Qed.

(* occurrences of the reversed pattern in the reversed text *)
Lemma occurs_rev pat w i : i + length pat <= length w ->
  (occurs_at (rev pat) (rev w) i <-> occurs_at pat w (length w - length pat - i)).
Proof.
  intros Hi. unfold occurs_at. rewrite !rev_length. split.
  - intros (_ & H). split; [lia|]. intros j Hj.
    specialize (H (length pat - 1 - j) ltac:(lia)).
    rewrite nth_error_rev in H by lia. rewrite nth_error_rev in H by lia.
    replace (length pat - 1 - (length pat - 1 - j)) with j in H by lia.
    rewrite H. f_equal. clear H. revert Hi Hj. generalize (length w) (length pat). intros a m Hi Hj. lia.
  - intros (_ & H). split; [lia|]. intros j Hj.
    rewrite nth_error_rev by lia. rewrite nth_error_rev by lia.
    rewrite (H (length pat - 1 - j) ltac:(lia)). f_equal. lia.
Qed.

(* ---- sorted lists with the same elements are equal ---- *)
Lemma sorted_same l1 : forall l2, StronglySorted Z.lt l1 -> StronglySorted Z.lt l2 ->
  (forall x, In x l1 <-> In x l2) -> l1 = l2.
Proof.
  induction l1 as [|a l1 IH]; intros l2 S1 S2 H.
  - destruct l2 as [|b l2]; [reflexivity|]. exfalso. apply (proj2 (H b)). now left.
  - destruct l2 as [|b l2]; [exfalso; apply (proj1 (H a)); now left|].
    inversion S1 as [|? ? S1' F1]; subst. inversion S2 as [|? ? S2' F2]; subst.
    rewrite Forall_forall in F1, F2.
    assert (a = b).
    { destruct (proj1 (H a) (or_introl eq_refl)) as [E|E]; [auto|].
      destruct (proj2 (H b) (or_introl eq_refl)) as [E'|E']; [auto|].
      specialize (F2 a E). specialize (F1 b E'). lia. }
    subst b. f_equal. apply IH; auto. intros x. split; intros Hx.
    + destruct (proj1 (H x) (or_intror Hx)) as [E|E]; [|exact E]. subst x. specialize (F1 a Hx). lia.
    + destruct (proj2 (H x) (or_intror Hx)) as [E|E]; [|exact E]. subst x. specialize (F2 a Hx). lia.
Qed.

Lemma sorted_map_filter_seq (f : nat -> Z) (g : nat -> bool) : (forall a b, a < b -> (f a < f b)%Z) ->
  forall n a, StronglySorted Z.lt (map f (filter g (seq a n))).
Proof.
  intros Hf. induction n as [|n IH]; intros a; cbn [seq filter map]; [constructor|].
  destruct (g a); [|apply IH]. cbn [map]. constructor; [apply IH|].
  apply Forall_forall. intros x Hx. apply in_map_iff in Hx. destruct Hx as (q & <- & Hq).
  apply filter_In in Hq. destruct Hq as (Hq & _). apply in_seq in Hq. apply Hf. lia.
Qed.

Lemma sorted_rev_desc l : StronglySorted (fun a b => (b < a)%Z) l -> StronglySorted Z.lt (rev l).
Proof.
  induction 1 as [|a l S IH F]; cbn [rev]; [constructor|].
  (* append a at the end of an ascending list whose elements are all below a *)
  assert (G : forall l', StronglySorted Z.lt l' -> (forall x, In x l' -> (x < a)%Z) -> StronglySorted Z.lt (l' ++ [a])).
  { induction l' as [|b l' IH']; intros S' H'; cbn [app]; [repeat constructor|].
    inversion S' as [|? ? S'' F'']; subst. constructor.
    - apply IH'; auto. intros x Hx. apply H'. now right.
    - apply Forall_forall. intros x Hx. apply in_app_or in Hx. destruct Hx as [Hx|[<-|[]]].
      + rewrite Forall_forall in F''. apply F''. exact Hx.
      + apply H'. now left. }
  apply G; [exact IH|]. intros x Hx. apply in_rev in Hx. rewrite Forall_forall in F. apply F. exact Hx.
Qed.

Theorem occ_bwd_is_rev pat lo w : occ_bwd pat lo w = rev (occ_fwd pat lo w).
Proof.
  unfold occ_bwd, occ_fwd. destruct pat as [|p0 pat']; [reflexivity|]. cbn [is_empty].
  set (pat := p0 :: pat'). assert (Hm : 1 <= length pat) by (unfold pat; cbn; lia).
  set (m := length pat) in *. set (n := length w).
  (* both lists are strictly sorted (one ascending, one descending) and have the same elements *)
  symmetry. rewrite <- (rev_involutive (map _ (spec_ends (rev pat) (rev w) 0 n))). f_equal.
  apply sorted_same.
  - unfold spec_ends. rewrite map_map. apply sorted_map_filter_seq. intros a b Hab. lia.
  - apply sorted_rev_desc. unfold spec_ends. rewrite map_map.
    assert (G : forall k a, StronglySorted (fun x y => (y < x)%Z)
              (map (fun q => (lo + Z.of_nat (length w) - 1 - Z.of_nat q)%Z)
                   (filter (fun q => Pb (rev pat) (firstn (S q) (rev w)) (length (rev pat))) (seq a k)))).
    { induction k as [|k IH]; intros a; cbn [seq filter map]; [constructor|].
      destruct (Pb _ _ _); [|apply IH]. cbn [map]. constructor; [apply IH|].
      apply Forall_forall. intros x Hx. apply in_map_iff in Hx. destruct Hx as (q & <- & Hq).
      apply filter_In in Hq. destruct Hq as (Hq & _). apply in_seq in Hq. lia. }
    apply G.
  - intros x. rewrite <- in_rev, !in_map_iff. split.
    + intros (z & <- & Hz). apply (in_spec_ends pat w z Hm) in Hz. destruct Hz as (q & -> & Hq & Hmq & Ho).
      exists (Z.of_nat (n - 1 - (S q - m))). split; [unfold m, n in *; lia|].
      assert (Hn' : n = length (rev w)) by (unfold n; now rewrite rev_length). rewrite Hn'.
      apply in_spec_ends; [rewrite rev_length; exact Hm|].
      exists (n - 1 - (S q - m)). rewrite !rev_length. fold m n. split; [reflexivity|].
      split; [lia|]. split; [lia|].
      apply occurs_rev; [fold m n; lia|]. fold m n.
      replace (n - m - (S (n - 1 - (S q - m)) - m)) with (S q - m) by lia. exact Ho.
    + intros (z & <- & Hz).
      assert (Hn' : n = length (rev w)) by (unfold n; now rewrite rev_length). rewrite Hn' in Hz.
      apply in_spec_ends in Hz; [|rewrite rev_length; exact Hm].
      destruct Hz as (q & -> & Hq & Hmq & Ho). rewrite !rev_length in *. fold m n in Hq, Hmq, Ho.
      apply occurs_rev in Ho; [|fold m n; lia]. fold m n in Ho.
      exists (Z.of_nat (n - m - (S q - m) + m - 1)). split; [unfold m, n in *; lia|].
      apply in_spec_ends; [exact Hm|]. exists (n - m - (S q - m) + m - 1). fold m n.
      split; [reflexivity|]. split; [lia|]. split; [lia|].
      replace (S (n - m - (S q - m) + m - 1) - m) with (n - m - (S q - m)) by lia. exact Ho.
Qed.
