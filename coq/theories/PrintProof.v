(* C10: the top-level print model equals the canonical layout. *)
From Coq Require Import ZArith List Lia Bool.
Require Import Pos PosHist Views HistModel PrnModel PrnProof PrintModel.
Import ListNotations.
Open Scope Z_scope.

Lemma asc_b_sound shown : forall idx, asc_b idx shown = true -> asc idx shown.
Proof.
  induction shown as [|[p d] r IH]; intros idx H; cbn in *; auto.
  apply andb_prop in H. destruct H as (H1 & H2). split; [lia|apply IH; exact H2].
Qed.

(* the canonical layout for the options: label width from the largest requested position, starters, cells *)
Definition canonical (o : popts) (maxd : Z) (shown : list (Z * Z)) : list Z :=
  let '(z, nz, con) := starters o maxd in
  layout (o_R o) (o_C o) (fix_rune (o_missing o)) z nz con shown ++ (if o_trail o then [10] else []).

Theorem sprint_points_is_layout o maxd shown : asc 0 shown ->
  sprint_points o maxd shown = canonical o maxd shown.
Proof.
  intros H. unfold sprint_points, canonical. destruct (starters o maxd) as [[z nz] con].
  rewrite print_is_layout; auto.
Qed.

(* forward listings of views are ascending from the view's start *)
Lemma fwd_list_asc d h : forall k p, asc p (fwd_list d h p k).
Proof.
  induction k as [|k IH]; intros p; cbn [fwd_list]; [exact I|].
  destruct (below p h); [|exact I]. destruct (digit_at d p); [|exact I].
  cbn. split; [lia|apply IH].
Qed.

Lemma asc_weaken shown : forall a b, a <= b -> asc b shown -> asc a shown.
Proof. destruct shown as [|[p d] r]; cbn; auto. intros a b Hab (H1 & H2). split; [lia|auto]. Qed.

Lemma asc_app l1 : forall a l2 b, asc a l1 -> (forall p d, In (p, d) l1 -> p < b) -> a <= b -> asc b l2 -> asc a (l1 ++ l2).
Proof.
  induction l1 as [|[p d] r IH]; intros a l2 b H1 Hlt Hab H2; cbn [app].
  - apply (asc_weaken l2 a b); auto.
  - cbn in H1. destruct H1 as (Hp & Hr). cbn. split; [exact Hp|].
    apply (IH (p + 1) l2 b); auto.
    + intros q e Hin. apply (Hlt q e). now right.
    + specialize (Hlt p d (or_introl eq_refl)). lia.
Qed.

(* ---- the pairs fed to the printer are ascending when the Positions value is normal ---- *)
Fixpoint ranges_asc (a : Z) (ps : list range) : Prop :=
  match ps with [] => True | (s, e) :: r => a <= s /\ s < e /\ ranges_asc e r end.

Lemma normal_rev_snoc l s e : normal_rev (l ++ [(s, e)]) ->
  normal_rev l /\ 0 <= s < e /\ forall s' e', In (s', e') l -> e < s'.
Proof.
  induction l as [|[s1 e1] l IH]; cbn [app]; intros H.
  - cbn in H. split; [exact I|]. split; [lia|intros ? ? []].
  - cbn [normal_rev] in H. destruct H as (A & B & Cc & Dd).
    destruct (IH Dd) as (N & R & F). split.
    + cbn [normal_rev]. repeat split; auto. destruct l as [|[s2 e2] l']; [exact I|]. cbn [app] in Cc. exact Cc.
    + split; [exact R|]. intros s' e' [Hin|Hin].
      * inversion Hin; subst. destruct l as [|[s2 e2] l'].
        -- cbn in Cc. lia.
        -- cbn in Cc. specialize (F s2 e2 (or_introl eq_refl)). cbn in N. lia.
      * apply (F s' e' Hin).
Qed.

Lemma ranges_asc_lift r : forall a b, ranges_asc a r -> (forall s e, In (s, e) r -> b <= s) -> ranges_asc b r.
Proof.
  destruct r as [|[s e] r]; cbn; auto. intros a b (H1 & H2 & H3) Hb. repeat split; auto. apply (Hb s e). now left.
Qed.

Lemma normal_ranges_asc ps : normal ps -> ranges_asc 0 ps.
Proof.
  unfold normal. induction ps as [|[s e] r IH]; cbn [rev]; intros H; [exact I|].
  destruct (normal_rev_snoc _ _ _ H) as (N & R & F).
  cbn [ranges_asc]. split; [lia|]. split; [lia|].
  apply (ranges_asc_lift r 0 e (IH N)). intros s' e' Hin. specialize (F s' e'). rewrite <- in_rev in F. specialize (F Hin). lia.
Qed.

Lemma fwd_list_in d h : forall k p q x, In (q, x) (fwd_list d h p k) -> p <= q /\ below q h = true.
Proof.
  induction k as [|k IH]; intros p q x H; cbn [fwd_list] in H; [destruct H|].
  destruct (below p h) eqn:Eb; [|destruct H]. destruct (digit_at d p); [|destruct H].
  destruct H as [H|H].
  - inversion H; subst. split; [lia|exact Eb].
  - destruct (IH _ _ _ H). split; [lia|auto].
Qed.

Lemma window_bounds d v s e q x : wf v ->
  let w := with_end (with_start v s) e in
  forall n, In (q, x) (fwd_list d (eff_hi d w) (eff_lo w) n) -> s <= q < e /\ 0 <= q.
Proof.
  intros Hw w n Hin. destruct (fwd_list_in _ _ _ _ _ _ Hin) as (Hlo & Hb).
  destruct (with_start_view v s Hw) as (W1 & V1). destruct (with_end_view (with_start v s) e W1) as (W2 & V2).
  assert (Hv : in_view w q).
  { unfold in_view. split; [exact Hlo|]. unfold eff_hi, below in Hb. fold w in Hb.
    destruct (hi w) as [h|]; [|exact I]. destruct (dlen d) as [l|]; cbn in Hb; lia. }
  apply V2 in Hv. destruct Hv as (Hv & He). apply V1 in Hv. destruct Hv as (Hv & Hs).
  unfold eff_lo in Hlo. split; lia.
Qed.

Lemma asc_from_in l : forall p a, asc p l -> (forall q x, In (q, x) l -> a <= q) -> asc a l.
Proof.
  destruct l as [|[q x] r]; cbn; auto. intros p a (H1 & H2) Hin. split; auto. apply (Hin q x). now left.
Qed.

Theorem shown_of_asc d v : wf v -> forall ps a, 0 <= a -> ranges_asc a ps -> asc a (shown_of d v ps).
Proof.
  intros Hw. induction ps as [|[s e] r IH]; intros a Ha H; cbn [shown_of flat_map]; [exact I|].
  cbn [ranges_asc] in H. destruct H as (H1 & H2 & H3). fold (shown_of d v r). cbn [fst snd].
  set (w := with_end (with_start v s) e).
  destruct (span d w) as [n|]; [|cbn [app]; apply (asc_weaken _ a e); [lia|apply IH; [lia|exact H3]]].
  apply (asc_app _ a _ e).
  - apply (asc_from_in _ (eff_lo w)); [apply fwd_list_asc|].
    intros q x Hin. apply (window_bounds d v s e q x Hw n) in Hin. lia.
  - intros q x Hin. apply (window_bounds d v s e q x Hw n) in Hin. lia.
  - lia.
  - apply IH; [lia|exact H3].
Qed.

(* C10 for Sprint: the text is the canonical layout of the shown pairs, for every well-formed view, every digit
   string, every list of AddRange calls and every option value *)
Theorem sprint_is_layout o d v rs : wf v ->
  sprint o d v rs = canonical o (end_of (positions_of rs)) (shown_of d v (positions_of rs)).
Proof.
  intros Hw. unfold sprint. apply sprint_points_is_layout. apply shown_of_asc; auto; [lia|].
  apply normal_ranges_asc. unfold positions_of.
  set (cs := map (fun r => CAddRange (fst r) (snd r)) rs).
  assert (E : fold_left (fun b r => add_range b (fst r) (snd r)) rs empty_builder = fold_left apply_call cs empty_builder).
  { unfold cs. generalize empty_builder. induction rs as [|r rs' IHrs]; intros b; cbn; auto. }
  rewrite E. apply (positions_normal_form cs).
Qed.

Theorem swrite_is_layout o d v n : span d v = Some n ->
  let shown := fwd_list d (eff_hi d v) (eff_lo v) n in
  swrite o d v = canonical o (match rev shown with [] => 0 | (p, _) :: _ => p + 1 end) shown.
Proof.
  intros Hs shown. unfold swrite. rewrite Hs. apply sprint_points_is_layout.
  apply (asc_weaken _ 0 (eff_lo v)); [unfold eff_lo; lia|apply fwd_list_asc].
Qed.
