(* Composition of the read paths of a view: which Layer-C client an exported read method runs with which
   arguments, for the representation of Views.v (spec: nil | memoizer | limitSpec l over the memoizer; start),
   against any wait oracle.  v3: mantissa.At / Scan / ScanValues / allDigits through numberSpec; the same
   dispatch is what v1/v2's Number.At / iteratorAt / allDigits do. *)
From Coq Require Import Arith List Lia Bool.
Require Import LayerC LayerC2.
Import ListNotations.

Section ViewReads.
Variable D : nat -> option nat.
Hypothesis D_closed : forall i, D i = None -> D (S i) = None.
Variable W : nat -> nat -> nat * bool.
Hypothesis W_ok : forall c i, WaitOK D i (W c i).

(* numberSpec of a view, with natural-number limits (a limitSpec always has limit > 0) *)
Inductive nspec := NNil | NMemo | NLim (l : nat).

Definition spec_limit (sp : nspec) : option nat := match sp with NNil => Some 0 | NMemo => None | NLim l => Some l end.

(* positions the view can show: below its limit *)
Definition in_spec (sp : nspec) (p : nat) : bool := match spec_limit sp with None => true | Some l => p <? l end.
Definition Dview (sp : nspec) (p : nat) : option nat := if in_spec sp p then D p else None.

(* mantissa.At(posit) (posit >= 0): nil spec -> -1; memoizer.At; limitSpec.At *)
Definition view_at (c : nat) (sp : nspec) (p : nat) : option nat :=
  match sp with
  | NNil => None
  | NMemo => at_ D W c p
  | NLim l => lim_at D W c l p
  end.

Theorem view_at_spec c sp p : view_at c sp p = Dview sp p.
Proof.
  unfold view_at, Dview, in_spec. destruct sp as [| |l]; cbn [spec_limit].
  - reflexivity.
  - apply at_spec; auto.
  - rewrite lim_at_spec by auto. reflexivity.
Qed.

(* mantissa.Scan(start, yield) stopped after k items: nil -> nothing; memoizer.Scan(start, MaxInt);
   limitSpec.Scan clamps both index and limit to l.  big stands for math.MaxInt *)
Definition view_scan (big k c : nat) (sp : nspec) (start : nat) : list (nat * nat) :=
  match sp with
  | NNil => []
  | NMemo => scan D W k c start big
  | NLim l => scan D W k c (Nat.min start l) (Nat.min big l)
  end.

(* the first k positions from start that the view shows and that exist *)
Fixpoint view_listing (k : nat) (sp : nspec) (p : nat) : list (nat * nat) :=
  match k with
  | O => []
  | S k' => match Dview sp p with Some d => (p, d) :: view_listing k' sp (S p) | None => [] end
  end.

Lemma listing_as_view big sp : forall k p, (forall q, p <= q < p + k -> D q <> None -> q < big) ->
  match sp with
  | NNil => view_listing k sp p = []
  | NMemo => view_listing k sp p = listing D k p big
  | NLim l => l <= big -> p <= l -> view_listing k sp p = listing D k p l
  end.
Proof.
  destruct sp as [| |l].
  - intros k p _. destruct k; reflexivity.
  - induction k as [|k IH]; intros p Hbig; cbn [view_listing listing]; [reflexivity|].
    unfold Dview, in_spec. cbn [spec_limit]. destruct (D p) as [d|] eqn:Ed.
    + assert (p < big) by (apply Hbig; [lia|congruence]). destruct (Nat.ltb_spec p big); [|lia].
      rewrite IH; [reflexivity|]. intros q Hq. apply Hbig. lia.
    + destruct (p <? big); reflexivity.
  - induction k as [|k IH]; intros p Hbig Hl Hp; cbn [view_listing listing]; [reflexivity|].
    unfold Dview, in_spec. cbn [spec_limit]. destruct (Nat.ltb_spec p l).
    + destruct (D p); [rewrite IH by (try lia; intros q Hq; apply Hbig; lia); reflexivity|reflexivity].
    + reflexivity.
Qed.

(* big stands for math.MaxInt: no position that the scan can reach (it stops after k items) is at or beyond it -
   which holds when the digit string ends below big, and also for an endless one as long as start + k <= big *)
Theorem view_scan_spec big k c sp start : (forall q, q < start + k -> D q <> None -> q < big) ->
  (match sp with NLim l => l <= big | _ => True end) ->
  view_scan big k c sp start = view_listing k sp (match sp with NLim l => Nat.min start l | _ => start end).
Proof.
  intros Hbig Hl. unfold view_scan. destruct sp as [| |l].
  - destruct k; reflexivity.
  - rewrite scan_spec by auto. symmetry. apply (listing_as_view big NMemo k start). intros q Hq. apply Hbig. lia.
  - rewrite scan_spec by auto. rewrite (Nat.min_r big l) by lia. symmetry.
    apply (listing_as_view big (NLim l) k (Nat.min start l)); [|lia|lia]. intros q Hq. apply Hbig. lia.
Qed.

(* allDigits (behind every backward read): FirstN(MaxInt) through the spec; its length is the number of digits
   the view shows *)
Definition view_all_len (big c : nat) (sp : nspec) : nat :=
  match sp with
  | NNil => 0
  | NMemo => first_n_len W c big
  | NLim l => first_n_len W c (Nat.min big l)
  end.

Theorem view_all_len_spec big c sp : (forall q, D q <> None -> q < big) ->
  let L := view_all_len big c sp in
  (forall j, j < L -> Dview sp j <> None) /\ Dview sp L = None.
Proof.
  intros Hbig. unfold view_all_len. destruct sp as [| |l].
  - cbn. split; [intros; lia|reflexivity].
  - destruct (first_n_spec D W W_ok c big) as (H1 & H2 & H3). cbn zeta in *.
    unfold Dview, in_spec. cbn [spec_limit]. split; [exact H2|].
    destruct (Nat.lt_ge_cases (first_n_len W c big) big) as [Hlt|Hge]; [apply H3; exact Hlt|].
    destruct (D (first_n_len W c big)) eqn:E; [|reflexivity]. exfalso.
    assert (first_n_len W c big < big) by (apply Hbig; congruence). lia.
  - destruct (first_n_spec D W W_ok c (Nat.min big l)) as (H1 & H2 & H3). cbn zeta in *.
    set (L := first_n_len W c (Nat.min big l)) in *.
    unfold Dview, in_spec. cbn [spec_limit]. split.
    + intros j Hj. destruct (Nat.ltb_spec j l); [apply H2; exact Hj|lia].
    + destruct (Nat.ltb_spec L l); [|reflexivity].
      destruct (Nat.lt_ge_cases L (Nat.min big l)) as [Hlt|Hge]; [apply H3; exact Hlt|].
      destruct (D L) eqn:E; [|reflexivity]. exfalso. assert (L < big) by (apply Hbig; congruence). lia.
Qed.

(* mantissa.ReverseScan(start) / ReverseTo stopped after k items: allDigits() is FirstN(MaxInt) through the spec,
   then the index runs from the last digit down to start *)
Definition cell (j : nat) : list (nat * nat) := match D j with Some d => [(j, d)] | None => [] end.
Definition view_rev (big k c : nat) (sp : nspec) (start : nat) : list (nat * nat) :=
  let L := view_all_len big c sp in
  firstn k (flat_map cell (rev (seq start (L - start)))).

Definition vcell (sp : nspec) (j : nat) : list (nat * nat) := match Dview sp j with Some d => [(j, d)] | None => [] end.

Lemma listing_seq sp : forall m start n,
  (forall j, start <= j < start + m -> Dview sp j <> None) -> Dview sp (start + m) = None -> m < n ->
  view_listing n sp start = flat_map (vcell sp) (seq start m).
Proof.
  induction m as [|m IH]; intros start n Hin Hend Hn.
  - destruct n as [|n]; [lia|]. cbn [view_listing seq flat_map]. rewrite Nat.add_0_r in Hend. rewrite Hend. reflexivity.
  - destruct n as [|n]; [lia|]. cbn [view_listing seq flat_map]. unfold vcell at 1.
    destruct (Dview sp start) as [d|] eqn:E; [|exfalso; apply (Hin start); [lia|exact E]].
    cbn [app]. f_equal. apply IH.
    + intros j Hj. apply Hin. lia.
    + replace (S start + m) with (start + S m) by lia. exact Hend.
    + lia.
Qed.

Lemma flat_map_ext_in' {A B} (f g : A -> list B) (l : list A) : (forall x, In x l -> f x = g x) -> flat_map f l = flat_map g l.
Proof. induction l as [|a l IH]; intros H; [reflexivity|]. cbn [flat_map]. rewrite (H a) by now left. rewrite IH; [reflexivity|]. intros x Hx. apply H. now right. Qed.

Lemma rev_flat_map_small {A B} (g : A -> list B) (l : list A) : (forall x, length (g x) <= 1) ->
  rev (flat_map g l) = flat_map g (rev l).
Proof.
  intros Hg. induction l as [|a l IH]; [reflexivity|]. cbn [flat_map rev]. rewrite rev_app_distr, IH, flat_map_app.
  cbn [flat_map]. rewrite app_nil_r. f_equal. specialize (Hg a). destruct (g a) as [|b [|b' r]]; cbn in *; [reflexivity|reflexivity|lia].
Qed.

(* backward traversal is the exact reverse of the complete forward traversal from start (any n large enough) *)
Theorem view_rev_spec big k c sp start n : (forall q, D q <> None -> q < big) ->
  view_all_len big c sp - start < n ->
  view_rev big k c sp start = firstn k (rev (view_listing n sp start)).
Proof.
  intros Hbig Hn. unfold view_rev. destruct (view_all_len_spec big c sp Hbig) as (Hlt & Hend). cbn zeta in *.
  set (L := view_all_len big c sp) in *.
  destruct (Nat.le_gt_cases L start) as [Hle|Hgt].
  - (* nothing at or above start *)
    replace (L - start) with 0 by lia. cbn [seq rev flat_map].
    assert (Dview sp start = None) as E.
    { destruct (Dview sp start) eqn:E; [|reflexivity]. exfalso.
      (* Dview is closed upwards *)
      assert (Hcl : forall i, Dview sp i = None -> Dview sp (S i) = None).
      { intros i. unfold Dview, in_spec. destruct (spec_limit sp) as [l|].
        - destruct (Nat.ltb_spec i l), (Nat.ltb_spec (S i) l); try lia; auto.
        - apply D_closed. }
      assert (Hup : forall m, Dview sp (L + m) = None) by (induction m as [|m IHm]; [rewrite Nat.add_0_r; exact Hend|rewrite Nat.add_succ_r; apply Hcl; exact IHm]).
      specialize (Hup (start - L)). replace (L + (start - L)) with start in Hup by lia. congruence. }
    destruct n as [|n]; [lia|]. cbn [view_listing]. rewrite E. reflexivity.
  - rewrite (listing_seq sp (L - start) start n).
    + rewrite rev_flat_map_small by (intros x; unfold vcell; destruct (Dview sp x); cbn; lia).
      f_equal. symmetry. apply flat_map_ext_in'. intros j Hj. apply in_rev, in_seq in Hj.
      unfold cell, vcell. assert (Hj' : Dview sp j <> None) by (apply Hlt; lia).
      unfold Dview in *. destruct (in_spec sp j); [reflexivity|congruence].
    + intros j Hj. apply Hlt. lia.
    + replace (start + (L - start)) with L by lia. exact Hend.
    + exact Hn.
Qed.
End ViewReads.
