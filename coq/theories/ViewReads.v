(* Composition of the read paths of a view: which Layer-C client an exported read method runs with which
   arguments, for the representation of Views.v (spec: nil | memoizer | limitSpec l over the memoizer; start),
   against any wait oracle.  v3: mantissa.At / Scan / ScanValues / allDigits through numberSpec; the same
   dispatch is what v1/v2's Number.At / iteratorAt / allDigits do. *)
From Coq Require Import Arith List Lia Bool.
Require Import LayerC LayerC2.
Import ListNotations.

Section ViewReads.
Variable D : nat -> option nat.
Hypothesis D_closed : forall i, D i = None -> D (S i) = None.
Variable W : nat -> nat -> nat * bool.
Hypothesis W_ok : forall c i, WaitOK D i (W c i).

(* numberSpec of a view, with natural-number limits (a limitSpec always has limit > 0) *)
Inductive nspec := NNil | NMemo | NLim (l : nat).

Definition spec_limit (sp : nspec) : option nat := match sp with NNil => Some 0 | NMemo => None | NLim l => Some l end.

(* positions the view can show: below its limit *)
Definition in_spec (sp : nspec) (p : nat) : bool := match spec_limit sp with None => true | Some l => p <? l end.
Definition Dview (sp : nspec) (p : nat) : option nat := if in_spec sp p then D p else None.

(* mantissa.At(posit) (posit >= 0): nil spec -> -1; memoizer.At; limitSpec.At *)
Definition view_at (c : nat) (sp : nspec) (p : nat) : option nat :=
  match sp with
  | NNil => None
  | NMemo => at_ D W c p
  | NLim l => lim_at D W c l p
  end.

Theorem view_at_spec c sp p : view_at c sp p = Dview sp p.
Proof.
  unfold view_at, Dview, in_spec. destruct sp as [| |l]; cbn [spec_limit].
  - reflexivity.
  - apply at_spec; auto.
  - rewrite lim_at_spec by auto. reflexivity.
Qed.

(* mantissa.Scan(start, yield) stopped after k items: nil -> nothing; memoizer.Scan(start, MaxInt);
   limitSpec.Scan clamps both index and limit to l.  big stands for math.MaxInt *)
Definition view_scan (big k c : nat) (sp : nspec) (start : nat) : list (nat * nat) :=
  match sp with
  | NNil => []
  | NMemo => scan D W k c start big
  | NLim l => scan D W k c (Nat.min start l) (Nat.min big l)
  end.

(* the first k positions from start that the view shows and that exist *)
Fixpoint view_listing (k : nat) (sp : nspec) (p : nat) : list (nat * nat) :=
  match k with
  | O => []
  | S k' => match Dview sp p with Some d => (p, d) :: view_listing k' sp (S p) | None => [] end
  end.

Lemma listing_as_view big k sp : forall p, (forall q, D q <> None -> q < big) ->
  match sp with
  | NNil => view_listing k sp p = []
  | NMemo => view_listing k sp p = listing D k p big
  | NLim l => l <= big -> p <= l -> view_listing k sp p = listing D k p l
  end.
Proof.
  intros p Hbig. destruct sp as [| |l].
  - destruct k; reflexivity.
  - revert p. induction k as [|k IH]; intros p; cbn [view_listing listing]; [reflexivity|].
    unfold Dview, in_spec. cbn [spec_limit]. destruct (D p) as [d|] eqn:Ed.
    + assert (p < big) by (apply Hbig; congruence). destruct (Nat.ltb_spec p big); [|lia]. rewrite IH. reflexivity.
    + destruct (p <? big); reflexivity.
  - intros Hl. revert p. induction k as [|k IH]; intros p Hp; cbn [view_listing listing]; [reflexivity|].
    unfold Dview, in_spec. cbn [spec_limit]. destruct (Nat.ltb_spec p l).
    + destruct (D p); [rewrite IH by lia; reflexivity|reflexivity].
    + reflexivity.
Qed.

Theorem view_scan_spec big k c sp start : (forall q, D q <> None -> q < big) ->
  (match sp with NLim l => l <= big | _ => True end) ->
  view_scan big k c sp start = view_listing k sp (match sp with NLim l => Nat.min start l | _ => start end).
Proof.
  intros Hbig Hl. unfold view_scan. destruct sp as [| |l].
  - destruct k; reflexivity.
  - rewrite scan_spec by auto. symmetry. apply (listing_as_view big k NMemo start Hbig).
  - rewrite scan_spec by auto. rewrite (Nat.min_r big l) by lia. symmetry.
    apply (listing_as_view big k (NLim l) (Nat.min start l) Hbig); lia.
Qed.

(* allDigits (behind every backward read): FirstN(MaxInt) through the spec; its length is the number of digits
   the view shows *)
Definition view_all_len (big c : nat) (sp : nspec) : nat :=
  match sp with
  | NNil => 0
  | NMemo => first_n_len W c big
  | NLim l => first_n_len W c (Nat.min big l)
  end.

Theorem view_all_len_spec big c sp : (forall q, D q <> None -> q < big) ->
  let L := view_all_len big c sp in
  (forall j, j < L -> Dview sp j <> None) /\ Dview sp L = None.
Proof.
  intros Hbig. unfold view_all_len. destruct sp as [| |l].
  - cbn. split; [intros; lia|reflexivity].
  - destruct (first_n_spec D W W_ok c big) as (H1 & H2 & H3). cbn zeta in *.
    unfold Dview, in_spec. cbn [spec_limit]. split; [exact H2|].
    destruct (Nat.lt_ge_cases (first_n_len W c big) big) as [Hlt|Hge]; [apply H3; exact Hlt|].
    destruct (D (first_n_len W c big)) eqn:E; [|reflexivity]. exfalso.
    assert (first_n_len W c big < big) by (apply Hbig; congruence). lia.
  - destruct (first_n_spec D W W_ok c (Nat.min big l)) as (H1 & H2 & H3). cbn zeta in *.
    set (L := first_n_len W c (Nat.min big l)) in *.
    unfold Dview, in_spec. cbn [spec_limit]. split.
    + intros j Hj. destruct (Nat.ltb_spec j l); [apply H2; exact Hj|lia].
    + destruct (Nat.ltb_spec L l); [|reflexivity].
      destruct (Nat.lt_ge_cases L (Nat.min big l)) as [Hlt|Hge]; [apply H3; exact Hlt|].
      destruct (D L) eqn:E; [|reflexivity]. exfalso. assert (L < big) by (apply Hbig; congruence). lia.
Qed.
End ViewReads.
