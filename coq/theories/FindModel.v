(* Model of find.go over the views of HistModel.v: forward and backward pattern search through the KMP automaton
   of KmpModel.v, the first/last/N variants, and the declarative occurrence lists they are proved equal to. *)
From Coq Require Import ZArith List Lia Bool.
Require Import RunList Compute Views HistModel KmpModel KmpSpec KmpProof.
Import ListNotations.
Open Scope Z_scope.

Definition is_empty {A} (l : list A) : bool := match l with [] => true | _ => false end.

Fixpoint zrange (a : Z) (n : nat) : list Z := match n with O => [] | S k => a :: zrange (a + 1) k end.

(* forward search over a text w whose first character sits at position lo: start positions, ascending *)
Definition fwd_matches (pat : list Z) (lo : Z) (w : list Z) : option (list Z) :=
  if is_empty pat then Some (zrange lo (length w))
  else option_map (map (fun q => lo + q + 1 - Z.of_nat (length pat))) (kmp_all pat w).

(* backward search: the reversed pattern over the reversed text; a match completing at reversed index q starts at
   position lo + |w| - 1 - q; descending *)
Definition bwd_matches (pat : list Z) (lo : Z) (w : list Z) : option (list Z) :=
  if is_empty pat then Some (rev (zrange lo (length w)))
  else option_map (map (fun q => lo + Z.of_nat (length w) - 1 - q)) (kmp_all (rev pat) (rev w)).

(* the declarative side: positions where pat occurs wholly inside w (Pb: the |pat| characters ending at q equal pat) *)
Definition occ_fwd (pat : list Z) (lo : Z) (w : list Z) : list Z :=
  if is_empty pat then zrange lo (length w)
  else map (fun q => lo + q + 1 - Z.of_nat (length pat)) (spec_ends pat w 0 (length w)).
Definition occ_bwd (pat : list Z) (lo : Z) (w : list Z) : list Z :=
  if is_empty pat then rev (zrange lo (length w))
  else map (fun q => lo + Z.of_nat (length w) - 1 - q) (spec_ends (rev pat) (rev w) 0 (length w)).

Definition first_or (l : list Z) : Z := match l with [] => -1 | x :: _ => x end.
(* the first n elements (all of them when n exceeds the length: no conversion of a huge count to a unary number) *)
Definition take_n (n : Z) (l : list Z) : list Z :=
  if n <=? 0 then [] else if Z.of_nat (length l) <=? n then l else firstn (Z.to_nat n) l.

(* the text of a view: its first position and its digits; endless views are cut after `cap` digits (the cases
   generated for them stop the search before that) *)
Definition text_of (d : dsrc) (v : Views.val) (cap : nat) : Z * list Z :=
  let n := match span d v with Some s => s | None => cap end in
  (eff_lo v, map snd (fwd_list d (eff_hi d v) (eff_lo v) n)).

(* fn: 0 FindFirst, 1 FindFirstN n, 2 FindAll, 3 FindLast, 4 FindLastN n, 5 Find pulled n times, 6 FindR pulled n
   times, 7 Matches stopped after n items (n < 0: all), 8 BackwardMatches stopped after n items.
   Pull iterators (5, 6) answer -1 once exhausted. *)
Fixpoint pulls (n : nat) (l : list Z) : list Z :=
  match n with O => [] | S k => match l with [] => -1 :: pulls k [] | x :: r => x :: pulls k r end end.

Definition find_model (fn n : Z) (pat : list Z) (lo : Z) (w : list Z) : option (list Z) :=
  let fw := fwd_matches pat lo w in
  let bw := bwd_matches pat lo w in
  if fn =? 0 then option_map (fun l => [first_or l]) fw
  else if fn =? 1 then option_map (take_n n) fw
  else if fn =? 2 then fw
  else if fn =? 3 then option_map (fun l => [first_or l]) bw
  else if fn =? 4 then option_map (take_n n) bw
  else if fn =? 5 then option_map (pulls (Z.to_nat n)) fw
  else if fn =? 6 then option_map (pulls (Z.to_nat n)) bw
  else if fn =? 7 then option_map (fun l => if n <? 0 then l else firstn (Z.to_nat n) l) fw
  else option_map (fun l => if n <? 0 then l else firstn (Z.to_nat n) l) bw.

(* the same with the declarative occurrence lists: the checker run on the implementation's answers *)
Definition find_spec (fn n : Z) (pat : list Z) (lo : Z) (w : list Z) : list Z :=
  let fw := occ_fwd pat lo w in
  let bw := occ_bwd pat lo w in
  if fn =? 0 then [first_or fw]
  else if fn =? 1 then take_n n fw
  else if fn =? 2 then fw
  else if fn =? 3 then [first_or bw]
  else if fn =? 4 then take_n n bw
  else if fn =? 5 then pulls (Z.to_nat n) fw
  else if fn =? 6 then pulls (Z.to_nat n) bw
  else if fn =? 7 then (if n <? 0 then fw else firstn (Z.to_nat n) fw)
  else (if n <? 0 then bw else firstn (Z.to_nat n) bw).

Theorem fwd_matches_spec pat lo w : fwd_matches pat lo w = Some (occ_fwd pat lo w).
Proof.
  unfold fwd_matches, occ_fwd. destruct pat as [|p pat']; [reflexivity|]. cbn [is_empty].
  rewrite kmp_all_spec by (cbn; lia). reflexivity.
Qed.

Theorem bwd_matches_spec pat lo w : bwd_matches pat lo w = Some (occ_bwd pat lo w).
Proof.
  unfold bwd_matches, occ_bwd. destruct pat as [|p pat']; [reflexivity|]. cbn [is_empty].
  rewrite kmp_all_spec by (rewrite rev_length; cbn; lia). rewrite rev_length. reflexivity.
Qed.

Theorem find_model_spec fn n pat lo w : find_model fn n pat lo w = Some (find_spec fn n pat lo w).
Proof.
  unfold find_model, find_spec. rewrite fwd_matches_spec, bwd_matches_spec.
  repeat (match goal with |- context [if ?c then _ else _] => destruct c end); reflexivity.
Qed.
