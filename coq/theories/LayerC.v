From Coq Require Import Arith List Lia Bool.
Import ListNotations.

(* ---- Layer C: clients of memoizer.wait, against ANY oracle that satisfies the wait contract ---- *)
Section Clients.
(* digit string: D i = Some d for i < |D|, None from |D| on (|D| may be infinite) *)
Variable D : nat -> option nat.
Hypothesis D_closed : forall i, D i = None -> D (S i) = None.

Lemma D_mono i j : i <= j -> D i = None -> D j = None.
Proof. induction 1; auto. Qed.

(* what wait(index) may return: a published length and the ok flag *)
Definition WaitOK (i : nat) (r : nat * bool) : Prop :=
  let '(len, ok) := r in
  (forall j, j < len -> D j <> None) /\ ok = (i <? len) /\ (ok = false -> D len = None).

(* an oracle answers the c-th call; it may depend on anything (timing, block size, other goroutines) *)
Variable W : nat -> nat -> nat * bool.
Hypothesis W_ok : forall c i, WaitOK i (W c i).

Definition get (i : nat) : nat := match D i with Some d => d | None => 0 end.   (* data[i], only used for i < len *)

(* ---- memoizer.At ---- *)
Definition at_ (c : nat) (i : nat) : option nat :=
  let '(len, ok) := W c i in if ok then Some (get i) else None.

Theorem at_spec c i : at_ c i = D i.
Proof.
  unfold at_. pose proof (W_ok c i) as H. destruct (W c i) as [len ok]. destruct H as (H1 & H2 & H3).
  destruct ok.
  - symmetry in H2. apply Nat.ltb_lt in H2. specialize (H1 i H2). unfold get. destruct (D i); congruence.
  - symmetry in H2. apply Nat.ltb_ge in H2. symmetry. apply (D_mono len i); auto.
Qed.

(* ---- v3 memoizer.Scan(index, limit, yield), consumer stops after at most k items ----
   state: call counter c (one more oracle call each time), index, the snapshot (len, ok) *)
Fixpoint scan_loop (k : nat) (c idx limit len : nat) (ok : bool) : list (nat * nat) :=
  match k with
  | O => []
  | S k' =>
    if ok && (idx <? limit) then
      (idx, get idx) ::
      (let idx' := S idx in
       if idx' =? len then let '(len', ok') := W c idx' in scan_loop k' (S c) idx' limit len' ok'
       else scan_loop k' c idx' limit len ok)
    else []
  end.

Definition scan (k c idx limit : nat) : list (nat * nat) :=
  let '(len, ok) := W c idx in scan_loop k (S c) idx limit len ok.

(* specification: the first k positions p >= idx with p < limit and D p present *)
Fixpoint listing (k idx limit : nat) : list (nat * nat) :=
  match k with
  | O => []
  | S k' => if idx <? limit then match D idx with Some d => (idx, d) :: listing k' (S idx) limit | None => [] end else []
  end.

(* snapshot invariant: a prefix of D is held; ok iff the current index is inside it; not ok only when complete *)
Definition Snap (idx len : nat) (ok : bool) : Prop :=
  (forall j, j < len -> D j <> None) /\ ok = (idx <? len) /\ (ok = false -> D len = None).

Lemma scan_loop_spec : forall k c idx limit len ok, Snap idx len ok -> scan_loop k c idx limit len ok = listing k idx limit.
Proof.
  induction k as [|k IH]; intros c idx limit len ok (H1 & H2 & H3); cbn [scan_loop listing]; [reflexivity|].
  destruct (Nat.ltb_spec idx limit) as [Hl|Hl]; [|now rewrite andb_false_r].
  rewrite andb_true_r. destruct ok.
  - symmetry in H2. apply Nat.ltb_lt in H2. pose proof (H1 idx H2) as Hd. unfold get.
    destruct (D idx) as [d|] eqn:Ed; [|congruence]. f_equal.
    destruct (Nat.eqb_spec (S idx) len) as [He|He].
    + pose proof (W_ok c (S idx)) as Hw. destruct (W c (S idx)) as [len' ok']. apply IH. exact Hw.
    + apply IH. split; [exact H1|]. split; [symmetry; apply Nat.ltb_lt; lia|discriminate].
  - symmetry in H2. apply Nat.ltb_ge in H2. specialize (H3 eq_refl).
    rewrite (D_mono len idx H2 H3). reflexivity.
Qed.

Theorem scan_spec k c idx limit : scan k c idx limit = listing k idx limit.
Proof.
  unfold scan. pose proof (W_ok c idx) as Hw. destruct (W c idx) as [len ok]. apply scan_loop_spec. exact Hw.
Qed.

(* ---- v1/v2 memoizer.IteratorAt: a pull iterator holding a snapshot ---- *)
Record it := mkIt { i_idx : nat; i_len : nat; i_ok : bool }.

Definition it_new (c idx : nat) : it := let '(len, ok) := W c idx in mkIt idx len ok.

(* one pull, issuing at most one oracle call numbered c; returns the digit (None = -1) and the new iterator *)
Definition it_next (c : nat) (s : it) : option nat * it :=
  if i_ok s then
    let idx' := S (i_idx s) in
    (Some (get (i_idx s)),
     if idx' =? i_len s then let '(len', ok') := W c idx' in mkIt idx' len' ok' else mkIt idx' (i_len s) (i_ok s))
  else (None, s).

Definition ItInv (s : it) : Prop := Snap (i_idx s) (i_len s) (i_ok s).

Lemma it_new_inv c idx : ItInv (it_new c idx) /\ i_idx (it_new c idx) = idx.
Proof. unfold it_new, ItInv. pose proof (W_ok c idx) as Hw. destruct (W c idx) as [len ok]. split; [exact Hw|reflexivity]. Qed.

(* a pull returns D at the iterator's position and advances by one, or reports the end and stays:
   whatever the oracle did, and whatever other calls happened in between (c is arbitrary) *)
Theorem it_next_spec c s : ItInv s ->
  let '(r, s') := it_next c s in
  r = D (i_idx s) /\ ItInv s' /\ i_idx s' = (if r then S (i_idx s) else i_idx s).
Proof.
  intros (H1 & H2 & H3). unfold it_next. destruct (i_ok s) eqn:Eok.
  - symmetry in H2. apply Nat.ltb_lt in H2. pose proof (H1 _ H2) as Hd. unfold get.
    destruct (D (i_idx s)) as [d|] eqn:Ed; [|congruence]. split; [reflexivity|].
    destruct (Nat.eqb_spec (S (i_idx s)) (i_len s)) as [He|He].
    + pose proof (W_ok c (S (i_idx s))) as Hw. destruct (W c (S (i_idx s))) as [len' ok']. split; [exact Hw|reflexivity].
    + split; [|reflexivity]. unfold ItInv, Snap; cbn [i_idx i_len i_ok].
      split; [exact H1|]. split; [symmetry; apply Nat.ltb_lt; lia|discriminate].
  - symmetry in H2. apply Nat.ltb_ge in H2. specialize (H3 eq_refl). split; [|split; [|reflexivity]].
    + symmetry. apply (D_mono (i_len s)); auto.
    + unfold ItInv, Snap. rewrite Eok. repeat split; auto. symmetry. apply Nat.ltb_ge. lia.
Qed.

(* ---- histories: a pull iterator consumed over time, with arbitrary other calls in between ----
   cs lists the oracle call numbers in force at each pull: whatever they are (whatever happened in
   between: other iterators, At calls, other goroutines), the pulls deliver the consecutive positions
   of D from the iterator's own index; after the end every pull reports the end again. *)
Fixpoint it_pulls (cs : list nat) (s : it) : list (option nat) :=
  match cs with
  | [] => []
  | c :: r => let '(x, s') := it_next c s in x :: it_pulls r s'
  end.

Fixpoint expect (n idx : nat) : list (option nat) :=
  match n with
  | O => []
  | S n' => D idx :: expect n' (match D idx with Some _ => S idx | None => idx end)
  end.

Theorem it_pulls_spec : forall cs s, ItInv s -> it_pulls cs s = expect (length cs) (i_idx s).
Proof.
  induction cs as [|c r IH]; intros s Hs; cbn [it_pulls expect length]; auto.
  pose proof (it_next_spec c s Hs) as H. destruct (it_next c s) as [x s'].
  destruct H as (Hx & Hinv & Hidx). subst x. f_equal.
  rewrite (IH s' Hinv), Hidx. reflexivity.
Qed.

(* two iterators created at the same index deliver the same answers whatever their histories *)
Corollary it_history_independent cs1 cs2 c1 c2 idx : length cs1 = length cs2 ->
  it_pulls cs1 (it_new c1 idx) = it_pulls cs2 (it_new c2 idx).
Proof.
  intros Hl. destruct (it_new_inv c1 idx) as (I1 & E1). destruct (it_new_inv c2 idx) as (I2 & E2).
  rewrite !it_pulls_spec by assumption. rewrite Hl, E1, E2. reflexivity.
Qed.
End Clients.
Print Assumptions scan_spec.
Print Assumptions it_next_spec.
