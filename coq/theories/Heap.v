(* C14: reference-typed arguments at the API boundary.  Caller-owned data (big.Int, big.Rat components, digit and
   pattern slices) lives in a heap of locations; a library call receives locations.  The models of the constructors
   and of the search functions read the locations once, during the call, and keep VALUES (the defensive copies:
   new(big.Int).Set(x), result.num.Set(num), append([]int(nil), fixed...), slices.Clone(pattern), patternReverse);
   no library operation writes to the heap.  Histories interleave library calls with arbitrary caller mutations. *)
From Coq Require Import ZArith List Lia Bool.
Require Import RunList Compute KmpModel KmpSpec KmpProof FindModel.
Import ListNotations.
Open Scope Z_scope.

Definition loc := nat.
Inductive cell := CInt (z : Z) | CSlice (l : list Z).
Definition heap := loc -> cell.
Definition upd_heap (h : heap) (l : loc) (c : cell) : heap := fun l' => if Nat.eqb l' l then c else h l'.

Definition get_int (h : heap) (l : loc) : Z := match h l with CInt z => z | CSlice _ => 0 end.
Definition get_slice (h : heap) (l : loc) : list Z := match h l with CSlice s => s | CInt _ => [] end.

(* library values hold copies, never locations *)
Inductive value :=
| VNumber (k : kind) (num den : Z)            (* a root / rational Number: the copied numerator and denominator *)
| VMatcher (pat : list Z) (lo : Z) (text : list Z).   (* a search iterator: the cloned pattern, over a fixed text *)

Inductive op :=
| OConstruct (k : kind) (lnum lden : loc)              (* nRootFrac / NewNumberFromBigRat(num, den) *)
| OMatcher (lpat : loc) (lo : Z) (text : list Z)       (* Matches / Find / FindR (s, pattern) *)
| OMutate (l : loc) (c : cell)                         (* the caller overwrites its own data *)
| OReadDigits (v : nat) (n : nat)                      (* read the first n digits of value number v *)
| ORunMatcher (v : nat).                               (* run (or pull) the matcher *)

Inductive answer := ADigits (r : result) | AMatches (m : option (list Z)) | ANone.

Definition exec_op (st : heap * list value) (o : op) : (heap * list value) * answer :=
  let '(h, vs) := st in
  match o with
  | OConstruct k ln ld => ((h, vs ++ [VNumber k (get_int h ln) (get_int h ld)]), ANone)
  | OMatcher lp lo text => ((h, vs ++ [VMatcher (get_slice h lp) lo text]), ANone)
  | OMutate l c => ((upd_heap h l c, vs), ANone)
  | OReadDigits v n =>
    (st, match nth_error vs v with Some (VNumber k num den) => ADigits (ctor k num den n) | _ => ANone end)
  | ORunMatcher v =>
    (st, match nth_error vs v with Some (VMatcher pat lo text) => AMatches (fwd_matches pat lo text) | _ => ANone end)
  end.

Fixpoint exec (st : heap * list value) (ops : list op) : list answer :=
  match ops with
  | [] => []
  | o :: r => let '(st', a) := exec_op st o in a :: exec st' r
  end.

Definition is_mutate (o : op) : bool := match o with OMutate _ _ => true | _ => false end.

(* 1. the library never modifies caller data: only OMutate changes the heap *)
Theorem args_untouched st o : is_mutate o = false -> fst (fst (exec_op st o)) = fst st.
Proof. destruct st as [h vs]. destruct o; cbn; try reflexivity; discriminate. Qed.

(* 2. a caller's later modification never changes anything already constructed: inserting a mutation after the
      values exist changes no later answer *)
Lemma exec_heap_irrelevant vs : forall ops h h',
  (forall o, In o ops -> match o with OConstruct _ _ _ | OMatcher _ _ _ => False | _ => True end) ->
  exec (h, vs) ops = exec (h', vs) ops.
Proof.
  induction ops as [|o r IH]; intros h h' Hno; cbn [exec]; auto.
  assert (Hr : forall o0, In o0 r -> match o0 with OConstruct _ _ _ | OMatcher _ _ _ => False | _ => True end)
    by (intros; apply Hno; now right).
  pose proof (Hno o (or_introl eq_refl)) as Ho.
  destruct o; cbn [exec_op]; try contradiction.
  - f_equal. apply IH; auto.
  - f_equal. apply IH; auto.
  - f_equal. apply IH; auto.
Qed.

Theorem no_retention h vs l c ops :
  (forall o, In o ops -> match o with OConstruct _ _ _ | OMatcher _ _ _ => False | _ => True end) ->
  exec (h, vs) (OMutate l c :: ops) = ANone :: exec (h, vs) ops.
Proof. intros H. cbn [exec exec_op]. f_equal. apply exec_heap_irrelevant. exact H. Qed.

(* non-vacuity: a rational below 1 whose numerator and denominator cells are overwritten after construction *)
Example no_retention_example :
  exec (fun l => match l with O => CInt 1 | _ => CInt 3 end, [])
       [OConstruct KRat 0%nat 1%nat; OMutate 0%nat (CInt 1); OMutate 1%nat (CInt 7); OReadDigits 0%nat 4%nat]
  = [ANone; ANone; ANone; ADigits (RNum 0 [3; 3; 3; 3] false)].
Proof. vm_compute. reflexivity. Qed.
