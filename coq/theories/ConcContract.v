(* The wait contract of Layer C holds for every return of the memoizer's transition system (C05 -> C04):
   with the digit string "position j exists iff source calls 0..j all returned digits (and j is below the
   model's bound B*K)", every Return t x len ok of every schedule satisfies WaitOK: all positions below len
   exist, ok <-> x < len, and a negative answer is only given at the true end. *)
From Coq Require Import Arith Lia List Bool.
Require Import Conc LayerC.
Import ListNotations.

Section Contract.
Variable B K : nat.
Hypothesis Bpos : 0 < B.
Variable valid : nat -> bool.

Notation step := (Conc.step B K valid).
Notation reach := (Conc.reach B K valid).
Notation Inv := (Conc.Inv B K).

(* the digit string as far as existence goes (the digits' values play no part in the protocol) *)
Definition Dv (j : nat) : option nat := if (j <? B * K) && forallb valid (seq 0 (S j)) then Some 0 else None.

Record Inv3 (s : st) : Prop := {
  c_valid : forall j, j < plocal s -> valid j = true;
  c_dlen : dlen s <= plocal s;
  c_bound : plocal s <= B * K;
  c_done : done s = true -> valid (dlen s) = false \/ dlen s = B * K;
  c_final : match ppc s with
            | PPubWant true _ | PPub true _ => valid (plocal s) = false \/ plocal s = B * K
            | _ => True
            end
}.

Lemma inv3_init : Inv3 (Conc.init).
Proof. constructor; cbn; try lia; try discriminate; auto. Qed.

Ltac simp := cbn [lock dlen done maxlen ppc plocal rpc imax] in *.

Lemma inv3_step s l s' : Inv s -> Inv3 s -> step s l s' -> Inv3 s'.
Proof.
  intros I [Hv Hd Hb Hdone Hfin] ST. pose proof (i_pos _ _ _ I) as HPos.
  destruct ST; simp;
    try (match goal with H : ppc _ = _ |- _ => rewrite H in *; simp end);
    try (constructor; simp; auto; fail).
  - (* PTop K -> PPubWant true K *)
    constructor; simp; auto. right. lia.
  - (* a digit obtained *)
    constructor; simp; auto; try lia.
    + intros j0 Hj. destruct (Nat.eq_dec j0 (plocal s)) as [->|Hne]; [assumption|apply Hv; lia].
    + destruct HPos as (_ & Hp & _ & HiK & HjB). rewrite Hp.
      assert (B * i + B <= B * K) by (replace (B * i + B) with (B * S i) by lia; apply Nat.mul_le_mono_l; lia). lia.
  - (* publish *)
    constructor; simp; auto.
    intros Hf. subst f. exact Hfin.
  - (* after publishing *)
    constructor; simp; auto. destruct f; exact Logic.I.
  - (* raise: wake_p changes no PPubWant / PPub state *)
    constructor; simp; auto. destruct (ppc s); simp; auto.
Qed.

Theorem reach_inv3 s : reach s -> Inv3 s.
Proof.
  induction 1 as [|s l s' Hr IH ST]; [apply inv3_init|].
  eapply inv3_step; eauto. apply (reach_inv B K Bpos valid s Hr).
Qed.

Lemma Dv_closed i : Dv i = None -> Dv (S i) = None.
Proof.
  unfold Dv. destruct ((i <? B * K) && forallb valid (seq 0 (S i))) eqn:E; [discriminate|]. intros _.
  assert (((S i <? B * K) && forallb valid (seq 0 (S (S i)))) = false) as ->; [|reflexivity].
  apply andb_false_iff in E. apply andb_false_iff. destruct E as [E|E].
  - left. apply Nat.ltb_ge in E. apply Nat.ltb_ge. lia.
  - right. rewrite seq_S, forallb_app, E. reflexivity.
Qed.

Lemma Dv_some j : j < B * K -> (forall i, i <= j -> valid i = true) -> Dv j <> None.
Proof.
  intros Hj Hv. unfold Dv. assert (forallb valid (seq 0 (S j)) = true) as ->.
  { apply forallb_forall. intros i Hi. apply in_seq in Hi. apply Hv. lia. }
  destruct (Nat.ltb_spec j (B * K)); [cbn; discriminate|lia].
Qed.

(* every return of every schedule satisfies the wait contract of Layer C *)
Theorem return_is_WaitOK s t x len ok s' : reach s -> step s (LReturn t x len ok) s' -> WaitOK Dv x (len, ok).
Proof.
  intros Hr ST. destruct (return_contract B K Bpos valid s t x len ok s' Hr ST) as (Hlen & Hok & Hend).
  destruct (reach_inv3 s Hr) as [Hv Hd Hb Hdone _]. subst len. cbn [WaitOK]. split; [|split].
  - intros j Hj. apply Dv_some; [lia|]. intros i Hi. apply Hv. lia.
  - destruct ok.
    + symmetry. apply Nat.ltb_lt. apply Hok. reflexivity.
    + symmetry. apply Nat.ltb_ge. destruct (Nat.lt_ge_cases x (dlen s)) as [H|H]; [|exact H].
      apply Hok in H. discriminate.
  - intros Hf. specialize (Hend Hf). destruct (Hdone Hend) as [Hnv|Hfull].
    + unfold Dv. assert (forallb valid (seq 0 (S (dlen s))) = false) as ->; [|rewrite andb_false_r; reflexivity].
      rewrite seq_S, forallb_app. cbn [forallb Nat.add]. rewrite Hnv. rewrite andb_false_r. reflexivity.
    + unfold Dv. rewrite Hfull. rewrite Nat.ltb_irrefl. reflexivity.
Qed.
End Contract.
