From Coq Require Import ZArith Lia List.
Open Scope Z_scope.

(* ---- model of computeGroupsFromRational ---- *)
Fixpoint up_num (fuel : nat) (num den base exp : Z) : option (Z * Z) :=
  if num <? den then
    match fuel with O => None | S f => up_num f (num * base) den base (exp - 1) end
  else Some (num, exp).

Fixpoint up_den (fuel : nat) (num den base exp : Z) : option (Z * Z) :=
  if den <=? num then
    match fuel with O => None | S f => up_den f num (den * base) base (exp + 1) end
  else Some (den, exp).

Definition groups_init (fuel : nat) (num den base : Z) : option (Z * Z * Z) :=
  match up_num fuel num den base 0 with
  | None => None
  | Some (n1, e1) =>
    let '(n2, e2) := if e1 <? 0 then (n1 / base, e1 + 1) else (n1, e1) in
    match up_den fuel n2 den base e2 with
    | None => None
    | Some (d3, e3) => Some (n2, d3, e3)
    end
  end.

(* groups(): nil when num = 0, else num*=base; (q, num) = divmod(num, denom) *)
Definition next_group (num den base : Z) : option (Z * Z) :=
  if num =? 0 then None else let n := num * base in Some (n / den, n mod den).

(* ---- specifications ---- *)
Lemma up_num_spec base : 2 <= base -> forall fuel num den exp,
  0 < num -> 0 < den -> den < num * 2 ^ Z.of_nat fuel ->
  exists k, 0 <= k /\ up_num fuel num den base exp = Some (num * base ^ k, exp - k) /\
            den <= num * base ^ k /\ (0 < k -> num * base ^ (k - 1) < den) /\ (k = 0 -> den <= num).
Proof.
  intros Hb. induction fuel as [|f IH]; intros num den exp Hn Hd Hf; cbn [up_num].
  - change (2 ^ Z.of_nat 0) with 1 in Hf. destruct (Z.ltb_spec num den); [lia|].
    exists 0. rewrite Z.pow_0_r, Z.mul_1_r, Z.sub_0_r. repeat split; try lia.
  - destruct (Z.ltb_spec num den).
    + destruct (IH (num * base) den (exp - 1)) as (k & Hk & He & H1 & H2 & H3); try nia.
      { rewrite Nat2Z.inj_succ, Z.pow_succ_r in Hf by lia. nia. }
      exists (k + 1). rewrite He. repeat split; try lia.
      * f_equal. f_equal; [|lia]. rewrite Z.pow_add_r, Z.pow_1_r by lia. ring.
      * rewrite Z.pow_add_r, Z.pow_1_r by lia. nia.
      * intros _. replace (k + 1 - 1) with k by lia. destruct (Z.eq_dec k 0) as [->|Hk0].
        -- rewrite Z.pow_0_r. lia.
        -- specialize (H2 ltac:(lia)). replace k with (k - 1 + 1) by lia.
           rewrite Z.pow_add_r, Z.pow_1_r by lia. nia.
    + exists 0. rewrite Z.pow_0_r, Z.mul_1_r, Z.sub_0_r. repeat split; try lia.
Qed.

Lemma up_den_spec base : 2 <= base -> forall fuel num den exp,
  0 < num -> 0 < den -> num < den * 2 ^ Z.of_nat fuel ->
  exists k, 0 <= k /\ up_den fuel num den base exp = Some (den * base ^ k, exp + k) /\
            num < den * base ^ k /\ (0 < k -> den * base ^ (k - 1) <= num) /\ (k = 0 -> num < den).
Proof.
  intros Hb. induction fuel as [|f IH]; intros num den exp Hn Hd Hf; cbn [up_den].
  - change (2 ^ Z.of_nat 0) with 1 in Hf. destruct (Z.leb_spec den num); [lia|].
    exists 0. rewrite Z.pow_0_r, Z.mul_1_r, Z.add_0_r. repeat split; try lia.
  - destruct (Z.leb_spec den num).
    + destruct (IH num (den * base) (exp + 1)) as (k & Hk & He & H1 & H2 & H3); try nia.
      { rewrite Nat2Z.inj_succ, Z.pow_succ_r in Hf by lia. nia. }
      exists (k + 1). rewrite He. repeat split; try lia.
      * f_equal. f_equal; [|lia]. rewrite Z.pow_add_r, Z.pow_1_r by lia. ring.
      * rewrite Z.pow_add_r, Z.pow_1_r by lia. nia.
      * intros _. replace (k + 1 - 1) with k by lia. destruct (Z.eq_dec k 0) as [->|Hk0].
        -- rewrite Z.pow_0_r. lia.
        -- specialize (H2 ltac:(lia)). replace k with (k - 1 + 1) by lia.
           rewrite Z.pow_add_r, Z.pow_1_r by lia. nia.
    + exists 0. rewrite Z.pow_0_r, Z.mul_1_r, Z.add_0_r. repeat split; try lia.
Qed.

Theorem norm_spec base fuel num den :
  2 <= base -> 0 < num -> 0 < den ->
  den < num * 2 ^ Z.of_nat fuel -> num < den * 2 ^ Z.of_nat fuel ->
  exists n d e, groups_init fuel num den base = Some (n, d, e) /\
    0 < n /\ 0 < d /\ n < d /\ d <= n * base /\
    ((0 <= e /\ n = num /\ d = den * base ^ e) \/ (e <= 0 /\ n = num * base ^ (- e) /\ d = den)).
Proof.
  intros Hb Hn Hd Hf1 Hf2. unfold groups_init.
  destruct (up_num_spec base Hb fuel num den 0 Hn Hd Hf1) as (k1 & Hk1 & He1 & H1 & H2 & H3).
  rewrite He1.
  assert (Hpow : forall k, 0 <= k -> 0 < base ^ k) by (intros; apply Z.pow_pos_nonneg; lia).
  destruct (Z.ltb_spec (0 - k1) 0) as [Hneg|Hnn].
  - (* radicand below 1: one step back *)
    assert (Hk : 0 < k1) by lia. specialize (H2 Hk).
    assert (Hdiv : num * base ^ k1 / base = num * base ^ (k1 - 1)).
    { replace k1 with (k1 - 1 + 1) at 1 by lia. rewrite Z.pow_add_r, Z.pow_1_r by lia.
      rewrite Z.mul_assoc. apply Z.div_mul. lia. }
    rewrite Hdiv.
    pose proof (Hpow (k1 - 1) ltac:(lia)) as Hp.
    destruct (up_den_spec base Hb fuel (num * base ^ (k1 - 1)) den (0 - k1 + 1) ltac:(nia) Hd) as (k2 & Hk2 & He2 & G1 & G2 & G3).
    { pose proof (Z.pow_pos_nonneg 2 (Z.of_nat fuel) ltac:(lia) ltac:(lia)). nia. }
    assert (k2 = 0).
    { destruct (Z.eq_dec k2 0); auto. exfalso. specialize (G2 ltac:(lia)).
      pose proof (Hpow (k2 - 1) ltac:(lia)). nia. }
    subst k2. rewrite He2. rewrite Z.pow_0_r, Z.mul_1_r, Z.add_0_r.
    exists (num * base ^ (k1 - 1)), den, (0 - k1 + 1). split; [reflexivity|].
    repeat split; try nia.
    + replace (num * base ^ (k1 - 1) * base) with (num * base ^ k1); [lia|].
      replace k1 with (k1 - 1 + 1) at 1 by lia. rewrite Z.pow_add_r, Z.pow_1_r by lia. ring.
    + right. repeat split; try lia. f_equal. f_equal. lia.
  - (* radicand at least 1 *)
    assert (k1 = 0) by lia. subst k1. specialize (H3 eq_refl).
    rewrite Z.pow_0_r, Z.mul_1_r in *.
    destruct (up_den_spec base Hb fuel num den (0 - 0) Hn Hd Hf2) as (k2 & Hk2 & He2 & G1 & G2 & G3).
    rewrite He2.
    assert (0 < k2) by (destruct (Z.eq_dec k2 0); [specialize (G3 ltac:(auto)); lia|lia]).
    specialize (G2 H).
    exists num, (den * base ^ k2), (0 - 0 + k2). split; [reflexivity|].
    pose proof (Hpow k2 ltac:(lia)).
    repeat split; try nia.
    + replace k2 with (k2 - 1 + 1) by lia. rewrite Z.pow_add_r, Z.pow_1_r by lia. nia.
    + left. repeat split; try lia.
Qed.

(* ---- long division: the first k groups spell floor(n * base^k / d) ---- *)
Fixpoint groups_run (k : nat) (num den base : Z) (acc : Z) : Z * Z :=
  (* returns (X_k, num_k): value of the first k groups, and the remaining numerator *)
  match k with
  | O => (acc, num)
  | S k' =>
    match next_group num den base with
    | None => groups_run k' num den base (acc * base)           (* exhausted: group counts as 0 *)
    | Some (g, num') => groups_run k' num' den base (acc * base + g)
    end
  end.

Lemma groups_run_spec base den : 2 <= base -> 0 < den -> forall k num acc,
  0 <= num < den ->
  let '(X, r) := groups_run k num den base acc in
  X = acc * base ^ Z.of_nat k + (num * base ^ Z.of_nat k) / den /\
  r = (num * base ^ Z.of_nat k) mod den.
Proof.
  intros Hb Hd. induction k as [|k IH]; intros num acc Hn.
  - cbn. rewrite Z.mul_1_r, Z.mul_1_r. rewrite Z.div_small, Z.mod_small by lia. lia.
  - cbn [groups_run]. unfold next_group.
    rewrite Nat2Z.inj_succ, Z.pow_succ_r by lia.
    destruct (Z.eqb_spec num 0) as [->|Hnz].
    + specialize (IH 0 (acc * base) ltac:(lia)). destruct (groups_run k 0 den base (acc * base)) as [X r].
      destruct IH as (HX & Hr). rewrite !Z.mul_0_l in *. rewrite Z.div_0_l, Z.mod_0_l in * by lia.
      split; [rewrite HX; ring|exact Hr].
    + pose proof (Z.mod_pos_bound (num * base) den Hd) as Hm.
      specialize (IH ((num * base) mod den) (acc * base + num * base / den) Hm).
      destruct (groups_run k ((num * base) mod den) den base (acc * base + num * base / den)) as [X r].
      destruct IH as (HX & Hr).
      set (p := base ^ Z.of_nat k) in *.
      assert (Hsplit : num * (base * p) = (num * base / den * p) * den + ((num * base) mod den) * p).
      { pose proof (Z.div_mod (num * base) den ltac:(lia)) as E.
        transitivity (num * base * p); [ring|]. rewrite E at 1. ring. }
      split.
      * rewrite HX, Hsplit. rewrite Z.div_add_l by lia. ring.
      * rewrite Hr, Hsplit. rewrite Z.add_comm, Z.mod_add by lia. reflexivity.
Qed.
Print Assumptions norm_spec.
Print Assumptions groups_run_spec.
