import sys, os, json, time, subprocess, hashlib, re, fcntl, shutil, glob, tempfile

ROOT = os.path.dirname(os.path.dirname(os.path.abspath(__file__)))
COQ = os.path.join(ROOT, 'coq')
TH = os.path.join(COQ, 'theories')
BUILD = os.path.join(ROOT, 'build')
REPO = os.environ.get('VERIF_REPO', '/repo')
GOENV = dict(os.environ, GOFLAGS='-mod=mod', GOPROXY='off', GOSUMDB='off', GOTOOLCHAIN='local',
             CGO_ENABLED=os.environ.get('CGO_ENABLED', '0'))

sys.path.insert(0, os.path.join(ROOT, 'bin'))
from props import PROPS  # per-property configuration


def sh(cmd, cwd=None, env=None, timeout=None, stdin=None):
    p = subprocess.run(cmd, cwd=cwd, env=env, timeout=timeout, input=stdin,
                       stdout=subprocess.PIPE, stderr=subprocess.STDOUT, text=True, shell=isinstance(cmd, str))
    return p.returncode, p.stdout


class Lock:
    def __init__(self, name):
        os.makedirs(BUILD, exist_ok=True)
        self.path = os.path.join(BUILD, name)
    def __enter__(self):
        self.f = open(self.path, 'w')
        fcntl.flock(self.f, fcntl.LOCK_EX)
        return self
    def __exit__(self, *a):
        fcntl.flock(self.f, fcntl.LOCK_UN)
        self.f.close()


def sha_files(paths):
    h = hashlib.sha256()
    for p in sorted(paths):
        h.update(p.encode())
        try:
            with open(p, 'rb') as f:
                h.update(f.read())
        except OSError:
            h.update(b'<missing>')
    return h.hexdigest()


def stamp_ok(name, digest):
    try:
        return open(os.path.join(BUILD, name)).read().strip() == digest
    except OSError:
        return False


def stamp_write(name, digest):
    with open(os.path.join(BUILD, name), 'w') as f:
        f.write(digest)


# ---------------------------------------------------------------- Coq side

FORBIDDEN = re.compile(r'\b(Admitted|admit|Axiom|Axioms|Parameter|Parameters|Conjecture|Hypothesis|Variable|Variables|Hypotheses|'
                       r'bypass_check|Admit\s+Obligations)\b|Unset\s+Guard|Unset\s+Positivity|Unset\s+Universe|type-in-type|impredicative-set')


def strip_comments(text):
    out, depth, i = [], 0, 0
    while i < len(text):
        if text.startswith('(*', i):
            depth += 1; i += 2
        elif text.startswith('*)', i) and depth > 0:
            depth -= 1; i += 2
        else:
            if depth == 0:
                out.append(text[i])
            elif text[i] == '\n':
                out.append('\n')
            i += 1
    return ''.join(out)


def audit_sources():
    """No Admitted/admit/Axiom/Parameter/..., Variable/Hypothesis only inside a Section."""
    bad = []
    files = glob.glob(os.path.join(TH, '**', '*.v'), recursive=True) + [os.path.join(ROOT, 'ocaml', 'Extract.v')]
    for f in files:
        txt = strip_comments(open(f).read())
        depth = 0
        for ln, line in enumerate(txt.split('\n'), 1):
            if re.match(r'\s*Section\b', line): depth += 1
            if re.match(r'\s*End\b', line) and depth > 0: depth -= 1
            m = FORBIDDEN.search(line)
            if m:
                w = m.group(0)
                if w in ('Variable', 'Variables', 'Hypothesis', 'Hypotheses') and depth > 0:
                    continue
                bad.append('%s:%d: %s' % (os.path.relpath(f, ROOT), ln, w))
    return bad


def cone(vfile):
    """transitive closure of our own Require'd files, as paths under theories/"""
    index = {}
    for f in glob.glob(os.path.join(TH, '**', '*.v'), recursive=True):
        index[os.path.splitext(os.path.basename(f))[0]] = f
    seen, todo = {}, [vfile]
    while todo:
        f = todo.pop()
        if f in seen: continue
        txt = strip_comments(open(f).read())
        seen[f] = txt
        for m in re.finditer(r'(?:From\s+SQ(?:\.\w+)*\s+)?Require\s+(?:Import\s+|Export\s+)?([^.]*)\.', txt):
            for name in m.group(1).split():
                name = name.split('.')[-1]
                if name in index: todo.append(index[name])
    return seen


def count_obligations(vfile):
    c = cone(vfile)
    n = 0
    for f, txt in c.items():
        n += len(re.findall(r'\bQed\.', txt)) + len(re.findall(r'\bDefined\.', txt))
    return n, sorted(os.path.relpath(f, TH) for f in c)


def coq_build(log):
    """regenerate SrcParams, make. Returns (ok, message)"""
    t0 = time.time()
    ok, msg = True, ''
    # source-derived parameters (translator); optional until built
    sp = os.path.join(BUILD, 'srcparams')
    spsrc = glob.glob(os.path.join(ROOT, 'harness', 'cmd', 'srcparams', '*.go'))
    d = sha_files(spsrc)
    if not (stamp_ok('srcparams.stamp', d) and os.path.exists(sp)):
        rc, out = sh(['go', 'build', '-o', sp, './cmd/srcparams'], cwd=os.path.join(ROOT, 'harness'), env=GOENV, timeout=600)
        if rc != 0:
            return False, 'translator srcparams does not build: ' + out[-800:]
        stamp_write('srcparams.stamp', d)
    rc, out = sh([sp, '-repo', REPO, '-out', os.path.join(TH, 'Generated', 'SrcParams.v')], env=GOENV)
    log.append(out)
    if rc != 0:
        return False, 'translator srcparams failed (a constant the model depends on was not found in the sources): ' + out.strip()[-500:]
    rc, out = sh(['sh', os.path.join(COQ, 'mkproject.sh')])
    if rc != 0: return False, 'coq_makefile failed: ' + out
    rc, out = sh('timeout 3000 make -j16 2>&1', cwd=COQ)
    log.append(out[-4000:])
    if rc != 0:
        ok = False
        m = re.search(r'File "([^"]+)", line (\d+)', out)
        where = ''
        if m:
            where = '%s line %s' % (m.group(1), m.group(2))
            try:
                lines = open(os.path.join(COQ, m.group(1))).read().split('\n')[:int(m.group(2))]
                for l in reversed(lines):
                    mm = re.match(r'\s*(Lemma|Theorem|Corollary|Example|Fact|Remark|Proposition|Definition|Fixpoint)\s+(\w+)', l)
                    if mm:
                        where += ' (%s %s)' % (mm.group(1), mm.group(2)); break
            except Exception:
                pass
        msg = 'Coq build fails at ' + where + ': ' + out.strip()[-600:]
    return ok, msg


def print_assumptions(prop):
    """recompile the property's theorem file and capture Print Assumptions output"""
    vf = os.path.join(TH, 'Properties', prop + '.v')
    tmpdir = tempfile.mkdtemp(prefix='pa-', dir=BUILD)
    try:
        rc, out = sh(['coqc', '-R', TH, 'SQ', '-o', os.path.join(tmpdir, prop + '.vo'), vf], cwd=COQ, timeout=1200)
    finally:
        shutil.rmtree(tmpdir, ignore_errors=True)
    if rc != 0:
        return False, [], out
    closed = len(re.findall(r'Closed under the global context', out))
    axioms = []
    if 'Axioms:' in out:
        for blk in out.split('Axioms:')[1:]:
            for l in blk.split('\n')[1:]:
                m = re.match(r'^(\S+)\s*:', l)
                if m: axioms.append(m.group(1))
                elif l.strip() == '' or l.startswith('Closed'): break
    return True, sorted(set(axioms)), 'theorems closed under the global context: %d' % closed


def build_model():
    srcs = glob.glob(os.path.join(ROOT, 'ocaml', '*.ml')) + [os.path.join(ROOT, 'ocaml', 'Extract.v'),
            os.path.join(ROOT, 'ocaml', 'build.sh')] + glob.glob(os.path.join(TH, '**', '*.v'), recursive=True)
    d = sha_files(srcs)
    if stamp_ok('sqmodel.stamp', d) and os.path.exists(os.path.join(BUILD, 'sqmodel')):
        return True, ''
    rc, out = sh(['sh', os.path.join(ROOT, 'ocaml', 'build.sh')], timeout=1800)
    if rc != 0:
        return False, out[-1500:]
    stamp_write('sqmodel.stamp', d)
    return True, ''


def repo_go_files():
    fs = []
    for d in ('', 'v2', 'v3'):
        fs += glob.glob(os.path.join(REPO, d, '*.go')) + [os.path.join(REPO, d, 'go.mod')]
    return [f for f in fs if not f.endswith('_test.go')]


def build_driver():
    srcs = repo_go_files() + glob.glob(os.path.join(ROOT, 'harness', '**', '*.go'), recursive=True) + \
        [os.path.join(ROOT, 'harness', 'go.mod')]
    d = sha_files(srcs)
    if stamp_ok('sqdrive.stamp', d) and os.path.exists(os.path.join(BUILD, 'sqdrive')):
        return True, ''
    h = os.path.join(ROOT, 'harness')
    if REPO != '/repo':
        return False, 'VERIF_REPO other than /repo is not supported by harness/go.mod'
    tmp = os.path.join(BUILD, 'sqdrive.%d' % os.getpid())
    rc, out = sh(['go', 'build', '-tags', 'verif', '-o', tmp, './cmd/sqdrive'], cwd=h, env=GOENV, timeout=900)
    if rc != 0:
        return False, out[-3000:]
    os.replace(tmp, os.path.join(BUILD, 'sqdrive'))
    stamp_write('sqdrive.stamp', d)
    return True, ''


# ---------------------------------------------------------------- findings

def load_known():
    known, fixed = [], []
    try:
        for l in open(os.path.join(ROOT, 'known_findings.txt')):
            l = l.strip()
            if l.startswith('known:'):
                m = re.search(r'property=(\S+)\s+key=(\S+)\s*(.*)', l)
                if m: known.append((m.group(1), m.group(2), m.group(3)))
            elif l.startswith('fixed:'):
                fixed.append(l)
    except OSError:
        pass
    return known, fixed


# ---------------------------------------------------------------- main

def write_replay(prop, kind, payload):
    os.makedirs(os.path.join(ROOT, 'replays'), exist_ok=True)
    body = json.dumps(payload, indent=1, sort_keys=True)
    h = hashlib.sha256(body.encode()).hexdigest()[:12]
    path = os.path.join(ROOT, 'replays', '%s-%s-%s.json' % (prop, kind, h))
    with open(path, 'w') as f:
        f.write(body + '\n')
    return path


def run_cases(prop, tier, seed, workdir, extra_args=()):
    """returns list of result rows (status, line, model, tags, msg), stats"""
    cases = os.path.join(workdir, 'cases.txt')
    res = os.path.join(workdir, 'results.txt')
    with open(cases, 'w') as f:
        p = subprocess.run([os.path.join(BUILD, 'sqdrive'), 'gen', '-prop', prop, '-tier', tier, '-seed', str(seed)] + list(extra_args),
                           stdout=f, stderr=subprocess.PIPE, text=True, env=GOENV)
    if p.returncode != 0:
        # the driver process died (a panic in a background goroutine cannot be recovered): find the case it was running
        q = subprocess.run([os.path.join(BUILD, 'sqdrive'), 'gen', '-prop', prop, '-tier', tier, '-seed', str(seed), '-begin'] + list(extra_args),
                           stdout=subprocess.PIPE, stderr=subprocess.PIPE, text=True, env=GOENV)
        last = [l for l in q.stdout.split('\n') if l.startswith('BEGIN ')]
        case = last[-1][6:] if last else ''
        return None, 'CRASH\t' + case + '\t' + p.stderr[:1500]
    # the model side is sharded over the cores (binary Coq integers are slow); results keep the case order
    nshard = int(os.environ.get('VERIF_SHARDS', '14'))
    lines = open(cases).read().split('\n')
    if lines and lines[-1] == '': lines.pop()
    if len(lines) < 200: nshard = 1
    procs = []
    for s in range(nshard):
        sp = os.path.join(workdir, 'shard%d.txt' % s)
        with open(sp, 'w') as f:
            f.write('\n'.join(lines[s::nshard]) + ('\n' if lines[s::nshard] else ''))
        fo = open(os.path.join(workdir, 'shard%d.res' % s), 'w')
        procs.append((subprocess.Popen([os.path.join(BUILD, 'sqmodel')], stdin=open(sp), stdout=fo, stderr=subprocess.PIPE, text=True), fo))
    errs = []
    class P: pass
    p = P(); p.returncode = 0; p.stderr = ''
    for pr, fo in procs:
        _, e = pr.communicate()
        fo.close()
        if pr.returncode != 0:
            p.returncode = pr.returncode; p.stderr += e
    if p.returncode != 0:
        return None, 'sqmodel failed: ' + p.stderr[-2000:]
    shard_rows = [open(os.path.join(workdir, 'shard%d.res' % s)).read().split('\n') for s in range(nshard)]
    with open(res, 'w') as fo:
        for i in range(len(lines)):
            fo.write(shard_rows[i % nshard][i // nshard] + '\n')
    p.stderr = '%d cases in %d shards' % (len(lines), nshard)
    rows = []
    with open(res) as f:
        for l in f:
            parts = l.rstrip('\n').split('\t')
            while len(parts) < 5: parts.append('')
            rows.append(parts)
    return rows, p.stderr.strip()


def replay(prop, path):
    data = json.load(open(path))
    print(json.dumps(data, indent=1))
    line = data.get('case')
    if not line:
        print('replay file names a broken obligation, not an input: nothing to re-run')
        return 0
    with Lock('build.lock'):
        ok, msg = build_driver()
        ok2, msg2 = build_model()
    if not (ok and ok2):
        print('build failed', msg, msg2); return 2
    inp = line.split('=>')[0]
    p = subprocess.run([os.path.join(BUILD, 'sqdrive'), 'run'], input=inp + '\n', stdout=subprocess.PIPE, text=True, env=GOENV)
    print('implementation now:', p.stdout.strip())
    q = subprocess.run([os.path.join(BUILD, 'sqmodel')], input=p.stdout, stdout=subprocess.PIPE, stderr=subprocess.DEVNULL, text=True)
    parts = q.stdout.rstrip('\n').split('\t')
    print('model / spec verdict:', parts[0], '| model:', parts[2] if len(parts) > 2 else '', '|', parts[4] if len(parts) > 4 else '')
    return 0 if parts and parts[0] == 'OK' else 1


def main(argv):
    if len(argv) < 2:
        print(__doc__ or 'usage: check <Cnn> <quick|thorough> [--replay file]'); return 2
    prop = argv[0]
    if argv[1] == '--replay':
        return replay(prop, argv[2])
    tier = argv[1]
    if len(argv) >= 4 and argv[2] == '--replay':
        return replay(prop, argv[3])
    if os.environ.get('VERIF_TIER'):
        pass  # the tier argument of the registered command wins
    seed = int(os.environ.get('VERIF_SEED', '1') or '1')
    cfg = PROPS[prop]
    t0 = time.time()
    log = []
    violations = []     # (replay_path, found_input: bool, text)
    known_printed = []
    notes = []
    os.makedirs(BUILD, exist_ok=True)
    os.makedirs(os.path.join(ROOT, 'evidence'), exist_ok=True)

    # ---- 1. proofs
    with Lock('build.lock'):
        coq_ok, coq_msg = coq_build(log)
        bad = audit_sources()
        pa_ok, axioms, pa_text = (False, [], '')
        if coq_ok:
            pa_ok, axioms, pa_text = print_assumptions(prop)
        model_ok, model_msg = build_model() if coq_ok else (os.path.exists(os.path.join(BUILD, 'sqmodel')), 'Coq build failed; using the last extracted model')
        drv_ok, drv_msg = build_driver()
        chk_text = ''
        if coq_ok and pa_ok and tier == 'thorough':
            # independent re-check of the compiled property file and everything it depends on
            rc, out = sh(['coqchk', '-silent', '-o', '-R', TH, 'SQ', 'SQ.Properties.' + prop], cwd=COQ, timeout=3000)
            m = re.search(r'\* Axioms:(.*?)\n\s*\n', out, flags=re.S)
            chk_text = 'coqchk: rc=%d axioms=%s' % (rc, (m.group(1).strip() if m else '?'))
            if rc != 0 or not m or m.group(1).strip() != '<none>':
                coq_ok = False
                coq_msg = 'coqchk does not accept Properties/%s.vo without axioms: %s' % (prop, out[-600:])
    thm_file = os.path.join(TH, 'Properties', prop + '.v')
    obligations, cone_files = count_obligations(thm_file)
    discharged = obligations if (coq_ok and pa_ok) else 0
    allowed_axioms = set(cfg.get('allowed_axioms', []))
    proof_problems = []
    if not coq_ok: proof_problems.append(coq_msg)
    if bad: proof_problems.append('forbidden constructs: ' + '; '.join(bad[:10]))
    if coq_ok and not pa_ok: proof_problems.append('Properties/%s.v does not compile: %s' % (prop, pa_text[-800:]))
    extra_ax = [a for a in axioms if a not in allowed_axioms]
    if extra_ax: proof_problems.append('unlisted axioms: ' + ', '.join(extra_ax))

    # ---- 2./3. correspondence + checkers
    rows, stats = None, ''
    corr_problem = None
    if not drv_ok:
        corr_problem = 'Go driver does not build against /repo: ' + drv_msg[-1500:]
    elif not model_ok:
        corr_problem = 'model driver does not build: ' + model_msg
    workdir = tempfile.mkdtemp(prefix='run-%s-' % prop, dir=BUILD)
    extra_cov = {}
    try:
        if corr_problem is None:
            rows, stats = run_cases(prop, tier, seed, workdir)
            if rows is None and stats.startswith('CRASH\t'):
                _, case, err = stats.split('\t', 2)
                path = write_replay(prop, 'input', {'property': prop, 'kind': 'failing-input', 'case': case + ' => (process died)', 'stderr': err,
                                    'explanation': 'the driver process died while executing this case: a panic outside the calling goroutine (or a fatal runtime error) cannot be recovered by the caller'})
                violations.append((path, True, 'the process died while running a case: ' + err.split('\n')[0][:200]))
                stats = ''
                rows = []
            elif rows is None:
                corr_problem = stats
        # property-specific extra stages (schedule exploration, fault timing, child processes)
        for stage in cfg.get('stages', []):
            if not drv_ok: break
            r = stage(prop=prop, tier=tier, seed=seed, workdir=workdir, env=GOENV, root=ROOT, build=BUILD, repo=REPO)
            extra_cov.update(r.get('coverage', {}))
            for v in r.get('violations', []):
                violations.append(v)
            for k in r.get('known', []):
                known_printed.append(k)
            notes += r.get('notes', [])
    finally:
        shutil.rmtree(workdir, ignore_errors=True)

    # thorough tier: a sample of the cases re-evaluated inside Coq (vm_compute) against the extracted model's answers
    if tier == 'thorough' and rows and coq_ok:
        try:
            import vmcross
            nx, mism = vmcross.cross_check(ROOT, rows)
            extra_cov['extraction_cross_check'] = {'cases_evaluated_in_coq': nx, 'mismatches': len(mism)}
            for mm in mism[:2]:
                path = write_replay(prop, 'obligation', {'property': prop, 'kind': 'broken-obligation', 'correspondence_problem': mm,
                                    'explanation': 'the extracted OCaml model and the in-Coq evaluation of the same model function differ'})
                violations.append((path, False, mm[:200]))
        except Exception as e:
            notes.append('extraction cross-check not run: %r' % (e,))

    known, fixed = load_known()
    knownset = {(p, k): txt for (p, k, txt) in known}
    counts = {'OK': 0, 'DIFF': 0, 'SPECFAIL': 0, 'KNOWN': 0, 'SKIP': 0}
    samples, distinct, tagsum = [], set(), {}
    seen_inputs = set()
    ops_hist = {}
    firsts = {'DIFF': [], 'SPECFAIL': [], 'KNOWN': {}}
    if rows is not None:
        for st, line, model, tags, msg in rows:
            counts[st] = counts.get(st, 0) + 1
            f = line.split(' ')
            inp = ' '.join(f[2:]).split('=>')[0]      # version + op + args
            ops_hist[f[2] + ' ' + f[3]] = ops_hist.get(f[2] + ' ' + f[3], 0) + 1
            if tags:
                if inp not in distinct:
                    distinct.add(inp)
                for tg in tags.split(','):
                    tagsum[tg] = tagsum.get(tg, 0) + 1
            seen_inputs.add(inp)
            if st in ('DIFF', 'SPECFAIL') and len(firsts[st]) < 5:
                firsts[st].append((line, model, msg))
            if st == 'KNOWN':
                firsts['KNOWN'].setdefault(msg, (line, model))
        step = max(1, len(rows) // 6)
        samples = [r[1][:400] for r in rows[::step]][:8]
        if counts.get('SKIP', 0):
            corr_problem = (corr_problem or '') + ' %d cases have no model handler' % counts['SKIP']

    # ---- 4. verdict
    for key, (line, model) in firsts['KNOWN'].items():
        if (prop, key) in knownset:
            known_printed.append('KNOWN-FINDING: property=%s %s [e.g. %s]' % (prop, knownset[(prop, key)], line[:160]))
        else:
            path = write_replay(prop, 'input', {'property': prop, 'kind': 'failing-input', 'case': line, 'finding_key': key,
                                                'explanation': 'the property as stated fails on this input (finding %s is not listed in known_findings.txt)' % key})
            violations.append((path, True, 'unlisted finding ' + key))
    for line, model, msg in firsts['SPECFAIL'][:3]:
        path = write_replay(prop, 'input', {'property': prop, 'kind': 'failing-input', 'case': line, 'model_observation': model,
                                            'spec_checker': msg, 'seed': seed, 'tier': tier,
                                            'explanation': 'the property\'s statement, evaluated on the implementation\'s observation by the extracted checker, fails on this input'})
        violations.append((path, True, msg))
    if not firsts['SPECFAIL']:
        for line, model, msg in firsts['DIFF'][:3]:
            found = bool(cfg.get('functional', True))
            path = write_replay(prop, 'input' if found else 'corr', {
                'property': prop, 'kind': 'failing-input' if found else 'correspondence', 'case': line, 'model_observation': model,
                'seed': seed, 'tier': tier, 'theorem': cfg.get('theorem', ''),
                'explanation': ('the model\'s observation is proved (%s) to be what the property demands; the implementation differs on this input'
                                % cfg.get('theorem', 'Properties/%s.v' % prop)) if found else
                               'model and implementation disagree on this input; no spec checker rejected the implementation'})
            violations.append((path, found, 'model/implementation disagree'))
    if (proof_problems or corr_problem) and not any(v[1] for v in violations):
        path = write_replay(prop, 'obligation', {'property': prop, 'kind': 'broken-obligation',
                                                 'proof_problems': proof_problems, 'correspondence_problem': corr_problem,
                                                 'searched': 'tier %s generators, %d cases, spec checkers on every implementation observation' % (tier, len(rows or [])),
                                                 'explanation': 'the property is no longer shown to hold: a theorem or the correspondence no longer checks; no failing input was found'})
        violations.append((path, False, '; '.join(proof_problems + ([corr_problem] if corr_problem else []))[:300]))

    wall = time.time() - t0
    trusted = ['Coq 8.16.1 kernel (coqc); vm_compute used for finite computations; no native_compute',
               'axioms reported by Print Assumptions for Properties/%s.v: %s' % (prop, ', '.join(axioms) if axioms else 'none (Closed under the global context)'),
               'hand-written Gallina model tied to /repo by the correspondence run (Go driver sqdrive + extracted OCaml driver sqmodel)',
               'extraction: ExtrOcamlBasic only (bool, option, unit, list, prod, sumbool, sumor, andb, orb); Z/positive/nat stay Coq inductives; OCaml 4.13.1',
               'Go 1.23.5 toolchain; modelled not verified: ' + cfg.get('modelled', 'math/big, sort.Slice')]
    cov = {
        'obligations': max(obligations, 0), 'discharged': discharged,
        'checker_cmd': 'cd /verif/coq && make -j16 && coqc -R theories SQ theories/Properties/%s.v' % prop,
        'trusted_base': trusted,
        'proof_files': cone_files,
        'print_assumptions': pa_text, 'coqchk': chk_text,
        'evaluations': len(rows or []), 'distinct_nontrivial': len(distinct),
        'rule': cfg.get('rule', ''),
        'samples': samples or ['(no cases ran)'],
        'programs': len(seen_inputs), 'disagreements_checked': counts['DIFF'] + counts['SPECFAIL'],
        'status_counts': counts, 'feature_histogram': tagsum, 'op_histogram': ops_hist,
        'exhaustive': False,
        'notes': notes + ([stats] if stats else []),
    }
    cov.update(extra_cov)
    ev = {'property_id': prop, 'tier': tier, 'seed': seed, 'level': 'proof', 'coverage': cov,
          'assumptions': cfg.get('assumptions', []), 'wall_s': round(wall, 2), 'violations': len(violations)}
    with open(os.path.join(ROOT, 'evidence', prop + '.json'), 'w') as f:
        json.dump(ev, f, indent=1)
        f.write('\n')

    for k in dict.fromkeys(known_printed):
        print(k)
    print('%s %s: obligations %d discharged %d; cases %d (OK %d, DIFF %d, SPECFAIL %d, KNOWN %d); %.1fs' % (
        prop, tier, obligations, discharged, len(rows or []), counts['OK'], counts['DIFF'], counts['SPECFAIL'], counts['KNOWN'], wall))
    if violations:
        for path, found, text in violations:
            print('  ' + text[:300].replace('\n', ' '))
        # one VIOLATION line per replay, failing inputs first
        for path, found, text in sorted(violations, key=lambda v: not v[1]):
            print('VIOLATION property=%s replay=%s%s' % (prop, path, '' if found else ' no-failing-input-found'))
        return 1
    return 0
