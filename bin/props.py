"""Per-property configuration of bin/check."""

PROPS = {}

PROPS['C11'] = dict(
    theorem='C11_history, C11_normal_union, C11_union_words, C11_end, C11_upto_between, C11_reset (Properties/C11.v)',
    level_text='Theorems for every history of Add/AddRange/Build calls with arbitrary integer arguments (induction over the call list, builder invariant): every built value is in normal form and denotes exactly the union of the clamped ranges added since the previous Build; End, UpTo/Between, reset. The model is tied to the three positions.go copies by a differential run on exhaustive small histories plus random histories with int extremes, and the extracted checker c11_check_words (proved sound) is run on every implementation output.',
    level_note='Trusted: Coq kernel, extraction (ExtrOcamlBasic), the Go/OCaml drivers, the reading of Go int as 64-bit with wrap-around. Slice aliasing between a built Positions and the builder is outside the pure model (covered by re-reading built values at the end of each history, and by C14). Known finding: Add(MaxInt) is dropped (known_findings.txt).',
    functional=True,
    rule='cases: every history of <=2 calls over {-2..5} then Build (exhaustive), random histories of 1-15 Add/AddRange/Build '
         'ops with builder reuse and int extremes, UpTo/Between on a boundary grid; all three versions. A case is non-trivial '
         'when the model takes a non-default branch: a built value with >=2 ranges, builder reuse, an Add call, or >=4 ops; '
         'distinct = distinct (version, op, args).',
    modelled='sort.Slice (unstable) by a stable insertion sort: the result of Build is proved independent of tie order',
    assumptions=['Go int is 64 bit; Add(posit) computes posit+1 with wrap-around (modelled as wrap64)',
                 'the pure model cannot express slice aliasing between a built Positions value and the builder; '
                 'that clause is tied to the code only by re-reading every built value at the end of each history'],
)
