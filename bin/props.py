"""Per-property configuration of bin/check."""

PROPS = {}

PROPS['C11'] = dict(
    theorem='C11_history, C11_normal_union, C11_union_words, C11_end, C11_upto_between, C11_reset (Properties/C11.v)',
    level_text='Theorems for every history of Add/AddRange/Build calls with arbitrary integer arguments (induction over the call list, builder invariant): every built value is in normal form and denotes exactly the union of the clamped ranges added since the previous Build; End, UpTo/Between, reset. The model is tied to the three positions.go copies by a differential run on exhaustive small histories plus random histories with int extremes, and the extracted checker c11_check_words (proved sound) is run on every implementation output.',
    level_note='Trusted: Coq kernel, extraction (ExtrOcamlBasic), the Go/OCaml drivers, the reading of Go int as 64-bit with wrap-around. Slice aliasing between a built Positions and the builder is outside the pure model (covered by re-reading built values at the end of each history, and by C14). Known finding: Add(MaxInt) is dropped (known_findings.txt).',
    functional=True,
    rule='cases: every history of <=2 calls over {-2..5} then Build (exhaustive), random histories of 1-15 Add/AddRange/Build '
         'ops with builder reuse and int extremes, UpTo/Between on a boundary grid; all three versions. A case is non-trivial '
         'when the model takes a non-default branch: a built value with >=2 ranges, builder reuse, an Add call, or >=4 ops; '
         'distinct = distinct (version, op, args).',
    modelled='sort.Slice (unstable) by a stable insertion sort: the result of Build is proved independent of tie order',
    assumptions=['Go int is 64 bit; Add(posit) computes posit+1 with wrap-around (modelled as wrap64)',
                 'the pure model cannot express slice aliasing between a built Positions value and the builder; '
                 'that clause is tied to the code only by re-reading every built value at the end of each history'],
)

_root_modelled = 'math/big arithmetic as Z (Div/DivMod only with positive divisor and non-negative dividend); int64/big.Rat conversions as identities on values'
for _p, _k, _name in (('C01', 'KSqrt', 'square'), ('C02', 'KCube', 'cube')):
    PROPS[_p] = dict(
        theorem='%s_exact, %s_zero, %s_panic_iff, %s_value_only, %s_checker_sound, %s_last_prefix_suffices, %s_checker_last_sound (Properties/%s.v)' % (_p, _p, _p, _p, _p, _p, _p, _p),
        functional=True,
        level_text='Theorem for every positive radicand num/den and every depth n (no bound on magnitude or digit count): the model of the '
                   '%s-root constructors (normalisation loops, long division into groups, digit loop with the incr/incr2 recurrences) returns an '
                   'exponent and digits whose every prefix satisfies the property\'s inequality in cross-multiplied form, digits in 0..9, first digit >= 1, '
                   'zero for radicand 0, panic iff bad sign; proofs by loop invariants (norm_spec, gen_step_inv/cgen_step_inv, run_list_spec). Tied to '
                   'the code of all three versions and all four constructors by a differential run, and the extracted checker ctor_check_fast '
                   '(proved sound) judges every implementation output independently of the model.' % _name,
        level_note='Trusted: Coq kernel, extraction, drivers; math/big modelled by Z. "Depends only on the value of r" is a theorem (_value_only, by scaling invariance of the '
                   'normalisation and of long division) and is also run (each value through several representations and constructors). The memoizer between the digit '
                   'closure and At() is covered by C04-C06.',
        rule='cases: zero and malformed arguments, every integer <= 300 (2000 thorough) and small fractions, perfect powers s^p and s^p+-1 for '
             's = 99..9, 100..0x, random up to 40 digits, trailing zeros, each at scales 10^-t, neighbours of powers of ten and their reciprocals, '
             'int64 extremes, random big integers/rationals (1-60 digits, up to 400 thorough) each through a second representation c*num/c*den; '
             'all constructors that can represent the value, versions rotating (all versions in thorough). Non-trivial: the model result is '
             'deep (depth reached), finite, has negative/zero exponent, contains a 0 digit, zero or panic; distinct = distinct (version, op, args).',
        modelled=_root_modelled,
        assumptions=['observations are read through At(p) for p < depth, so they also pass through the memoizer'],
    )
PROPS['C03'] = dict(
    theorem='C03_end_exact, C03_ends_iff_exact, C03_last_digit, C03_never_ends (Properties/C03.v)',
    functional=True,
    level_text='Theorems for all radicands and both root kinds: the end is reported after L digits only if those digits are exact and no shorter prefix is '
               '(C03_end_exact); after n digits without end, the end comes next iff the n digits are exact (C03_ends_iff_exact); the last digit of a '
               'finite sequence is non-zero; if no prefix is ever exact the sequence never ends and every position holds 0..9. Differential run over '
               'finite roots at every scale, near misses, perfect powers of non-terminating fractions; extracted checker on every output.',
    level_note='Trusted as C01/C02. "Position L and every later position report no digit, iteration stops, NumDigits = L" is observed through At here; '
               'the agreement of the other read paths with At is C04.',
    rule='cases: squares/cubes of terminating decimals a/10^t (a random, with trailing zeros, 99..9 of lengths around the block size), depth just beyond the '
         'end; near misses s^p+-1; perfect powers over q^p for q in {3,7,9,11,13,21}; depths exactly at, before and after the end. Non-trivial as C01.',
    modelled=_root_modelled,
    assumptions=[],
)
PROPS['C13'] = dict(
    theorem='C13_rat, C13_rat_ends_iff, C13_rat_no_trailing_zero, C13_rat_digit_formula, C13_checker_sound (Properties/C13.v)',
    functional=True,
    level_text='Theorem for every positive rational: NewNumberFromBigRat\'s model (normalisation + long division at base 10) yields exponent e and digits '
               'whose every prefix M satisfies M*10^[e-j]*den <= num*10^[j-e] < (M+1)*10^[e-j]*den (digit p = floor(v*10^(p+1-e)) mod 10), ends exactly when '
               'the expansion terminates, no trailing zero. Differential run + extracted checker.',
    level_note='Part 1 of C13 (rational constructor). NewNumberForTesting / NewFiniteNumber / NewNumber(g) are added with the memoizer model.',
    rule='cases: all n/d with n,d <= 40 (120 thorough), 10^j and neighbours and their reciprocals, random rationals with random, power-of-ten and 2^a5^b '
         'denominators. Non-trivial as C01.',
    modelled=_root_modelled,
    assumptions=[],
)

_hist_rule = ('cases: random histories (4-40 ops) over one Number (finite test numbers of lengths 1,2,5,99,100,101,199,200,201,250,300; '
              'fixed+repeating and purely repeating infinite ones; exponents -3..12) and views derived from it: derive ops WithStart/WithEnd/'
              'FiniteWithStart/WithSignificant with arguments from {MinInt, -1, 0, 1, block multiples +-1, len-1, len, len+1, MaxInt, random}, '
              'At, pull iterators of every kind the version offers (created, pulled 1-101 times interleaved with other ops, abandoned, pulled after '
              'the end), push iterators All/Values/Backward stopped after k items, AsString, v1 NumDigits; versions rotate. Non-trivial: the history '
              'contains pulls, runs, limits, starts or backward traversals; distinct = distinct (version, args).')
PROPS['C04'] = dict(
    theorem='C04_at, C04_scan, C04_pulls, C04_history_independent, C04_v3_iterator, C04_limit_at, C04_first_n, C04_limit_iterator, C04_full_iterator, C04_listing_consecutive, C04_scan_is_model, C04_at_is_model, C04_full_iterator_of_number, C04_full_iterator_of_limited_number, C04_limited_iterator_pulls, C04_pulls_are_model, C04_model_pulls (Properties/C04.v)',
    functional=True,
    level_text='Theorems for every digit string D, every oracle for memoizer.wait satisfying the wait contract (so every block size, timing and '
               'interleaving) and every history: At = D[i]; Scan/ScanValues with early exit = the first k positions of [idx, limit); any sequence of '
               'pulls on a pull iterator, with arbitrary other calls in between, delivers consecutive positions then "end" forever; two iterators '
               'created at the same index agree whatever their histories. The reference semantics (listing of D restricted to the view) is run against '
               'all read paths of all three versions on random interleaved histories.',
    level_note='Proved for every wait oracle: memoizer.At, Scan/ScanValues, v1-v2 IteratorAt, v3 lazy IteratorAt(index, limit), limitSpec.At, FirstN (behind every backward read), '
               'the v1/v2 limitSpec iterator wrapper and the prefetching fullIteratorAt (LayerC.v, LayerC2.v). The composition of these pieces into each exported method per '
               'version (which piece a method calls with which arguments) is tied by the correspondence run.',
    rule=_hist_rule, modelled='memoizer.wait as an oracle constrained by WaitOK', assumptions=[],
)
PROPS['C07'] = dict(
    theorem='C07_interval, C07_order_free, C07_significant_zero, C07_significant_keeps_exponent, C07_view_at, C07_view_scan, C07_view_all_len, C07_view_backward_is_reverse (Properties/C07.v)',
    functional=True,
    level_text='Theorem for every chain (any length, any integer arguments) on every well-formed value of the v3 representation (which contains the v1/v2 '
               'representation as its FN/MWS fragment): the positions of the result are exactly those of the receiver that satisfy all starts and all ends, '
               'hence order-free; WithSignificant keeps the exponent iff a digit can remain. Differential run on random chains over the boundary grid with '
               'every traversal method, re-reading parents and siblings after deriving children.',
    level_note='Interval semantics proved for the representation and methods as coded (withLimit flattening, identity short-cuts, opaque wrappers). That every '
               'traversal lists exactly the interval is C04.',
    rule=_hist_rule, modelled='Go interface equality in the identity short-cuts as structural equality of the representation', assumptions=[],
)
PROPS['C17'] = dict(
    theorem='C17_iff, C17_never, C17_ptr_finite (Properties/C17.v)',
    functional=True,
    level_text='Theorem for all chains: the dynamic type of the result implements FiniteSequence iff the value is bounded by construction; no chain of WithStart '
               'on an unbounded base is ever finite. The tag table (which concrete type implements which interface) is compared with reflect and the three '
               'type assertions on every derived value of random v3 chains.',
    level_note='Go method sets are modelled by a tag table; the table is checked against the real type assertions in every case.',
    rule=_hist_rule + ' (v3 only, derive-heavy profile)', modelled='Go dynamic types / method sets as a tag table', assumptions=[],
)

PROPS['C10'] = dict(
    theorem='C10_printer_is_layout, C10_sprint, C10_swrite, C10_shown_true, C10_label_is_position, C10_layout_is_cells, C10_shown_is_displayed, C10_not_shown_is_missing, C10_nothing_beyond, C10_rows_have_a_shown_digit, C10_before_cell (Properties/C10.v)',
    functional=True,
    level_text='Theorem for all option values (rows/columns incl. <= 0, any missing rune, count margin, leading decimal, trailing LF), all views, digit strings '
               'and AddRange lists: the streaming printer (first-cell / row-break / column-gap branches, skipRowsFor, gap filling) emits exactly the declarative '
               'canonical layout; the shown pairs are exactly the requested positions that exist, ascending (from C11 normal form and C07 intervals). '
               'Differential run of Sprint/Fprint (three versions) and Swrite/Fwrite (v3) against the extracted model over generated layouts, compared as code points.',
    level_note='fmt %Nd and bufio.WriteRune (invalid rune -> U+FFFD) are modelled (dec/pad_left, fix_rune) and exercised on every case; Print/Write to os.Stdout are '
               'Fprint/Fwrite on a file and are not run. The decode-back statement (labels + column arithmetic recover positions) is not yet a separate theorem; it is a '
               'property of the declarative layout.',
    rule='cases: windows of finite (0,1,5,30,99,100,101,250 digits) and infinite test numbers, 0-4 AddRange calls per Positions value (gaps inside a row, of exactly one '
         'row, across rows, mid-row starts, far from 0, negative/empty), rows in {-1,0,1,2,3,7,10,11,20,50}, columns incl. R and R+1, count on/off, missing runes ASCII/2-/3-/'
         '4-byte/invalid, v3 leading decimal x trailing LF, v3 Swrite. Non-trivial: output has several rows, shows digits, has gaps, or is Swrite.',
    modelled='fmt.Fprintf("%Nd"), bufio.Writer.WriteRune, strings.Builder',
    assumptions=['Sprint is also compared with Fprint into a strings.Builder (text and byte count) inside the driver'],
)

PROPS['C12'] = dict(
    theorem='C12_ops_bytes, C12_count_prefix_latch, C12_returns, C12_returns_fault_writers, C12_gap_loop_fixed_returns (Properties/C12.v)',
    functional=True,
    level_text='Theorem for every underlying writer (any function from call history to (n, err)), every buffer size >= 1 and every operation sequence: with bufio.Writer as '
               'modelled, the bytes accepted are a prefix of the fault-free output, the returned count is their number, no call reaches the writer after an error is latched, '
               'no error implies complete delivery, an error implies some call faulted; the operation sequence of the printer has exactly the bytes of the canonical layout. '
               'Differential run: Fprint/Fwrite of all versions against the extracted model under every fault point k, four fault modes and buffer sizes 1..4096, comparing '
               '(n, err, writer calls, accepted bytes) exactly; digit-source calls are checked against the prompt-stop bound.',
    level_note='bufio.Writer (Write, WriteString, WriteByte, WriteRune, Flush) and fmt\'s single Write per Fprintf are modelled from the Go 1.23 sources. Writers answering (0, nil) '
               'to a non-empty direct write make bufio itself loop and are excluded from the fault space (progress-or-error); under that hypothesis termination is a theorem '
               '(C12_returns: fuel 2*len+2 per operation always suffices) and is also checked by a wall-clock budget per case on the implementation.',
    rule='cases: ~70 layouts (900 thorough) from the C10 generator over generator-backed Numbers with counted sources; for each, every fault point k in [0, N+1] (strided above 120 '
         'bytes) x modes {error+partial write, error+no write, short write without error, error then recovery} x buffer sizes {1,2,3,5,16,64,default}. Non-trivial: a fault '
         'occurred, with a partial prefix delivered, or a small buffer; distinct = distinct (version, args).',
    modelled='bufio.Writer, fmt.Fprintf/Fprintln as one Write call, io.Writer contract 0 <= n <= len(p)',
    assumptions=['each implementation call runs under a 3 s wall-clock budget; exceeding it is reported as TIMEOUT'],
)

PROPS['C08'] = dict(
    theorem='C08_shape, C08_value, C08_g_rule, C08_width, C08_bad_verb, C08_string_is_g, C08_sci_form (Properties/C08.v)',
    functional=True,
    level_text='Theorems for every precision/exponent/digit list: the streaming formatter emits exactly the first sigDigits digits (zero padded where the verb demands an exact '
               'count) with the point after `exponent` digits (0.000ddd form for exponents <= 0), and the text parsed back as a decimal is exactly the number truncated toward zero; '
               'the %g exponent rule, width padding (never truncating), String = %g, bad verbs. Differential run of fmt.Sprintf over a directive grid (verbs incl. bad ones, '
               'precision absent/0/around exponent and digit count, widths, flags), String and v3 Exact on zero, finite and infinite Numbers of all three versions.',
    level_note='fmt\'s parsing of the directive and its "%+03d" are modelled (fmt_exp); the model starts at (verb, precision, width, minus flag). Flags + # 0 space are generated and '
               'must be ignored. |exponent| is kept materialisable (<= 1000) as the property\'s quantifier does.',
    rule='cases: Numbers zero / finite (1..20 digits, with inner zero runs) / repeating infinite (incl. 999...), optional WithSignificant, exponents around -3/6/16 and +-1000, verbs '
         'f F e E g G v and bad verbs (d s x q z U, non-ASCII), precision absent or from {0,1,2,3,6,15,16,17,40, e-1,e,e+1, L-1,L,L+1,L-e,L-e+1}, width absent or {0..30}, flags. '
         'Non-trivial: scientific vs fixed output, width or precision present; distinct = distinct (version, op, args).',
    modelled='fmt.State (Precision, Width, Flag), fmt "%+03d", strings.Builder, bufio in the formatter (never fails into a Builder)',
    assumptions=[],
)

PROPS['C09'] = dict(
    theorem='C09_table, C09_kmp_all, C09_occurrence_meaning, C09_find, C09_backward_is_reverse, C09_bad_digit (Properties/C09.v)',
    functional=True,
    level_text='Complete KMP proof for every pattern and text: the failure table is the longest-proper-border function, the automaton state after any prefix is the longest '
               'pattern prefix that is a suffix of it, Visit reports exactly the positions where the pattern ends (overlaps included), no index leaves its slice and the '
               'fall-back loops terminate; every search entry point (FindFirst/FirstN/All/Last/LastN, Find/FindR pulls, Matches/BackwardMatches with early exit) equals the '
               'corresponding selection of the declarative occurrence list. Differential run over small-alphabet texts (borders, periods, overlaps), all windows and n, both '
               'directions, all three versions; the naive specification is also evaluated directly on every implementation answer.',
    level_note='Backward = reverse of forward is a theorem (occ_bwd = rev occ_fwd, FindBackward.v). consume2 / itertools.Take / slices.Collect are modelled by firstn. Re-running a v3 iterator is compared inside the driver (a mismatch is observed as -777).',
    rule='cases: texts of length 0..230 and repeating infinite ones over 2-3 symbol alphabets (shifted into the digit range), patterns from border/period shapes, slices of the text, '
         'with out-of-range values, as long as or longer than the text, empty; windows [ws, we) at block boundaries; n in {-1,0,1,2,3,5,50}; 11 entry points. Non-trivial: more than '
         'one match, empty pattern, backward, re-run.',
    modelled='consume2.FromIntGenerator/PSlice/AppendTo, itertools.Take, slices.Collect/Clone',
    assumptions=['searches on infinite sequences are only generated when the requested matches exist within the first 300 digits'],
)

PROPS['C06'] = dict(
    theorem='C06_readahead, C06_block_size_ok, C06_in_order, C06_only_producer, C06_never_after_end, C06_demand_scan, C06_demand_pull, C06_demand_view_scan, C06_bound (Properties/C06.v)',
    functional=False,
    level_text='Theorems over the memoizer\'s transition system (one producer, any number of readers, every interleaving, any block size B > 0): in every reachable state the '
               'source has been consulted for at most imax + B positions (imax = largest index any wait call carried) and for none before the first wait call; along every trace '
               'the source is consulted by the producer only, one atomic call at a time, at consecutive positions, never after the end marker. B is read from the sources on '
               'every run and B <= 1000 is re-proved. The property\'s statement is evaluated on the implementation with counting, end-detecting, re-entrancy-detecting digit '
               'sources over random sequential histories and long scans (and over concurrent schedules in the C05 explorer).',
    level_note='The tie between the transition system and numberspec.go is the trace validation of C05 (instrumented sync primitives). Which wait indices each API operation issues '
               '("highest position asked about + at most 2") is evaluated per case by the driver from the spec-level model, not proved per read path. v1/v2 have no public '
               'constructor for a digit source: the verif hook VerifNewNumber is used.',
    rule='cases: random histories (C04 generator, generator-backed Numbers) with the source counters read after the producer has quiesced, after about a third of the operations; '
         'long forward scans and far jumps (1700-10400) on infinite sources. Checked per counter reading: nothing consulted before the first read (0, or 1 for the v3 first-digit '
         'probe); never more than |D|+1 calls; no call after the end marker; no overlapping calls; calls <= highest position asked about + 2 + 1000. Non-trivial: histories that read.',
    modelled='sync.Mutex / sync.Cond / go as the labelled transition system of Conc.v',
    assumptions=['counters are read after the producer goroutine has been idle for ~0.5 ms'],
)

PROPS['C15'] = dict(
    theorem='C15_first_n_stable, C15_find_first_stable, C15_finite_terminates, C15_consulted, C15_stops_at_nth_match, C15_search_stops_at_answer (Properties/C15.v)',
    functional=True,
    level_text='Theorems: the first n matches of a text are those of any prefix that already contains them (extending the text cannot change them), so a search that returns at the '
               'n-th match needs no digit beyond its end; every search on a finite text returns; digits consulted <= largest waited index + B in every schedule. The statement is '
               'evaluated on the implementation with counted infinite sources (pattern planted at block boundaries and far out in a match-free stream): answers against the '
               'specification, source calls <= max(start, end of last reported match) + 1 + 1000 (+1 prefetch), v3 n <= 0 consults nothing, every call within a time budget.',
    level_note='That each entry point stops pulling after the n-th match (consume2.FromIntGenerator/PSlice, itertools.Take, range-over-func break) is checked on the implementation by the '
               'counters and the time budget, not proved from a model of those libraries.',
    rule='cases: generator-backed infinite Numbers whose digits 1-5 never match, with a 1-5 digit pattern of 7-9s planted 1-3 times at {0,1,50,98..102,199..201,650,1200,2300,5150}+; '
         'FindFirst, FindFirstN, Find pulls, Matches with early exit and re-run, n in {-1..3} capped by the visible plants, optional WithStart before/inside/after a plant; plus the C09 '
         'generator on generator-backed finite windows. Non-trivial as C09.',
    modelled='consume2, itertools.Take, range-over-func',
    assumptions=['each implementation call runs under a 4 s wall-clock budget; exceeding it is reported as a failure to return',
                 'termination while other goroutines read the same Number: the schedule explorer of C05 on endless sources (the waits a search issues are At-style waits)'],
)

import c05stage

def _race_stage(prop, tier, seed, workdir, env, root, build, repo, **kw):
    """the uninstrumented code under Go's race detector, driven by the concurrent histories (supporting evidence)"""
    import subprocess, os
    env2 = dict(env, CGO_ENABLED='1')
    exe = os.path.join(workdir, 'sqdrive-race')
    p = subprocess.run(['go', 'build', '-race', '-tags', 'verif', '-o', exe, './cmd/sqdrive'], cwd=os.path.join(root, 'harness'), env=env2,
                       stdout=subprocess.PIPE, stderr=subprocess.STDOUT, text=True)
    if p.returncode != 0:
        return {'notes': ['race detector build not available: ' + p.stdout[-200:]]}
    out = []
    viol = []
    for pr in ('C05', 'C02'):
        q = subprocess.run([exe, 'gen', '-prop', pr, '-tier', 'quick', '-seed', str(seed + 7)], stdout=subprocess.PIPE, stderr=subprocess.PIPE, text=True, env=env2)
        if 'DATA RACE' in q.stderr:
            path = c05stage.write_replay(root, prop, 'race', {'property': prop, 'kind': 'failing-input', 'what': 'data race reported by the Go race detector',
                                          'generator': 'sqdrive gen -prop %s -seed %d (built with -race)' % (pr, seed + 7), 'report': q.stderr[:3000]})
            viol.append((path, True, 'data race reported by the Go race detector'))
            break
        out.append(len(q.stdout.split('\n')))
    return {'violations': viol, 'coverage': {'race_detector_cases': sum(out)}, 'notes': ['-race stress: %d cases, %d reports' % (sum(out), len(viol))]}

def _sig_stage(prop, tier, seed, workdir, env, root, build, repo, **kw):
    """C17, last clause: the v3 functions that traverse to the end take a FiniteSequence (read from the sources with
    go/parser): an unbounded sequence cannot be handed to them because it does not have that type"""
    import subprocess, os
    exe = os.path.join(workdir, 'exports')
    p = subprocess.run(['go', 'build', '-o', exe, './cmd/exports'], cwd=os.path.join(root, 'harness'), env=env, stdout=subprocess.PIPE, stderr=subprocess.STDOUT, text=True)
    if p.returncode != 0:
        return {'notes': ['exports tool does not build: ' + p.stdout[-300:]]}
    sigs = {}
    for line in subprocess.run([exe, '-repo', repo, '-sigs'], stdout=subprocess.PIPE, text=True).stdout.split('\n'):
        if line.startswith('v3 '):
            name, _, rest = line[3:].partition('(')
            sigs[name] = rest.rstrip(')')
    to_the_end = ['AsString', 'DigitsToString', 'FindAll', 'FindLast', 'FindLastN', 'FindR', 'BackwardMatches', 'Fwrite', 'Swrite', 'Write']
    viol = []
    for f in to_the_end:
        params = sigs.get(f)
        if params is None:
            continue      # a removed function is C16's / the build's business
        ps = [x.strip() for x in params.split(',')]
        if 'FiniteSequence' not in ps or any(x in ('Sequence', 'Number') for x in ps):
            path = c05stage.write_replay(root, prop, 'signature', {'property': prop, 'kind': 'failing-input', 'function': 'v3.' + f, 'parameters': params,
                                          'explanation': 'a function that must traverse its sequence to the end accepts a sequence type that unbounded sequences have'})
            viol.append((path, True, 'v3.%s(%s) accepts unbounded sequences' % (f, params)))
    return {'violations': viol, 'coverage': {'signatures_checked': len([f for f in to_the_end if f in sigs])}, 'notes': []}

PROPS['C17']['stages'] = [_sig_stage]

PROPS['C05'] = dict(
    theorem='C05_invariant, C05_return_contract, C05_deadlock_free, C05_can_complete, C05_internal_runs_bounded, C05_maximal_schedules_return_every_call, C05_reach_support, C05_wait_contract, C05_digit_string_closed, C05_acceptor_sound, C05_sequential_answers (Properties/C05.v)',
    functional=True,
    level_text='Theorems over the memoizer as a transition system with one producer and any number of readers issuing any wait calls, for every interleaving: lock discipline '
               '(every access to data/maxLength/done by the lock holder), parked threads\' wake-up conditions are false (no lost wake-up), every return satisfies the wait contract '
               '(hence sequential answers by Layer C), deadlock freedom, every pending call can still complete (lexicographic progress measure), and between calls every schedule is finite (explicit bound G) and a maximal one has returned every pending wait - no fairness assumed. Tied to numberspec.go of all '
               'three versions by exhaustive and random schedule exploration of the real code under a deterministic scheduler (deadlock / wrong answer / panic detection) with '
               'sampled event traces validated by the extracted, proved-sound acceptor; plus concurrent read histories on the uninstrumented code (answers = sequential) and a '
               'race-detector run.',
    level_note='Partial by nature: the Go memory model and sync.Mutex granting the lock to a given waiter eventually (needed only when new calls keep arriving for ever) are not modelled; "no data race" is the model-level lock discipline plus the race detector run. '
               'Trace validation: every memoizer.wait call of the explored programs (At, forward traversal with early exit, backward traversal of a bounded view) is a call / return event pair with the observed length; formatting and searching under concurrency are covered by answer comparison and the race detector only.',
    rule='cases: (a) concurrent histories: 2-4 goroutines with random read histories (C04 generator) on one shared Number, every goroutine must obtain its sequential answers; '
         '(b) schedule exploration: all schedules (DFS, up to a budget) of 2-reader programs (At, forward traversal stopped early, backward traversal of a bounded view) over sources of 0/1/99/100/101/150 digits and an endless one, DFS + random walks '
         'for 3-reader and multi-call programs; a sample of event traces per configuration validated against Conc.step. Non-trivial: every concurrent case.',
    modelled='sync.Mutex, sync.Cond (no spurious wake-ups), go statement; scheduler fairness and the memory model are not modelled',
    assumptions=['the instrumentation rewrites sync.Mutex, *sync.Cond, sync.NewCond, go result.run(), m.iter() and every m.wait( call in a temporary copy of numberspec.go and refuses any other synchronisation construct or unwrapped wait call'],
    stages=[c05stage.stage, _race_stage],
)
PROPS['C06']['stages'] = [c05stage.stage]
PROPS['C15']['stages'] = [c05stage.stage]

def _exports_stage(prop, tier, seed, workdir, env, root, build, repo, **kw):
    """every exported function / method of the three packages (go/parser) must have a driver case"""
    import subprocess, os
    exe = os.path.join(workdir, 'exports')
    p = subprocess.run(['go', 'build', '-o', exe, './cmd/exports'], cwd=os.path.join(root, 'harness'), env=env, stdout=subprocess.PIPE, stderr=subprocess.STDOUT, text=True)
    if p.returncode != 0:
        return {'notes': ['exports tool does not build: ' + p.stdout[-300:]]}
    ex = set(subprocess.run([exe, '-repo', repo], stdout=subprocess.PIPE, text=True).stdout.split('\n')) - {''}
    have = set(subprocess.run([os.path.join(build, 'sqdrive'), 'apinames'], stdout=subprocess.PIPE, text=True).stdout.split('\n')) - {''}
    # option constructors and Positions accessors are exercised inside other cases
    missing = sorted(e for e in ex if e not in have)
    viol = []
    if missing:
        path = c05stage.write_replay(root, prop, 'obligation', {'property': prop, 'kind': 'broken-obligation',
                'correspondence_problem': 'exported API without a driver case: ' + ', '.join(missing),
                'explanation': 'the panic table no longer covers the exported API of the packages'})
        viol.append((path, False, 'exported API without a driver case: ' + ', '.join(missing)[:200]))
    return {'violations': viol, 'coverage': {'exported_api_entries': len(ex), 'exported_api_covered': len(ex) - len(missing)}}

PROPS['C16'] = dict(
    theorem='C16_ctor_int, C16_ctor_rat, C16_producer_total, C16_with_significant, C16_search_total, C16_views_total (Properties/C16.v)',
    functional=True,
    level_text='Theorems: the constructor models panic exactly for a negative numerator or non-positive denominator and decide it before the digit stream exists; on valid arguments the '
               'digit computation (all the producer goroutine does) is total; WithSignificant panics iff its limit is negative; the search automaton and the view operations are total '
               '(no index leaves its slice). The table of documented preconditions (ApiSpec.api_panics) is compared with the real behaviour of every exported function and method of the '
               'three versions on the boundary grid {MinInt, -1, 0, 1, block multiples, MaxInt,...}, nil/empty/invalid slices and zero-value receivers, results consumed completely; '
               'a panic in a background goroutine terminates the driver and is reported; the list of exports is read from the sources with go/parser and must be covered.',
    level_note='Partial: exhaustive over the panic sites the models represent (explicit panics, slice indexing in KMP, division in the printer is guarded by digitsPerRow > 0 in the model). '
               'Out of memory, stack exhaustion and panics inside math/big, fmt or bufio are outside. Nil interface/pointer arguments are outside the property\'s reading.',
    rule='cases: every exported function/method (44 + 40 + 58) x 30 argument triples (400 thorough) from the grid {MinInt, MinInt+1, -1000, -2, -1, 0, 1, 2, 3, 5, 99, 100, 101, 1000, MaxInt-1, MaxInt} '
         '(every grid value as first argument), receivers zero / finite / endless / view, slices from {nil, [], [1], ..., invalid digits}. Arguments that would materialise astronomically many '
         'digits are clipped on endless receivers. Non-trivial: all (each names an API entry).',
    modelled='math/big, fmt, bufio internals; os.Stdout replaced by the null device for Print/Write',
    assumptions=[],
    stages=[_exports_stage],
)

PROPS['C18'] = dict(
    theorem='C18_print, C18_histories_v1_v2 (Properties/C18.v); agreement of digits, formats, searches, Positions by construction (one model function for all versions)',
    functional=True,
    level_text='The development uses ONE model function per feature for all three versions (ctor, build, format, find_model, sprint), and each version\'s code is tied to it by that '
               'feature\'s own correspondence run (C01-C13), so a slip in one copy shows up there as that version\'s disagreement; where the versions\' code differs (v3 row starters vs '
               'v1/v2 literals, v1-only read paths) the equalities are theorems. On top of that the three implementations are run against each other directly on identical inputs - '
               'the union of the other generators restricted to the common API, and roots/rationals to depths (3000 quick, 30000 thorough) the model-side oracle does not reach.',
    level_note='A three-way disagreement is by itself a failing input for this property. Which version is wrong is decided by the per-feature checks (C01, C02, C08, C09, C10, C11, C13).',
    rule='cases: every distinct (op, args) of the quick generators of C01, C02, C13 (rationals), C08 (Fmt, Str), C09 (common entry points), C10 (Sprint with the common options), C11, run on '
         'v1, v2, v3 in one process and compared token by token; plus 10 (40 thorough) random radicands/rationals at depth 3000/1000 (30000/10000 thorough). Non-trivial: all; distinct = distinct inputs.',
    modelled='-', assumptions=[],
)

PROPS['C14'] = dict(
    theorem='C14_args_untouched, C14_no_retention (Properties/C14.v)',
    functional=True,
    level_text='Theorems on a model with an explicit heap at the API boundary: library operations receive locations, read them during the call and keep values (the defensive copies of the '
               'code); no library operation writes to the heap, and for every heap, every caller mutation (any location, any value) and every later sequence of reads and searches the '
               'answers equal those of the history without the mutation. Tied to the code by mutation histories on all *big.Int / *big.Rat constructors of the three versions (arguments '
               'overwritten in place right after construction, after 1 digit, between blocks; argument bit-identity after deep computation), pattern slices overwritten after creating '
               'and between pulls of every search iterator, NewNumberForTesting slices, and builder reuse after Build; digits are judged by the extracted checker of C01/C02/C13.',
    level_note='Partial: the heap is explicit only at the API boundary; that the arithmetic behind the copies touches private data only is by construction of the functional model, tied to the code '
               'by these runs and by the race detector run of C05 for the package-level constants.',
    rule='cases: 150 (2500 thorough) x 3 versions constructor cases over {SqrtBigInt, CubeRootBigInt, SqrtBigRat, CubeRootBigRat, NewNumberFromBigRat} with values above and below 1, '
         'mutation moment in {immediately, after 1 digit, after 150 digits, never}, replacement values {0, 1, 7, big}; 150 pattern cases x entry points; 75 test-number slice cases; a '
         'sample of C11 builder histories. Non-trivial: all.',
    modelled='big.Int / big.Rat / slices as heap cells', assumptions=[],
)
