"""Schedule exploration and trace validation of the concurrent memoizer (C05, C06).

A temporary copy of the three packages (outside /repo and /verif) gets numberspec.go rewritten so that
sync.Mutex, *sync.Cond, sync.NewCond, the go statement and the digit-source call go through the deterministic
scheduler harness/vsync; any other use of sync, go statements, channels, select or atomics anywhere in the
packages makes the instrumentation fail loudly (new synchronisation must not slip past the model). The explorer
(harness/explore) is built against the copy, run over small reader programs (At calls, forward traversals with early exit, backward traversals of
bounded views; exhaustive DFS and random walks), and a sample of the recorded event traces is validated against the Coq transition system by the extracted
acceptor (ocaml/conc.ml). The copy and its build output are removed at the end.
"""
import os, re, shutil, subprocess, tempfile, glob, json, hashlib, time


def instrument(repo, tmp):
    problems = []
    for d in ('', 'v2', 'v3'):
        src = os.path.join(repo, d)
        dst = os.path.join(tmp, 'repo', d)
        os.makedirs(dst, exist_ok=True)
        for f in glob.glob(os.path.join(src, '*.go')) + [os.path.join(src, 'go.mod'), os.path.join(src, 'go.sum')]:
            if f.endswith('_test.go') or not os.path.exists(f):
                continue
            text = open(f).read()
            name = os.path.basename(f)
            if name.endswith('.go'):
                code = re.sub(r'//[^\n]*', '', text)
                code = re.sub(r'/\*.*?\*/', '', code, flags=re.S)
                if name == 'numberspec.go':
                    rewritten = text
                    counts = {}
                    for pat, rep in ((r'\bsync\.Mutex\b', 'vsyncx.Mutex'), (r'\*sync\.Cond\b', '*vsyncx.Cond'),
                                     (r'\bsync\.NewCond\(', 'vsyncx.NewCond('),
                                     (r'\bgo result\.run\(\)', 'vsyncx.Go(result.run)'),
                                     (r'\bm\.iter\(\)', 'vsyncx.Iter(m.iter)'),
                                     (r'\bm\.wait\(', 'vsyncx.WaitCall(m.wait, '),
                                     (r'^\t"sync"$', '\t"vsyncx"')):
                        rewritten, n = re.subn(pat, rep, rewritten, flags=re.M)
                        counts[pat] = n
                    left = re.sub(r'//[^\n]*', '', rewritten)
                    if re.search(r'\bsync\.', left):
                        problems.append('%s: a use of package sync that the model does not know: %s' % (f, re.search(r'\bsync\.\w+', left).group(0)))
                    if re.search(r'\.wait\(', left):
                        problems.append('%s: a call of wait that the instrumentation does not wrap' % f)
                    if re.search(r'^\s*go\s', left, flags=re.M) or re.search(r'\bgo func\b', left):
                        problems.append('%s: a go statement that the model does not know' % f)
                    for pat, n in counts.items():
                        if n == 0:
                            problems.append('%s: expected construct not found: %s' % (f, pat))
                    text = rewritten
                else:
                    if re.search(r'"sync(/atomic)?"', code) or re.search(r'\bsync\.\w+', code):
                        problems.append('%s: uses package sync outside numberspec.go' % f)
                    if re.search(r'^\s*go\s+\w', code, flags=re.M) or re.search(r'\bgo func\b', code):
                        problems.append('%s: a go statement outside numberspec.go' % f)
                if name != 'verif_hooks.go' and name != 'verif_hooks_print.go':
                    if re.search(r'\bchan\b', code) or re.search(r'\bselect\s*{', code) or re.search(r'\batomic\.', code):
                        problems.append('%s: channels / select / atomics are not modelled' % f)
            with open(os.path.join(dst, name), 'w') as g:
                g.write(text)
    return problems


def build_explorer(root, repo, tmp, env):
    problems = instrument(repo, tmp)
    if problems:
        return None, 'instrumentation refused: ' + '; '.join(problems[:5])
    shutil.copytree(os.path.join(root, 'harness', 'vsync'), os.path.join(tmp, 'vsync'))
    ex = os.path.join(tmp, 'explore')
    shutil.copytree(os.path.join(root, 'harness', 'explore'), ex)
    gm = open(os.path.join(ex, 'go.mod')).read().replace('@TMP@', tmp)
    open(os.path.join(ex, 'go.mod'), 'w').write(gm)
    sums = set()
    for d in ('', 'v2', 'v3'):
        p = os.path.join(repo, d, 'go.sum')
        if os.path.exists(p):
            sums.update(open(p).read().split('\n'))
    open(os.path.join(ex, 'go.sum'), 'w').write('\n'.join(sorted(s for s in sums if s)) + '\n')
    p = subprocess.run(['go', 'build', '-tags', 'verif', '-o', os.path.join(ex, 'explore'), '.'], cwd=ex, env=env,
                       stdout=subprocess.PIPE, stderr=subprocess.STDOUT, text=True)
    if p.returncode != 0:
        return None, 'explorer does not build against the instrumented copy: ' + p.stdout[-1500:]
    return os.path.join(ex, 'explore'), ''


def configs(tier, seed):
    """(ver, srclen, program, mode, limit, traces)"""
    out = []
    vers = ['v1', 'v2', 'v3']
    srcs = [0, 1, 99, 100, 101, 150, -1]
    two = ['50;150', '0;100', '99;100', '150;50', '100;0', '250;10', '5;5',
           's0x3;150', 'b120;50', 's95x10;b101', '250;s99x2', 'b100;b200']
    i = 0
    for prog in two:
        for src in srcs:
            ver = vers[i % 3] if tier == 'quick' else None
            i += 1
            for v in ([ver] if ver else vers):
                out.append((v, src, prog, 'dfs', 40000 if tier == 'quick' else 400000, 12))
    three = ['0;100;250', '150;50;99', '10;110;110', '200;0;100', 's0x5;b150;100', 's98x4;s0x101;b99']
    for prog in three:
        for src in ([101, -1] if tier == 'quick' else [0, 100, 101, 250, -1]):
            v = vers[i % 3]
            i += 1
            out.append((v, src, prog, 'dfs', 15000 if tier == 'quick' else 300000, 8))
            out.append((v, src, prog, 'random', 6000 if tier == 'quick' else 100000, 8))
    multi = ['150,20;99,100', '0,100,200;250', '50,150;150,50;100', '99;100;101;102', '300,0;0,300;150;150',
             's98x4,0;b101,150', 's0x120,250;b100;b200,s150x60']
    for prog in multi:
        for src in ([150, -1] if tier == 'quick' else [100, 150, 301, -1]):
            v = vers[i % 3]
            i += 1
            out.append((v, src, prog, 'random', 8000 if tier == 'quick' else 150000, 8))
            if tier != 'quick':
                out.append((v, src, prog, 'dfs', 300000, 8))
    return out


def stage(prop, tier, seed, workdir, env, root, build, repo, **kw):
    t0 = time.time()
    res = {'coverage': {}, 'violations': [], 'known': [], 'notes': []}
    tmp = tempfile.mkdtemp(prefix='sqexplore-')
    try:
        exe, err = build_explorer(root, repo, tmp, env)
        if exe is None:
            path = write_replay(root, prop, 'obligation', {'property': prop, 'kind': 'broken-obligation',
                                'correspondence_problem': err,
                                'explanation': 'the concurrent part of the code can no longer be put under the scheduler the model describes'})
            res['violations'].append((path, False, err[:300]))
            return res
        cfgs = configs(tier, seed)
        if prop == 'C15':
            # C15 is about endless Numbers: the waits a search issues must return whatever other readers ask for meanwhile
            cfgs = [c for c in cfgs if c[1] == -1]
        procs, outs = [], []
        maxpar = 14
        pending = list(enumerate(cfgs))
        running = []
        results = {}
        started = {}
        while pending or running:
            while pending and len(running) < maxpar:
                k, (v, src, prog, mode, limit, traces) = pending.pop(0)
                p = subprocess.Popen([exe, '-ver', v, '-src', str(src), '-prog', prog, '-mode', mode, '-limit', str(limit),
                                      '-traces', str(traces), '-seed', str(seed + k)], stdout=subprocess.PIPE, stderr=subprocess.STDOUT, text=True, env=env)
                running.append((k, p))
                started[k] = time.time()
            for k, p in list(running):
                try:
                    out, _ = p.communicate(timeout=0.05)
                except subprocess.TimeoutExpired:
                    if time.time() - started[k] > (240 if tier == 'quick' else 1500):
                        p.kill()
                        out, _ = p.communicate()
                        running.remove((k, p))
                        results[k] = (-9, 'KILLED after the time budget (no result)\n' + (out or '')[-300:])
                    continue
                running.remove((k, p))
                results[k] = (p.returncode, out)
        schedules, bad, traces, exhaustive = 0, 0, [], 0
        longest = 0
        first_bad = []
        for k in sorted(results):
            rc, out = results[k]
            v, src, prog, mode, limit, ntr = cfgs[k]
            if rc != 0:
                first_bad.append(('CRASH', '%s %s %s' % (v, src, prog), out[-600:]))
                bad += 1
                continue
            for line in out.split('\n'):
                if line.startswith('TRACE '):
                    traces.append((v, src, line))
                elif line.startswith('SUMMARY '):
                    m = re.search(r'runs=(\d+) bad=(\d+) longest=(\d+) exhaustive=(\w+)', line)
                    schedules += int(m.group(1)); bad += int(m.group(2)); longest = max(longest, int(m.group(3)))
                    exhaustive += (m.group(4) == 'true')
                elif line.split(' ')[0] in ('DEADLOCK', 'WRONG', 'PANIC', 'UNLOCK', 'WAIT', 'LIVELOCK'):
                    first_bad.append((line.split(' ')[0], '%s %s %s' % (v, src, prog), line[:2000]))
        # trace validation by the extracted acceptor
        cases = os.path.join(workdir, 'traces.txt')
        with open(cases, 'w') as f:
            for i, (v, src, line) in enumerate(traces):
                if v == 'v3' and src == 0:
                    continue   # NewNumber of an empty stream is the zero number: no memoizer, no producer goroutine
                ev = line.split(' : ', 1)[1]
                f.write('C05 %d %s Trace %d 100 : %s =>\n' % (i + 1, v, src, ev))
        p = subprocess.run([os.path.join(build, 'sqmodel')], stdin=open(cases), stdout=subprocess.PIPE, stderr=subprocess.PIPE, text=True)
        rejected = []
        for line in p.stdout.split('\n'):
            parts = line.split('\t')
            if parts and parts[0] in ('SPECFAIL', 'DIFF'):
                rejected.append((parts[1][:3000], parts[4] if len(parts) > 4 else ''))
        for kind, cfg, line in first_bad[:3]:
            path = write_replay(root, prop, 'schedule', {'property': prop, 'kind': 'failing-input', 'what': kind, 'program': cfg, 'detail': line,
                                'explanation': 'a schedule of the real memoizer under the deterministic scheduler ends in %s; replay with harness/explore -replay <schedule>' % kind})
            res['violations'].append((path, True, '%s for readers %s' % (kind, cfg)))
        if not first_bad:
            for case, msg in rejected[:3]:
                path = write_replay(root, prop, 'trace', {'property': prop, 'kind': 'correspondence', 'case': case, 'rejected_at': msg,
                                    'theorem': 'Conc.step (exec_step_sound)',
                                    'explanation': 'an event trace of the real memoizer is not a trace of the transition system the theorems are about; no deadlock, wrong answer or panic was found'})
                res['violations'].append((path, False, 'trace rejected by the model: ' + msg))
        res['coverage'] = {
            'states': max(1, schedules), 'transitions': max(1, schedules * max(1, longest) // 2),
            'traces_validated_against_impl': len(traces) - len(rejected),
            'schedules_explored': schedules, 'programs_x_sources': len(cfgs), 'exhaustively_enumerated_configs': exhaustive,
            'longest_schedule_events': longest, 'schedules_with_deadlock_wrong_answer_or_panic': bad,
            'traces_rejected_by_model': len(rejected),
            'trace_samples': [t[2][:300] for t in traces[:3]],
            'explore_wall_s': round(time.time() - t0, 1),
        }
    finally:
        shutil.rmtree(tmp, ignore_errors=True)
    return res


def write_replay(root, prop, kind, payload):
    os.makedirs(os.path.join(root, 'replays'), exist_ok=True)
    body = json.dumps(payload, indent=1, sort_keys=True)
    h = hashlib.sha256(body.encode()).hexdigest()[:12]
    path = os.path.join(root, 'replays', '%s-%s-%s.json' % (prop, kind, h))
    open(path, 'w').write(body + '\n')
    return path
