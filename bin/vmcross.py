"""Thorough-tier cross-check of extraction: a sample of the cases is evaluated INSIDE Coq (vm_compute in coqc)
with the same model functions, and the results are compared with what the extracted OCaml driver computed."""
import os, re, subprocess, tempfile, shutil


def zlist(xs):
    return '[' + '; '.join('(%s)' % x for x in xs) + ']'


def coq_term(prop, ver, op, args):
    """returns (coq expression evaluating to a list Z / result, a function mapping Coq's printed value to model tokens)"""
    a = list(args)
    if op in ('Sqrt', 'SqrtRat', 'SqrtBigInt', 'SqrtBigRat', 'CubeRoot', 'CubeRootRat', 'CubeRootBigInt', 'CubeRootBigRat', 'FromBigRat'):
        k = 'KSqrt' if op.startswith('Sqrt') else ('KCube' if op.startswith('Cube') else 'KRat')
        num, den, depth = a[0], a[1], int(a[2])
        if depth > 60:
            return None
        return ('match ctor %s (%s) (%s) %d with RNum e ds en => (1 :: e :: Z.of_nat (length ds) :: ds) ++ [if en then 1 else 0] | RZero => [2] | RPanic => [3] | RFuel => [4] end' % (k, num, den, depth), 'root')
    if prop == 'C11' and op == 'Hist':
        n = int(a[0]); i = 1; ops = []
        for _ in range(n):
            if a[i] == 'A': ops.append('HAdd (%s)' % a[i + 1]); i += 2
            elif a[i] == 'R': ops.append('HAddRange (%s) (%s)' % (a[i + 1], a[i + 2])); i += 3
            else: ops.append('HBuild'); i += 1
        return ('flat_map (fun ps => Z.of_nat (length ps) :: flat_map (fun r => [fst r; snd r]) ps ++ [end_of ps]) (run_hist [%s] empty_builder)' % '; '.join(ops), 'c11')
    if op == 'Hist' and prop in ('C04', 'C07', 'C17', 'C13', 'C06', 'C14'):
        t = hist_term(ver, a)
        return (t, 'flat') if t else None
    if op == 'Find' and prop in ('C09', 'C15', 'C05'):
        t = find_term(ver, a)
        return (t, 'find') if t else None
    return None


def _take_list(a, i):
    n = int(a[i]); return a[i + 1:i + 1 + n], i + 1 + n


def hist_term(ver, a):
    """run_history ver kind raw rep e ops, as a Coq term (None: not handled in the cross-check)"""
    kinds = {'T': 0, 'G': 1, 'Q': 2, 'S': 3, 'C': 4}
    if a[0] not in kinds: return None
    raw, i = _take_list(a, 1)
    rep, i = _take_list(a, i)
    if len(raw) > 120: return None
    e = a[i]; n = int(a[i + 1]); i += 2
    ops = []
    ik = {'F': 0, 'P': 0, 'B': 1, 'I1': 2, 'R1': 3, 'IA1': 4}
    rk = {'A': 0, 'V': 1, 'K': 2}
    for _ in range(n):
        o = a[i]
        if o in ('WS', 'WE', 'FWS', 'WSG', 'AT'):
            ops.append('H%s %s (%s)' % (o, a[i + 1], a[i + 2])); i += 3
        elif o == 'NEW':
            k = a[i + 2]
            if k == 'IA1': ops.append('HNEW %s 4 (%s)' % (a[i + 1], a[i + 3])); i += 4
            else: ops.append('HNEW %s %d 0' % (a[i + 1], ik[k])); i += 3
        elif o == 'NX': ops.append('HNX %s' % a[i + 1]); i += 2
        elif o == 'RUN': ops.append('HRUN %s %d (%s)' % (a[i + 1], rk[a[i + 2]], a[i + 3])); i += 4
        elif o == 'RR': ops.append('HRR %s %d (%s) (%s)' % (a[i + 1], rk[a[i + 2]], a[i + 3], a[i + 4])); i += 5
        elif o == 'STR': ops.append('HSTR %s' % a[i + 1]); i += 2
        elif o == 'ND': ops.append('HND %s' % a[i + 1]); i += 2
        else: return None            # CNT: counting sources are not part of the extracted model's answer
    v = {'v1': 1, 'v2': 2}.get(ver, 3)
    return 'run_history %d %d %s %s (%s) [%s]' % (v, kinds[a[0]], zlist(raw), zlist(rep), e, '; '.join(ops))


def find_term(ver, a):
    kinds = {'T': 0, 'G': 1}
    if a[0] not in kinds: return None
    raw, i = _take_list(a, 1)
    rep, i = _take_list(a, i)
    if len(raw) > 150: return None
    e, ws, we = a[i], int(a[i + 1]), int(a[i + 2])
    pat, i = _take_list(a, i + 3)
    fn, n = int(a[i]), a[i + 1]
    if fn >= 11: fn, n = (7 if fn == 11 else 8), '-1'
    elif fn == 9: fn = 7
    elif fn == 10: fn = 8
    v = {'v1': 1, 'v2': 2}.get(ver, 3)
    view = 'fst (hist_base %d %d %s %s (%s))' % (v, kinds[a[0]], zlist(raw), zlist(rep), e)
    dsrc = 'snd (hist_base %d %d %s %s (%s))' % (v, kinds[a[0]], zlist(raw), zlist(rep), e)
    if ws >= 0: view = 'with_start (%s) %d' % (view, ws)
    if we >= 0: view = 'with_end (%s) %d' % (view, we)
    cap = max(330, len(raw) + 12)
    return ('let tw := text_of (%s) (%s) %d in match find_model %d (%s) %s (fst tw) (snd tw) with Some l => Z.of_nat (length l) :: l | None => [-99] end'
            % (dsrc, view, cap, fn, n, zlist(pat)))


def root_tokens(vals):
    if vals[0] == 2: return ['Z', '0', '-1']
    if vals[0] == 3: return ['PANIC']
    if vals[0] == 4: return ['MODEL-OUT-OF-FUEL']
    e, k = vals[1], vals[2]
    return ['N', str(e), str(k)] + [str(x) for x in vals[3:3 + k]] + [str(vals[3 + k])]


def cross_check(root, rows, limit=120):
    """rows: (status, line, model, tags, msg). Returns (n_checked, mismatches[list of text])"""
    th = os.path.join(root, 'coq', 'theories')
    picks = []
    step = max(1, len(rows) // (limit * 3))
    for r in rows[::step]:
        f = r[1].split(' ')
        if '=>' not in f: continue
        k = f.index('=>')
        t = coq_term(f[0], f[2], f[3], f[4:k])
        if t: picks.append((r, t))
        if len(picks) >= limit: break
    if not picks:
        return 0, []
    tmp = tempfile.mkdtemp(prefix='vmx-', dir=os.path.join(root, 'build'))
    try:
        v = os.path.join(tmp, 'cases.v')
        with open(v, 'w') as f:
            f.write('From Coq Require Import ZArith List.\nRequire Import Pos PosHist RunList Compute Views HistModel FindModel.\nImport ListNotations.\nOpen Scope Z_scope.\n')
            for i, (r, (expr, kind)) in enumerate(picks):
                f.write('Definition c%d := Eval vm_compute in (%s).\nPrint c%d.\n' % (i, expr, i))
        p = subprocess.run(['coqc', '-R', th, 'SQ', v], stdout=subprocess.PIPE, stderr=subprocess.STDOUT, text=True, cwd=tmp, timeout=1800)
        if p.returncode != 0:
            return len(picks), ['coqc failed on the cross-check file: ' + p.stdout[-500:]]
        out = p.stdout.replace('\n', ' ')
        mism = []
        for i, (r, (expr, kind)) in enumerate(picks):
            m = re.search(r'c%d\s*=\s*(\[.*?\])\s*:\s*list Z' % i, out)
            if not m:
                mism.append('case %d: no value printed' % i); continue
            vals = [int(x) for x in re.findall(r'-?\d+', m.group(1).replace('%Z', ''))]
            model = r[2].split(' ') if r[2] else []
            if kind == 'root':
                want = root_tokens(vals)
                got = model if model[:1] != ['PANIC'] else ['PANIC']
            elif kind == 'flat':
                want = [str(x) for x in vals]
                got = model
                if model[:1] == ['ERR']:
                    continue
            elif kind == 'find':
                want = [str(x) for x in vals]
                got = model[:len(want)]          # generator-backed cases append the source-call count
                if model[:1] in (['NOTFINITE'], ['MODEL-PANIC'], ['RETURNS']):
                    continue
            else:
                want = [str(x) for x in vals]
                # OCaml model prints nbuilt, the built values with End, then nbuilt and the re-read values: compare the first block
                nb = int(model[0]) if model else 0
                got = []
                j = 1
                for _ in range(nb):
                    kk = int(model[j]); got += model[j:j + 1 + 2 * kk + 1]; j += 1 + 2 * kk + 1
            if want != got:
                mism.append('in-Coq evaluation and extracted model differ on %s: Coq %s / OCaml %s' % (r[1][:120], ' '.join(want)[:120], ' '.join(got)[:120]))
        return len(picks), mism
    finally:
        shutil.rmtree(tmp, ignore_errors=True)
