(* Model-side driver of the correspondence check.  Reads the lines written by
   sqdrive ("<prop> <id> <ver> <op> <args..> => <obs..>"), evaluates the
   extracted Coq model and the extracted spec checkers, and prints one line per
   case:  <STATUS>\t<input line>\t<model obs>\t<tags>\t<message>
   STATUS: OK | DIFF (model and implementation differ) | SPECFAIL (a checker
   proved sound in Coq rejects the implementation's observation) | SKIP. *)
open Model

(* ---- conversions ---- *)
let rec pos_of_int n =
  if n = 1 then XH
  else if n land 1 = 0 then XO (pos_of_int (n lsr 1))
  else XI (pos_of_int (n lsr 1))
let z_of_int n = if n = 0 then Z0 else if n > 0 then Zpos (pos_of_int n) else Zneg (pos_of_int (-n))
let z10 = z_of_int 10
let z_of_string s =
  let neg = String.length s > 0 && s.[0] = '-' in
  let start = if neg then 1 else 0 in
  (* chunks of 15 digits to keep the number of big multiplications small *)
  let n = String.length s in
  let acc = ref Z0 in
  let i = ref start in
  while !i < n do
    let len = min 15 (n - !i) in
    let chunk = int_of_string (String.sub s !i len) in
    let rec p10 k = if k = 0 then 1 else 10 * p10 (k - 1) in
    acc := Z.add (Z.mul !acc (z_of_int (p10 len))) (z_of_int chunk);
    i := !i + len
  done;
  if neg then Z.opp !acc else !acc
let rec int_of_pos = function XH -> 1 | XO p -> 2 * int_of_pos p | XI p -> 2 * int_of_pos p + 1
let small_int_of_z = function Z0 -> 0 | Zpos p -> int_of_pos p | Zneg p -> - (int_of_pos p)
let rec pos_bits = function XH -> 1 | XO p | XI p -> 1 + pos_bits p
let z_fits = function Z0 -> true | Zpos p | Zneg p -> pos_bits p <= 60
(* machine-int view of a Z that saturates instead of wrapping (OCaml ints have 63 bits; the cases carry math.MaxInt) *)
let clamp_int_of_z z = if z_fits z then small_int_of_z z else (match z with Zneg _ -> - (1 lsl 60) | _ -> 1 lsl 60)
let string_of_z z =
  if z_fits z then string_of_int (small_int_of_z z)
  else begin
    let neg = (match z with Zneg _ -> true | _ -> false) in
    let big = z_of_int 1_000_000_000_000_000 in
    let buf = ref [] in
    let cur = ref (Z.abs z) in
    while not (z_fits !cur) do
      let (q, r) = Z.div_eucl !cur big in
      buf := Printf.sprintf "%015d" (small_int_of_z r) :: !buf;
      cur := q
    done;
    (if neg then "-" else "") ^ string_of_int (small_int_of_z !cur) ^ String.concat "" !buf
  end
let rec nat_of_int n = if n <= 0 then O else S (nat_of_int (n - 1))
let rec int_of_nat = function O -> 0 | S n -> 1 + int_of_nat n

(* ---- token cursor ---- *)
type cur = { t : string array; mutable i : int }
let mk l = { t = Array.of_list l; i = 0 }
exception Exhausted
let next c = if c.i >= Array.length c.t then raise Exhausted else (let s = c.t.(c.i) in c.i <- c.i + 1; s)
let next_int c = int_of_string (next c)
let next_z c = z_of_string (next c)
let next_list c f = let n = next_int c in List.init (max n 0) (fun _ -> f c)
let at_end c = c.i >= Array.length c.t

type verdict = { model : string list; tags : string list; spec : string option (* Some msg = spec checker rejects *) ; known : string option }
let ok_v model tags = { model; tags; spec = None; known = None }

let handlers : (string, string -> string list -> string list -> verdict) Hashtbl.t = Hashtbl.create 64
let reg prop op f = Hashtbl.replace handlers (prop ^ "/" ^ op) f

let zs z = string_of_z z
