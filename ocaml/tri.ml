open Model
open Driver_base

(* C18: Tri <prop> <op> args => SAME fingerprint n | DIFFER ...   the three versions must give identical observations *)
let () = reg "C18" "Tri" (fun _ver args obs ->
  let tags = (match args with p :: op :: _ -> [p; op] | _ -> []) in
  match obs with
  | "SAME" :: _ -> ok_v obs tags
  | "DIFFER" :: _ -> { model = ["SAME"]; tags; spec = Some ("the three versions disagree: " ^ String.concat " " obs); known = None }
  | _ -> { model = ["SAME"]; tags; spec = Some "malformed observation"; known = None })
