open Model
open Driver_base
open Print

(* C12: Fprint <print case> bufsize mode k => n err calls srccalls nacc byte* *)
let fprint_handler prop = reg prop "Fprint" (fun ver args obs ->
  let a = mk args in
  let p = parse_print ver a in
  let size = next_int a in let mode = next_int a in let k = next_z a in
  let (v, d) = window p in
  let v3 = (ver = "v3") in
  let shown, maxd =
    if p.fn = 1 then begin
      match span d v with
      | Some n ->
        let sh = fwd_list d (eff_hi d v) (eff_lo v) n in
        (sh, (match List.rev sh with [] -> Z0 | (q, _) :: _ -> Z.add q (z_of_int 1)))
      | None -> ([], Z0)
    end else begin
      let ps = positions_of p.rng in (shown_of d v ps, end_of ps)
    end in
  let ops = fprint_ops v3 p.o maxd shown in
  let size' = if size <= 0 then 4096 else size in
  (* mode 4 (a silent short write even of 0 bytes): only the statement is evaluated, on the implementation's observation *)
  let stmt_only = (mode = 4) in
  let mode = (if mode = 4 then 2 else mode) in
  let w0 = { fw_left = k; fw_mode = z_of_int mode; fw_faulted = false } in
  match run_fprint (nat_of_int 100000) (nat_of_int size') w0 ops with
  | None -> { model = ["MODEL-OUT-OF-FUEL"]; tags = []; spec = None; known = None }
  | Some r ->
    let srccalls = (match obs with _ :: _ :: _ :: s :: _ -> s | _ -> "?") in
    let model = [zs r.pr_n; (if r.pr_err then "1" else "0"); zs r.pr_calls; srccalls;
                 string_of_int (List.length r.pr_acc)] @ List.map zs r.pr_acc in
    let tags = (if r.pr_err then ["fault"] else ["complete"])
               @ (if List.length r.pr_acc > 0 && r.pr_err then ["partial"] else [])
               @ (if size > 0 && size < 64 then ["smallbuf"] else []) in
    (* digits consulted: at most the position whose Consume was in progress, one prefetch, bounded read-ahead *)
    let infinite = (p.rep <> []) in
    (* the statement itself, evaluated on the implementation's observation: n = accepted bytes, accepted bytes are
       a prefix of the fault-free output T, error iff T was not delivered completely *)
    let t_bytes = utf8_all (if p.fn = 1 then swrite p.o d v else sprint p.o d v p.rng) in
    let stmt =
      (match obs with
       | n :: e :: _calls :: _src :: nacc :: bytes when obs <> ["TIMEOUT"] ->
         let accb = List.map z_of_string bytes in
         let rec is_prefix a b = (match a, b with [] , _ -> true | x :: a', y :: b' -> x = y && is_prefix a' b' | _ -> false) in
         if int_of_string n <> List.length accb || int_of_string nacc <> List.length accb then Some "returned count differs from the number of bytes the writer accepted"
         else if not (is_prefix accb t_bytes) then Some "accepted bytes are not a prefix of the fault-free output"
         else if (e = "1") <> (List.length accb <> List.length t_bytes) then Some "error reported iff output incomplete fails"
         else None
       | _ -> None) in
    let spec =
      (match int_of_string_opt srccalls with
       | Some c when infinite && r.pr_err ->
         let pos = max (clamp_int_of_z r.pr_pos) 0 in
         if c > pos + 2 + 1000 then
           Some (Printf.sprintf "digits consulted after the fault: %d source calls, highest position being printed %d" c pos)
         else None
       | Some c when infinite && not r.pr_err ->
         (* a complete print delivers no position beyond the last one it shows *)
         let last = List.fold_left (fun m (q, _) -> max m (clamp_int_of_z q)) 0 shown in
         if c > last + 2 + 1000 then
           Some (Printf.sprintf "%d positions consulted by a print whose highest shown position is %d" c last)
         else None
       | _ -> None) in
    let known =
      if obs = ["TIMEOUT"] && hangs_pinned ops r then Some "gap-loop-hang" else None in
    let spec = (match stmt with Some _ -> stmt | None -> spec) in
    let model = (if stmt_only && obs <> ["TIMEOUT"] then obs else model) in
    let spec = (if stmt_only then stmt else spec) in
    let v = { model; tags; spec; known } in
    (* a hang that the pinned gap loop explains is reported under its own key *)
    if obs = ["TIMEOUT"] && known <> None then { v with model = obs } else v)

let () = fprint_handler "C12"
let () = fprint_handler "C06"
