open Model
open Driver_base

(* C08: Fmt / Str / Exact *)
let number_of ver a =
  let kind = Hist.kind_code (next a) in
  let raw = next_list a next_z in
  let rep = next_list a next_z in
  let e = next_z a in
  let wsg = next_z a in
  let (v, d) = hist_base (Hist.ver_z ver) (z_of_int kind) raw rep e in
  let v = (match wsg with Zneg _ -> v | _ -> (match with_significant v wsg with Ok v' -> v' | _ -> v)) in
  (v, d)

let pts l = string_of_int (List.length l) :: List.map zs l
let opt_of z = (match z with Zneg _ -> None | _ -> Some z)

let () = reg "C08" "Fmt" (fun ver args _obs ->
  let a = mk args in
  let (v, d) = number_of ver a in
  let flags = next_int a in let width = next_z a in let prec = next_z a in let verb = next_z a in
  let t = format d v verb (opt_of prec) (opt_of width) (flags land 1 = 1) in
  let tags = (if List.mem (z_of_int 101) t || List.mem (z_of_int 69) t then ["sci"] else ["fixed"])
             @ (match opt_of width with Some _ -> ["width"] | None -> [])
             @ (match opt_of prec with Some _ -> ["prec"] | None -> []) in
  ok_v (pts t) tags)

let () = reg "C08" "Str" (fun ver args _obs ->
  let (v, d) = number_of ver (mk args) in ok_v (pts (string_of d v)) ["string"])
let () = reg "C08" "Exact" (fun ver args _obs ->
  let (v, d) = number_of ver (mk args) in
  match v with
  | FN (_, _) -> ok_v (pts (exact_of d v)) ["exact"]
  | _ -> ok_v ["NOTFINITE"] [])
