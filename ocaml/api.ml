open Model
open Driver_base

(* C16: Api <name> <recv> i1 i2 i3 => OK | PANIC msg.  Expected: the documented preconditions (ApiSpec.api_panics). *)
let api_class ver name recv =
  match name with
  | "Sqrt" | "CubeRoot" | "SqrtBigInt" | "CubeRootBigInt" -> 1
  | "SqrtRat" | "CubeRootRat" -> 2
  | "SqrtBigRat" | "CubeRootBigRat" | "NewNumberFromBigRat" -> 3
  | "Number.WithSignificant" | "FiniteNumber.WithSignificant" -> 4
  | "Number.IteratorAt" when ver = "v1" -> 5
  | _ -> ignore recv; 0

let () = reg "C16" "Api" (fun ver args obs ->
  let a = mk args in
  let name = next a in let recv = next a in
  let i1 = next_z a in let i2 = next_z a in let _i3 = next_z a in
  let expect_panic = api_panics (z_of_int (api_class ver name recv)) i1 i2 in
  let got_panic = (match obs with "PANIC" :: _ -> true | _ -> false) in
  let model = if expect_panic then (if got_panic then obs else ["PANIC"]) else ["OK"] in
  let spec =
    if got_panic && not expect_panic then Some (Printf.sprintf "%s panics on arguments for which no panic is documented: %s" name (String.concat " " obs))
    else if expect_panic && not got_panic then Some (Printf.sprintf "%s returns normally although the documented precondition is violated" name)
    else if obs = ["TIMEOUT"] then Some (name ^ " does not return")
    else None in
  { model; tags = (if expect_panic then ["panic"] else []) @ [name]; spec; known = None })
