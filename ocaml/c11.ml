open Model
open Driver_base

(* C11 *)
let max_int_s = "9223372036854775807"

let ranges_tokens (ps : (z * z) list) with_end =
  [string_of_int (List.length ps)]
  @ List.concat_map (fun (s, e) -> [zs s; zs e]) ps
  @ (if with_end then [zs (end_of ps)] else [])

let parse_hist a =
  let n = next_int a in
  List.init n (fun _ ->
    match next a with
    | "A" -> HAdd (next_z a)
    | "R" -> let s = next_z a in let e = next_z a in HAddRange (s, e)
    | "B" -> HBuild
    | s -> failwith ("bad hist op " ^ s))

let read_ranges o with_end =
  let k = next_int o in
  let ps = List.init k (fun _ -> let s = next_z o in let e = next_z o in (s, e)) in
  let e = if with_end then Some (next_z o) else None in
  (ps, e)

let () = reg "C11" "Hist" (fun _ver args obs ->
  let ops = parse_hist (mk args) in
  let built = run_hist ops { rr = []; unsorted = false } in
  let segs = segments ops [] in
  let model =
    [string_of_int (List.length built)] @ List.concat_map (fun ps -> ranges_tokens ps true) built
    @ [string_of_int (List.length built)] @ List.concat_map (fun ps -> ranges_tokens ps false) built in
  let tags =
    (if List.exists (fun ps -> List.length ps >= 2) built then ["multi"] else [])
    @ (if List.length built >= 2 then ["reuse"] else [])
    @ (if List.exists (function HAdd _ -> true | _ -> false) ops then ["add"] else [])
    @ (if List.length ops >= 4 then ["len4+"] else []) in
  (* spec checkers on the implementation's observation *)
  let spec, known =
    try
      let o = mk obs in
      let nb = next_int o in
      if nb <> List.length segs then (Some "number of built values", None) else begin
        let firsts = List.init nb (fun _ -> read_ranges o true) in
        let nb2 = next_int o in
        let seconds = List.init nb2 (fun _ -> fst (read_ranges o false)) in
        let msg = ref None and known = ref None in
        List.iteri (fun i ((ps, e), cs) ->
          if !msg = None then begin
            if not (c11_check_words cs ps) then begin
              if c11_check cs ps && List.exists (function CAdd p -> zs p = max_int_s | _ -> false) cs
              then known := Some "add-maxint"
              else msg := Some (Printf.sprintf "built value %d is not the normal form of the union of the added positions" i)
            end;
            (match e with Some e when zs e <> zs (end_of ps) -> msg := Some "End is not last end / 0" | _ -> ());
            (match List.nth_opt seconds i with
             | Some ps2 when ps2 = ps -> ()
             | _ -> msg := Some (Printf.sprintf "built value %d changed after later use of the builder" i))
          end) (List.combine firsts segs);
        (!msg, !known)
      end
    with Exhausted | Failure _ | Invalid_argument _ -> (Some "malformed observation", None) in
  { model; tags; spec; known })

let between_like s e obs =
  let ps = between s e in
  let model = ranges_tokens ps true in
  let spec =
    try
      let o = mk obs in
      let (ips, ie) = read_ranges o true in
      if not (c11_check_words [CAddRange (s, e)] ips) then Some "not the single AddRange"
      else (match ie with Some x when zs x <> zs (end_of ips) -> Some "End" | _ -> None)
    with Exhausted | Failure _ -> Some "malformed observation" in
  { model; tags = (if ps <> [] then ["nonempty"] else []); spec; known = None }

let () = reg "C11" "Between" (fun _ args obs ->
  let a = mk args in let s = next_z a in let e = next_z a in between_like s e obs)
let () = reg "C11" "UpTo" (fun _ args obs ->
  let a = mk args in let e = next_z a in between_like Z0 e obs)
