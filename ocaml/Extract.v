(* Extraction of the executable model and the spec checkers.  ExtrOcamlBasic only:
   Z, positive, nat, N, comparison stay Coq inductives. *)
Require Extraction.
Require Import ExtrOcamlBasic.
From Coq Require Import ZArith List.
From SQ Require Import Pos PosHist RunList Compute CheckLast Views HistModel PrnModel PrintModel Bufio PrintOps Fmt FormatModel KmpModel KmpSpec KmpProof FindModel Conc ConcExec ApiSpec.

Extraction "model.ml"
  Z.add Z.mul Z.sub Z.opp Z.div_eucl Z.compare Z.of_nat Z.to_nat Z.abs Z.eqb Z.ltb Z.leb
  Z.pow Z.max Z.min Z.log2 Z.div Z.modulo
  ctor ctor_check ctor_check_fast ctor_check_last val
  run_history test_number_status hist_base
  fprint_ops run_fprint hangs_pinned span fwd_list eff_hi eff_lo end_of
  format string_of exact_of with_significant hist_base
  exec_step conc_dlen conc_init api_panics
  find_model find_spec text_of step hi lo dlen
  sprint swrite with_start with_end utf8_all positions_of shown_of asc_b
  run_hist segments c11_check c11_check_words between upto end_of.
