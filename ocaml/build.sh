#!/bin/sh
# builds the extracted model and the OCaml driver into /verif/build/sqmodel
set -e
cd "$(dirname "$0")"
sh ../coq/mkproject.sh && make -C ../coq -j16 >/dev/null 2>&1 || { echo "Coq build failed"; exit 1; }
coqc -R ../coq/theories SQ Extract.v >/dev/null
mkdir -p ../build
ocamlfind ocamlopt -O3 -w -a -package str model.mli model.ml driver_base.ml c11.ml roots.ml hist.ml print.ml fault.ml format.ml find.ml count.ml conc.ml api.ml tri.ml alias.ml main.ml -o ../build/sqmodel 2>&1 || \
ocamlfind ocamlopt -w -a model.mli model.ml driver_base.ml c11.ml roots.ml hist.ml print.ml fault.ml format.ml find.ml count.ml conc.ml api.ml tri.ml alias.ml main.ml -o ../build/sqmodel
