open Model
open Driver_base

(* C09 / C15: Find <T|G> nraw.. nrep.. exp ws we npat pat.. fn n => cnt values.. [srccalls] *)
let find_handler prop = reg prop "Find" (fun ver args obs ->
  if obs = ["TIMEOUT"] then { model = ["RETURNS"]; tags = []; spec = Some "the search did not return within its time budget"; known = None } else
  let a = mk args in
  let kind = Hist.kind_code (next a) in
  let raw = next_list a next_z in
  let rep = next_list a next_z in
  let e = next_z a in
  let ws = next_z a in let we = next_z a in
  let pat = next_list a next_z in
  let fn = next_int a in let n = next_z a in
  let (v, d) = hist_base (Hist.ver_z ver) (z_of_int kind) raw rep e in
  let v = (match ws with Zneg _ -> v | _ -> with_start v ws) in
  let v = (match we with Zneg _ -> v | _ -> with_end v we) in
  let (lo, w) = text_of d v (nat_of_int (max 330 (List.length raw + 12))) in
  (* rerun variants (9, 10) answer like 7, 8; v1/v2 have no push iterators: 7..10 are emulated by pulls *)
  (* 11, 12: the complete forward / backward listing obtained by several goroutines at once from one shared iterator
     value (v3) or one shared view (v1/v2): the sequential answer *)
  let n = (if fn = 11 || fn = 12 then z_of_int (-1) else n) in
  let fn' = (match fn with 9 | 11 -> 7 | 10 | 12 -> 8 | x -> x) in
  let finite_type = (match v with FN (_, _) | MWS (_, _) -> true | _ -> false) in
  let need_finite = List.mem fn [2; 3; 4; 6; 8; 10; 11; 12] in
  if ver = "v3" && need_finite && not finite_type then ok_v ["NOTFINITE"] []
  else
  match find_model (z_of_int fn') n pat lo w with
  | None -> { model = ["MODEL-PANIC"]; tags = []; spec = None; known = None }
  | Some res ->
    let model = string_of_int (List.length res) :: List.map zs res in
    let expect = find_spec (z_of_int fn') n pat lo w in
    let expect_t = string_of_int (List.length expect) :: List.map zs expect in
    (* generator-backed bases append the source-call count: not part of this comparison *)
    let nobs = List.length model in
    let obs_res = List.filteri (fun i _ -> i < nobs) obs in
    let extra = List.filteri (fun i _ -> i >= nobs) obs in
    let spec = if obs_res <> expect_t then Some "reported positions are not the occurrences of the pattern (naive specification)" else None in
    let tags = (if List.length res > 1 then ["multi"] else []) @ (if pat = [] then ["emptypat"] else [])
               @ (if List.mem fn [3; 4; 6; 8; 10; 12] then ["backward"] else []) @ (if fn = 9 || fn = 10 then ["rerun"] else [])
               @ (if fn >= 11 then ["shared-concurrent"] else []) in
    (* C15: digits consulted: no further than the later of the sequence's start and the end of the last reported
       match, plus the bounded read-ahead; v3 with n <= 0 consults nothing beyond the constructor's first-digit probe *)
    let spec =
      if (prop <> "C15" && prop <> "C06") || spec <> None then spec
      else (match extra with
        | [c] when kind = 1 && ver = "v3" && (fn = 1 || fn = 4) && (match n with Zpos _ -> false | _ -> true) ->
          (* the zero-demand clause holds on every kind of sequence: only the constructor's first-digit probe *)
          let calls = int_of_string c in
          if calls <> 1 then Some (Printf.sprintf "%s with n <= 0 consulted %d positions (v3 must consult nothing)" (if fn = 1 then "FindFirstN" else "FindLastN") calls) else None
        | [c] when kind = 1 && rep <> [] && List.mem fn [0; 1; 5; 7; 9] ->
          let calls = int_of_string c in
          let ints = List.map clamp_int_of_z res in
          let reported = List.filter (fun x -> x >= 0) ints in
          let lo' = clamp_int_of_z lo in
          let last_end = (match List.rev reported with [] -> -1 | x :: _ -> x + max (List.length pat) 1 - 1) in
          let n' = clamp_int_of_z n in
          if ver = "v3" && fn = 1 && n' <= 0 && calls <> 1 then
            Some (Printf.sprintf "FindFirstN with n <= 0 consulted %d positions (v3 must consult nothing)" calls)
          else if calls > (max lo' last_end) + 2 + 1000 then
            Some (Printf.sprintf "%d positions consulted; the last reported match ends at %d, the sequence starts at %d" calls last_end lo')
          else None
        | _ -> None) in
    { model = model @ extra; tags; spec; known = None })

let () = find_handler "C09"
let () = find_handler "C15"
let () = find_handler "C05"
let () = find_handler "C14"
let () = find_handler "C06"
