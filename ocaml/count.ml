open Model
open Driver_base

(* C06 (sequential part): histories with counting digit sources.  The spec-level model (HistModel.step) gives the
   answers; the property's statement is then evaluated on the implementation's source-call counters:
     - constructing the Number, deriving views, and in v3 creating iterators consult nothing;
     - never more calls than |D| + 1 (nothing after the end marker), never re-entrant;
     - calls <= (highest position asked about or delivered so far) + 1 + 1000. *)
let z2i = clamp_int_of_z

let parse_ops_with_cnt a =
  (* returns a list of `Op of hop | Cnt` in order, using Hist.parse_hops token by token *)
  let n = next_int a in
  let out = ref [] in
  for _ = 1 to n do
    (match a.t.(a.i) with
     | "CNT" -> a.i <- a.i + 1; out := `Cnt :: !out
     | _ ->
       (* parse exactly one op by wrapping the cursor in a count of 1 *)
       let save = a.i in
       let sub = { t = Array.append [| "1" |] (Array.sub a.t save (Array.length a.t - save)); i = 0 } in
       (match Hist.parse_hops sub with
        | [o] -> a.i <- save + sub.i - 1; out := `Op o :: !out
        | _ -> failwith "parse"))
  done;
  List.rev !out

let opt_min a b = (match a, b with None, x | x, None -> x | Some x, Some y -> Some (min x y))
let zopt = function None -> None | Some z -> if z_fits z then Some (z2i z) else Some max_int

let () = reg "C06" "Hist" (fun ver args obs ->
  let a = mk args in
  let kind = Hist.kind_code (next a) in
  let raw = next_list a next_z in
  let rep = next_list a next_z in
  let e = next_z a in
  let items = parse_ops_with_cnt a in
  let verz = Hist.ver_z ver in
  let (v0, d) = hist_base verz (z_of_int kind) raw rep e in
  let dl = zopt (dlen d) in
  let st = ref { h_views = [v0]; h_its = [] } in
  let asked = ref (-1) in
  let reads = ref false in
  let base_calls = if ver = "v3" && kind = 1 then 1 else 0 in
  let model = ref [] in
  let o = mk obs in
  let problem = ref None in
  let view i = List.nth !st.h_views i in
  let vhi v = opt_min (zopt (hi v)) dl in
  let vlo v = max 0 (let l = lo v in if z_fits l then z2i l else (match l with Zneg _ -> 0 | _ -> max_int)) in
  let ask p = (let p = min p 1_000_000_000_000 in if p > !asked then asked := p) in
  let clip p v = (match zopt (hi v) with Some h -> min p h | None -> p) in
  (try
    List.iter (fun it ->
      match it with
      | `Cnt ->
        let calls = next_int o in let after = next_int o in let reent = next_int o in
        model := string_of_int reent :: string_of_int after :: string_of_int calls :: !model;
        if !problem = None then begin
          if after > 0 then problem := Some (Printf.sprintf "the source was consulted %d times after it signalled the end" after)
          else if reent > 0 then problem := Some "the source was consulted re-entrantly / concurrently"
          else if (match dl with Some l -> calls > l + 1 | None -> false) then problem := Some "more positions consulted than the source has"
          else if not !reads && calls <> base_calls then
            problem := Some (Printf.sprintf "%d positions consulted although nothing was read yet (construction / deriving views / creating v3 iterators must consult nothing)" calls)
          else if calls > (max !asked 0) + 2 + 1000 && calls > base_calls then
            problem := Some (Printf.sprintf "%d positions consulted; highest position asked about or delivered is %d" calls !asked)
        end
      | `Op op ->
        (* what this op may legitimately make the Number compute *)
        (match op with
         | HAT (i, p) ->
           let v = view (int_of_nat i) in
           (match v with FN (_, _) | ON _ ->
              if z_fits p && z2i p >= 0 then (reads := true; ask (clip (z2i p) v)) else if not (z_fits p) then (match p with Zpos _ -> reads := true; ask (clip max_int v) | _ -> ())
            | _ -> ())
         | HNEW (i, k, p) ->
           let v = view (int_of_nat i) in
           (* v1/v2 create pull iterators eagerly: wait(start) and one prefetch; backward ones read everything *)
           let k' = z2i k in
           if k' = 1 || k' = 3 then (reads := true; (match vhi v with Some h -> ask h | None -> ()))
           else if ver <> "v3" then (reads := true; ask (clip ((if k' = 4 then max (z2i p) 0 else vlo v) + 1) v))
         | HNX id ->
           (match List.nth !st.h_its (int_of_nat id) with
            | Some it -> reads := true;
              let nx = it.it_next in
              if it.it_fwd then ask ((if z_fits nx then z2i nx else 0) + (if ver <> "v3" then 1 else 0))
              else (match vhi (List.hd !st.h_views) with Some h -> ask h | None -> ())
            | None -> ())
         | HRUN (i, k, cnt) ->
           let v = view (int_of_nat i) in
           let k' = z2i k in
           if k' = 2 then (if z2i cnt <> 0 || ver <> "v3" then (reads := true; (match vhi v with Some h -> ask h | None -> ())))
           else if ver = "v3" && z2i cnt = 0 then ()
           else begin
             reads := true;
             let c = z2i cnt in
             let upto = if c < 0 then (match vhi v with Some h -> h | None -> 0) else vlo v + c in
             ask (clip (upto + (if ver <> "v3" then 1 else 0)) v)
           end
         | HRR (i, k, c1, c2) ->
           let v = view (int_of_nat i) in
           let k' = z2i k in
           reads := true;
           if k' = 2 then (match vhi v with Some h -> ask h | None -> ())
           else begin
             let c = max (z2i c1) (z2i c2) and neg = (z2i c1 < 0 || z2i c2 < 0) in
             let upto = if neg then (match vhi v with Some h -> h | None -> 0) else vlo v + c in
             ask (clip (upto + (if ver <> "v3" then 1 else 0)) v)
           end
         | HSTR i | HND i -> reads := true; (match vhi (view (int_of_nat i)) with Some h -> ask h | None -> ())
         | _ -> ());
        let (st', ans) = step verz d !st op in
        st := st';
        List.iter (fun z -> let tok = next o in ignore tok; model := zs z :: !model) ans)
      items
  with Exhausted | Failure _ | Invalid_argument _ -> problem := Some "malformed observation");
  (* answers are compared by C04; here only the counters are judged: echo the observation as the model's *)
  { model = obs; tags = (if !reads then ["reads"] else ["noreads"]) @ (match dl with Some _ -> ["finite"] | None -> ["infinite"]);
    spec = !problem; known = None })
