open Model
open Driver_base

(* C01 / C02 / C03 / C13(rational): <ctor> num den depth => Z 0 -1 | N e k d.. ended | PANIC msg *)
let kind_of_op op =
  match op with
  | "Sqrt" | "SqrtRat" | "SqrtBigInt" | "SqrtBigRat" -> KSqrt
  | "CubeRoot" | "CubeRootRat" | "CubeRootBigInt" | "CubeRootBigRat" -> KCube
  | _ -> KRat

let bool_tok b = if b then "1" else "0"

let root_handler op _ver args obs =
  let a = mk args in
  let num = next_z a in let den = next_z a in let depth = next_int a in
  let k = kind_of_op op in
  let r = ctor k num den (nat_of_int depth) in
  let model, tags =
    match r with
    | RPanic -> (["PANIC"], ["panic"])
    | RZero -> (["Z"; "0"; "-1"], ["zero"])
    | RFuel -> (["MODEL-OUT-OF-FUEL"], [])
    | RNum (e, ds, ended) ->
      (["N"; zs e; string_of_int (List.length ds)] @ List.map zs ds @ [bool_tok ended],
       (if ended then ["finite"] else ["deep"]) @ (match e with Zneg _ -> ["negexp"] | Z0 -> ["exp0"] | _ -> [])
       @ (if List.exists (fun d -> d = Z0) ds then ["has0"] else [])) in
  (* implementation's PANIC carries a message token: compare only the fact *)
  let obs_cmp = (match obs with "PANIC" :: _ -> ["PANIC"] | o -> o) in
  let spec =
    match obs with
    | ["TIMEOUT"] -> Some "the call did not return within its time budget"
    | "N" :: _ ->
      (try
        let o = mk (List.tl obs) in
        let e = next_z o in
        let ds = next_list o next_z in
        let ended = (next o = "1") in
        (match r with
         | RPanic -> Some "constructor must panic on these arguments"
         | RZero -> Some "radicand 0 must yield the zero number"
         | _ ->
           if (if depth > 200 then ctor_check_last k num den (nat_of_int depth) e ds ended else ctor_check_fast k num den (nat_of_int depth) e ds ended) then None
           else Some "digits/exponent are not the exact truncated root (ctor_check rejects)")
      with _ -> Some "malformed observation")
    | "Z" :: rest ->
      (match r with
       | RZero -> if rest = ["0"; "-1"] then None else Some "zero number must have exponent 0 and no digits"
       | RPanic -> Some "constructor must panic on these arguments"
       | _ -> Some "non-zero radicand yields the zero number")
    | "PANIC" :: _ -> (match r with RPanic -> None | _ -> Some "panic on valid arguments")
    | _ -> Some "malformed observation" in
  { model = (if obs_cmp == obs then model else model); tags; spec; known = None }, obs_cmp

(* Deep<ctor> num den depth: radicands of a thousand bits and more, hundreds of digits deep.  Only the statement is
   evaluated on the implementation's digits, at their full length (ctor_check_last: proved sound in CheckLast.v -
   the last prefix decides all the shorter ones); the model's own digit extraction is not run. *)
let deep_handler op _ver args obs =
  let a = mk args in
  let num = next_z a in let den = next_z a in let depth = next_int a in
  let k = kind_of_op op in
  match obs with
  | ["TIMEOUT"] -> { model = ["RETURNS"]; tags = []; spec = Some "the call did not return within its time budget"; known = None }
  | "N" :: rest ->
    (try
      let o = mk rest in
      let e = next_z o in
      let ds = next_list o next_z in
      let ended = (next o = "1") in
      if ctor_check_last k num den (nat_of_int depth) e ds ended then ok_v obs ["deep-statement-only"]
      else { model = ["the-exact-truncated-root"]; tags = []; spec = Some "digits/exponent are not the exact truncated root (ctor_check rejects)"; known = None }
    with _ -> { model = []; tags = []; spec = Some "malformed observation"; known = None })
  | _ -> { model = ["N"]; tags = []; spec = Some "a positive radicand must yield a non-zero number"; known = None }

let () =
  List.iter (fun prop ->
    List.iter (fun op -> reg prop ("Deep" ^ op) (deep_handler op))
      ["SqrtBigInt"; "SqrtBigRat"; "CubeRootBigInt"; "CubeRootBigRat"; "FromBigRat"])
    ["C01"; "C02"; "C03"; "C13"]

(* Far<ctor> num den depth first far: the observation is that of <ctor> num den depth *)
let () =
  List.iter (fun prop ->
    List.iter (fun op -> reg prop ("Far" ^ op) (fun ver args obs ->
      match args with
      | num :: den :: depth :: _ ->
        let v, _ = root_handler op ver [num; den; depth] obs in
        (match obs, v.model with
         | ("PANIC" :: _), ["PANIC"] -> { v with model = obs }
         | _ -> { v with tags = "far-jump" :: v.tags })
      | _ -> { model = []; tags = []; spec = Some "malformed Far case"; known = None }))
      ["Sqrt"; "SqrtRat"; "SqrtBigInt"; "SqrtBigRat"; "CubeRoot"; "CubeRootRat"; "CubeRootBigInt"; "CubeRootBigRat"; "FromBigRat"])
    ["C01"; "C02"; "C03"; "C13"]

(* Pair: two independent Numbers *)
let split_obs obs =
  (* obs of one number: Z 0 -1 | N e k d1..dk ended | PANIC msg *)
  match obs with
  | "Z" :: a :: b :: rest -> (["Z"; a; b], rest)
  | "N" :: e :: k :: rest ->
    let k' = int_of_string k in
    let rec take n l acc = if n = 0 then (List.rev acc, l) else (match l with x :: r -> take (n - 1) r (x :: acc) | [] -> raise Exhausted) in
    let (ds, rest') = take (k' + 1) rest [] in
    (["N"; e; k] @ ds, rest')
  | _ -> raise Exhausted

let () =
  List.iter (fun prop ->
    reg prop "Pair" (fun ver args obs ->
      let a = mk args in
      let opA = next a in let numA = next a in let denA = next a in
      let opB = next a in let numB = next a in let denB = next a in
      let _dA1 = next a in let dA2 = next a in let dB = next a in
      try
        let (oa, rest) = split_obs obs in
        let (ob, _) = split_obs rest in
        let (va, _) = root_handler opA ver [numA; denA; dA2] oa in
        let (vb, _) = root_handler opB ver [numB; denB; dB] ob in
        { model = va.model @ vb.model; tags = ["pair"];
          spec = (match va.spec, vb.spec with Some m, _ -> Some ("first number: " ^ m) | _, Some m -> Some ("second number: " ^ m) | _ -> None);
          known = None }
      with Exhausted | Failure _ -> { model = []; tags = []; spec = Some "malformed observation"; known = None }))
    ["C01"; "C02"; "C03"]

let () =
  List.iter (fun prop ->
    List.iter (fun op ->
      reg prop op (fun ver args obs ->
        let v, obs_cmp = root_handler op ver args obs in
        (* normalise the PANIC message away on the model side by echoing the implementation's message *)
        (match obs, v.model with
         | ("PANIC" :: _), ["PANIC"] -> { v with model = obs }
         | _ -> ignore obs_cmp; v)))
      ["Sqrt"; "SqrtRat"; "SqrtBigInt"; "SqrtBigRat"; "CubeRoot"; "CubeRootRat"; "CubeRootBigInt"; "CubeRootBigRat"; "FromBigRat"])
    ["C01"; "C02"; "C03"; "C13"]

(* ConcRoots g (ctor num den depth)* => obs_1 obs_2 ... : Numbers computed concurrently are independent *)
let conc_roots prop = reg prop "ConcRoots" (fun ver args obs ->
  let a = mk args in
  let g = next_int a in
  let rest = ref obs in
  let model = ref [] and spec = ref None in
  (try
    for i = 1 to g do
      let op = next a in let num = next a in let den = next a in let depth = next a in
      let (o, r) = split_obs !rest in
      rest := r;
      let (v, _) = root_handler op ver [num; den; depth] o in
      model := !model @ v.model;
      (match v.spec with Some m when !spec = None -> spec := Some (Printf.sprintf "number %d: %s" i m) | _ -> ())
    done
  with Exhausted | Failure _ -> spec := Some "malformed observation");
  { model = !model; tags = ["concurrent-roots"]; spec = !spec; known = None })

let () = conc_roots "C05"
let () = conc_roots "C01"
let () = conc_roots "C02"
let () = conc_roots "C03"
let () = conc_roots "C13"
