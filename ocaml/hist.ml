open Model
open Driver_base

(* Hist <T|G> nraw raw.. nrep rep.. exp nops op..   (C04, C07, C17) *)
let parse_hops a =
  let n = next_int a in
  List.init n (fun _ ->
    match next a with
    | "WS" -> let i = next_int a in let x = next_z a in HWS (nat_of_int i, x)
    | "WE" -> let i = next_int a in let x = next_z a in HWE (nat_of_int i, x)
    | "FWS" -> let i = next_int a in let x = next_z a in HFWS (nat_of_int i, x)
    | "WSG" -> let i = next_int a in let x = next_z a in HWSG (nat_of_int i, x)
    | "AT" -> let i = next_int a in let p = next_z a in HAT (nat_of_int i, p)
    | "NEW" ->
      let i = next_int a in
      (match next a with
       | "F" | "P" -> HNEW (nat_of_int i, z_of_int 0, Z0)   (* P: the same listing pulled through iter.Pull2 over the push iterator (v3) *)
       | "B" -> HNEW (nat_of_int i, z_of_int 1, Z0)
       | "I1" -> HNEW (nat_of_int i, z_of_int 2, Z0)
       | "R1" -> HNEW (nat_of_int i, z_of_int 3, Z0)
       | "IA1" -> let p = next_z a in HNEW (nat_of_int i, z_of_int 4, p)
       | s -> failwith ("bad iterator kind " ^ s))
    | "NX" -> HNX (nat_of_int (next_int a))
    | "RUN" ->
      let i = next_int a in
      let k = (match next a with "A" -> 0 | "V" -> 1 | "K" -> 2 | s -> failwith ("bad run kind " ^ s)) in
      let cnt = next_z a in HRUN (nat_of_int i, z_of_int k, cnt)
    | "RR" ->
      let i = next_int a in
      let k = (match next a with "A" -> 0 | "V" -> 1 | "K" -> 2 | s -> failwith ("bad run kind " ^ s)) in
      let k1 = next_z a in let k2 = next_z a in HRR (nat_of_int i, z_of_int k, k1, k2)
    | "STR" -> HSTR (nat_of_int (next_int a))
    | "ND" -> HND (nat_of_int (next_int a))
    | s -> failwith ("bad hist op " ^ s))

let kind_code = function "T" -> 0 | "G" -> 1 | "Q" -> 2 | "S" -> 3 | "C" -> 4 | s -> failwith ("bad base kind " ^ s)

let ver_z ver = z_of_int (match ver with "v1" -> 1 | "v2" -> 2 | _ -> 3)

let hist_tags args =
  let has s = List.mem s args in
  (if has "NX" then ["pull"] else []) @ (if has "RUN" then ["push"] else []) @ (if has "RR" then ["rerun"] else [])
  @ (if has "WE" || has "WSG" then ["limit"] else []) @ (if has "WS" || has "FWS" then ["start"] else [])
  @ (if has "B" || has "K" || has "R1" then ["backward"] else [])

let views_hist_handler = fun ver args _obs ->
      let a = mk args in
      let kind = kind_code (next a) in
      let raw = next_list a next_z in
      let rep = next_list a next_z in
      let e = next_z a in
      let ops = parse_hops a in
      if ver = "v3" && kind = 0 && small_int_of_z (test_number_status raw rep) = 2 then ok_v ["ERR"] ["error"]
      else
      let ans = run_history (ver_z ver) (z_of_int kind) raw rep e ops in
      ok_v (List.map zs ans) (hist_tags args @ (if kind = 1 then ["generator"] else []))

let () =
  List.iter (fun prop -> reg prop "Hist" views_hist_handler)
    ["C04"; "C07"; "C17"; "C13"; "C06"; "C14"]
(* the same histories under another operation name where "Hist" is taken by the Positions histories *)
let () = List.iter (fun prop -> reg prop "VHist" views_hist_handler) ["C14"; "C18"]

(* C05: Conc <base> g nops_1 op.. nops_2 op.. => ntok_1 answers_1 ...  - every goroutine must get its sequential answers *)
let () = reg "C05" "Conc" (fun ver args _obs ->
  let a = mk args in
  let kind = kind_code (next a) in
  let raw = next_list a next_z in
  let rep = next_list a next_z in
  let e = next_z a in
  let g = next_int a in
  let model = ref [] in
  for _ = 1 to g do
    let ops = parse_hops a in
    let ans = run_history (ver_z ver) (z_of_int kind) raw rep e ops in
    model := !model @ (string_of_int (List.length ans) :: List.map zs ans)
  done;
  ok_v !model ["concurrent"; "g" ^ string_of_int g])
