open Model
open Driver_base

(* C05 / C06: validation of event traces recorded from the real numberspec.go (sync redirected to the deterministic
   scheduler) against the transition system of Conc.v.
     C05 <id> <ver> Trace <srclen> <B> : <events> =>
   events: G g | L g | U g | W g | R g | S g | B g | I g x | C g index | T g index len ok     (g = 0: the producer;
   C / T: one memoizer.wait call of a reader and its return) *)
let k_chunks = 1000

let () = reg "C05" "Trace" (fun ver args _obs ->
  let a = mk args in
  let srclen = next_int a in
  let b = next_int a in
  let _colon = next a in
  let valid = (fun k -> srclen < 0 || int_of_nat k < srclen) in
  let bn = nat_of_int b and kn = nat_of_int k_chunks in
  let st = ref conc_init in
  let problem = ref None in
  let nev = ref 0 in
  let who g = if g = 0 then P else R (nat_of_int (g - 1)) in
  let rec apply thread l budget =
    match exec_step bn kn valid !st l with
    | Some s' -> st := s'; true
    | None ->
      if budget = 0 then false
      else (match exec_step bn kn valid !st (LTau thread) with
            | Some s' -> st := s'; apply thread l (budget - 1)
            | None -> false) in
  let fail ev why = if !problem = None then problem := Some (Printf.sprintf "event %d (%s): %s" !nev ev why) in
  (try
    while not (at_end a) && !problem = None do
      incr nev;
      let k = next a in
      let g = next_int a in
      (match k with
       | "G" -> ()
       | "L" -> if not (apply (who g) (LLock (who g)) 2) then fail (k ^ " " ^ string_of_int g) "Lock not possible in the model state"
       | "U" -> if g = 0 then (if not (apply P (LUnlock P) 2) then fail "U 0" "producer Unlock not possible in the model state")
       | "W" -> if not (apply (who g) (LPark (who g)) 2) then fail (k ^ " " ^ string_of_int g) "Wait not possible: the model's wake-up condition already holds or the thread does not hold the lock"
       | "R" -> if not (apply (who g) (LResume (who g)) 2) then fail (k ^ " " ^ string_of_int g) "re-lock of a thread the model has not woken"
       | "S" -> if g = 0 then fail "S 0" "the producer signals (the model broadcasts)"
                else if not (apply (who g) (LSignal (nat_of_int (g - 1))) 2) then fail (k ^ " " ^ string_of_int g) "Signal without raising the demand"
       | "B" -> if g <> 0 then fail (k ^ " " ^ string_of_int g) "a reader broadcasts"
                else if not (apply P LBroadcast 2) then fail "B 0" "Broadcast outside setData"
       | "I" -> let x = next_int a in
                let ok = if ver = "v3" then (x >= 0 && x <= 9) else x <> -1 in
                if g <> 0 then fail "I" "the digit source is consulted by a goroutine other than the producer"
                else if not (apply P (LIter ok) 2) then fail (Printf.sprintf "I %d" x) "source call not possible in the model state (order / count / after the end)"
       | "C" -> let p = next_int a in
                if not (apply (who g) (LCall (nat_of_int (g - 1), nat_of_int p)) 0) then fail "C" "call while a call is pending"
       | "T" -> let p = next_int a in let len = next_int a in let ok = next_int a in
                if not (apply (who g) (LReturn (nat_of_int (g - 1), nat_of_int p, nat_of_int len, ok = 1)) 2)
                then fail (Printf.sprintf "T %d %d %d %d" g p len ok)
                       (Printf.sprintf "return not possible: the model has published %d digits / wrong ok flag / no such pending call" (int_of_nat (conc_dlen !st)))
       | _ -> fail k "unknown event")
    done
  with Exhausted | Failure _ -> fail "?" "malformed trace");
  { model = []; tags = ["trace"]; spec = !problem; known = None })

(* Par <prop> <op> <args..>: the case <prop>/<op> run from several goroutines at once must give its sequential observation *)
let par_handler prop = reg prop "Par" (fun ver args obs ->
  match args with
  | prop :: op :: rest ->
    (match obs with
     | "PARMISMATCH" :: _ -> { model = ["same-observation-in-every-goroutine"]; tags = ["parallel"]; spec = Some "the same call made from several goroutines at once gave different results"; known = None }
     | _ ->
       (match Hashtbl.find_opt handlers (prop ^ "/" ^ op) with
        | Some h -> let v = h ver rest obs in { v with tags = "parallel" :: v.tags; known = None }
        | None -> { model = []; tags = []; spec = Some ("no handler for " ^ prop ^ "/" ^ op); known = None }))
  | _ -> { model = []; tags = []; spec = Some "malformed Par case"; known = None })
(* Par2 <prop> <op> <nA> <argsA..> <argsB..>: two different cases at the same time; the first one's observation is checked *)
let rec take_n n l = if n = 0 then [] else (match l with x :: r -> x :: take_n (n - 1) r | [] -> [])
let par2_handler prop0 = reg prop0 "Par2" (fun ver args obs ->
  match args with
  | prop :: op :: na :: rest ->
    (match obs with
     | "PARMISMATCH" :: _ -> { model = ["the-observation-of-the-call-made-alone"]; tags = ["parallel2"]; spec = Some "a call made while a different call was running on another goroutine gave a different result than alone"; known = None }
     | _ ->
       (match Hashtbl.find_opt handlers (prop ^ "/" ^ op) with
        | Some h -> let v = h ver (take_n (int_of_string na) rest) obs in { v with tags = "parallel2" :: v.tags; known = None }
        | None -> { model = []; tags = []; spec = Some ("no handler for " ^ prop ^ "/" ^ op); known = None }))
  | _ -> { model = []; tags = []; spec = Some "malformed Par2 case"; known = None })
(* SharedPos <print case>: one Positions value shared by concurrent prints; the text is that of Sprint on the case *)
let () = reg "C05" "SharedPos" (fun ver args obs ->
  match obs with
  | "PARMISMATCH" :: _ -> { model = ["the-sequential-text"]; tags = ["shared-positions"]; spec = Some "prints sharing one Positions value at the same time gave a different text than a print with its own Positions"; known = None }
  | _ ->
    (match Hashtbl.find_opt handlers "C10/Sprint" with
     | Some h -> let v = h ver args obs in { v with tags = "shared-positions" :: v.tags; known = None }
     | None -> { model = []; tags = []; spec = Some "no handler for C10/Sprint"; known = None }))
let () = par2_handler "C05"
let () = par2_handler "C08"
let () = par_handler "C05"
let () = par_handler "C16"
