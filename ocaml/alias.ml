open Model
open Driver_base

(* C14: the answers must be those of the data as it was when the library received it *)
let alias_ctor prop = reg prop "AliasCtor" (fun ver args obs ->
  let a = mk args in
  let ctor = next a in let num = next a in let den = next a in
  let when_ = next_int a in let _n2 = next a in let _d2 = next a in let depth = next a in
  match obs with
  | intact :: rest ->
    let (v, _) = Roots.root_handler ctor ver [num; den; depth] rest in
    let spec = if intact <> "1" then Some "the library modified a reference-typed argument"
               else (match v.spec with Some m -> Some ("after the caller's mutation: " ^ m) | None -> None) in
    { model = "1" :: v.model; tags = ["when" ^ string_of_int when_]; spec; known = None }
  | [] -> { model = []; tags = []; spec = Some "malformed observation"; known = None })

let () = alias_ctor "C14"
let () = alias_ctor "C13"

let () = reg "C14" "AliasPat" (fun ver args _obs ->
  let a = mk args in
  let fn = next_int a in
  let raw = next_list a next_z in
  let pat = next_list a next_z in
  let _pat2 = next_list a next_z in
  let when_ = next_int a in
  ignore ver;
  let lo = Z0 in
  let fwd = (fn = 0 || fn = 2) in
  let res = (match find_model (z_of_int (if fwd then 2 else 8)) (z_of_string "-1") pat lo raw with Some l -> l | None -> []) in
  ok_v (string_of_int (List.length res) :: List.map zs res) ["pattern"; "when" ^ string_of_int when_])

let () = reg "C14" "AliasTest" (fun _ver args _obs ->
  let a = mk args in
  let fixed = next_list a next_z in
  let rep = next_list a next_z in
  let e = next_z a in
  let n = List.length fixed + 2 * List.length rep + 3 in
  let ops = List.init n (fun p -> HAT (O, z_of_int p)) in
  let ans = run_history (z_of_int 3) Z0 fixed rep e ops in
  ok_v (string_of_int n :: List.map zs ans) ["slices"])

(* AliasList <T|F> nfixed.. nrep.. exp when => digits: the digits are those given at the call, whatever the caller
   does to its slices afterwards *)
let alias_list prop = reg prop "AliasList" (fun _ver args obs ->
  let a = mk args in
  let ctor = next a in
  let fixed = next_list a next_z in
  let rep = next_list a next_z in
  let e = next_z a in
  let when_ = next_int a in
  if obs = ["ERR"] then { model = ["digits"]; tags = []; spec = Some "valid digit lists rejected"; known = None } else
  let n = if rep <> [] then 230 else List.length fixed + 2 * List.length rep + 3 in
  let ops = List.init n (fun p -> HAT (O, z_of_int p)) in
  let ans = run_history (z_of_int 3) Z0 fixed rep e ops in
  ok_v (string_of_int n :: List.map zs ans) ["slices"; "ctor" ^ ctor; "when" ^ string_of_int when_])
let () = alias_list "C14"
let () = alias_list "C13"

(* builder reuse: as C11 *)
let () = (match Hashtbl.find_opt handlers "C11/Hist" with
  | Some h -> reg "C14" "Hist" (fun ver args obs -> let v = h ver args obs in { v with known = None })   (* Add(MaxInt) is C11's finding, not an aliasing matter *)
  | None -> ())
