open Driver_base

let split_line line =
  (* "<prop> <id> <ver> <op> args.. => obs.." *)
  let toks = String.split_on_char ' ' line |> List.filter (fun s -> s <> "") in
  let rec go acc = function
    | "=>" :: rest -> (List.rev acc, rest)
    | x :: rest -> go (x :: acc) rest
    | [] -> (List.rev acc, []) in
  go [] toks

let () =
  let n_ok = ref 0 and n_diff = ref 0 and n_spec = ref 0 and n_skip = ref 0 and n_known = ref 0 in
  (try
    while true do
      let line = input_line stdin in
      let (lhs, obs) = split_line line in
      match lhs with
      | prop :: _id :: ver :: op :: args ->
        let status, v =
          match Hashtbl.find_opt handlers (prop ^ "/" ^ op) with
          | None -> ("SKIP", { model = []; tags = []; spec = None; known = None })
          | Some h ->
            (try
              let v = h ver args obs in
              (match v.spec with
               | Some _ -> ("SPECFAIL", v)
               | None ->
                 if v.model <> obs then ("DIFF", v)
                 else (match v.known with Some _ -> ("KNOWN", v) | None -> ("OK", v)))
            with e -> ("DIFF", { model = ["MODEL-EXCEPTION"; Printexc.to_string e]; tags = []; spec = None; known = None })) in
        (match status with
         | "OK" -> incr n_ok | "DIFF" -> incr n_diff | "SPECFAIL" -> incr n_spec | "KNOWN" -> incr n_known | _ -> incr n_skip);
        Printf.printf "%s\t%s\t%s\t%s\t%s\n" status line (String.concat " " v.model) (String.concat "," v.tags)
          (match v.spec, v.known with Some m, _ -> m | None, Some k -> k | _ -> "")
      | _ -> ()
    done
  with End_of_file -> ());
  Printf.eprintf "ok=%d diff=%d specfail=%d known=%d skip=%d\n" !n_ok !n_diff !n_spec !n_known !n_skip
