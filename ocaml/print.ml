open Model
open Driver_base

(* C10: Sprint T nraw.. nrep.. exp ws we nrng (s e)* R C show missing lead trail fn => n codepoints.. *)
type pargs = { ver : string; kind : int; raw : z list; rep : z list; e : z; ws : z; we : z; rng : (z * z) list;
               o : popts; fn : int }

let parse_print ver a =
  let kind = Hist.kind_code (next a) in
  let raw = next_list a next_z in
  let rep = next_list a next_z in
  let e = next_z a in
  let ws = next_z a in let we = next_z a in
  let rng = next_list a (fun a -> let s = next_z a in let e = next_z a in (s, e)) in
  let r = next_z a in let c = next_z a in
  let show = next a = "1" in
  let missing = next_z a in
  let lead = next a = "1" in
  let trail = next a = "1" in
  let fn = next_int a in
  { ver; kind; raw; rep; e; ws; we; rng;
    o = { o_R = r; o_C = c; o_show = show; o_missing = missing; o_lead = lead; o_trail = trail }; fn }

let is_neg = function Zneg _ -> true | _ -> false

let window p =
  let (v, d) = hist_base (Hist.ver_z p.ver) (z_of_int p.kind) p.raw p.rep p.e in
  let v = if is_neg p.ws then v else with_start v p.ws in
  let v = if is_neg p.we then v else with_end v p.we in
  (v, d)

let print_points p =
  let (v, d) = window p in
  if p.fn = 1 then swrite p.o d v else sprint p.o d v p.rng

let sprint_handler prop = reg prop "Sprint" (fun ver args _obs ->
  let p = parse_print ver (mk args) in
  let pts = print_points p in
  let (v, d) = window p in
  let shown = if p.fn = 1 then [] else shown_of d v (positions_of p.rng) in
  let tags =
    (if List.exists (fun c -> c = z_of_int 10) pts then ["rows"] else [])
    @ (if List.length shown > 0 then ["shown"] else [])
    @ (if p.fn = 1 then ["swrite"] else [])
    @ (if List.length p.rng >= 2 then ["gaps"] else []) in
  let v' = ok_v (string_of_int (List.length pts) :: List.map zs pts) tags in
  if not (asc_b Z0 shown) then { v' with spec = Some "model precondition: shown pairs are not ascending" } else v')
let () = sprint_handler "C10"
let () = sprint_handler "C14"
