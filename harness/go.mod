module verif/harness

go 1.23.0

require (
	github.com/keep94/sqroot v0.0.0
	github.com/keep94/sqroot/v2 v2.0.0
	github.com/keep94/sqroot/v3 v3.0.0
)

require (
	github.com/keep94/consume2 v0.6.0 // indirect
	github.com/keep94/itertools v0.3.0 // indirect
)

replace github.com/keep94/sqroot => /repo

replace github.com/keep94/sqroot/v2 => /repo/v2

replace github.com/keep94/sqroot/v3 => /repo/v3
