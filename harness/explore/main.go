// explore: schedule exploration of the real memoizer (numberspec.go of one module version, with sync and the go
// statement redirected to vsyncx) for small programs of concurrent readers.
//
//	explore -ver v3 -src 150 -prog "50;150" -mode dfs -limit 200000 -traces 40 -seed 1
//
// -src N: the Number has N digits (digit at position p is 1 + p%9), -1: endless. -prog: readers separated by ';',
// each a list of operations separated by ',':  P = At(P);  sAxK = forward traversal of WithStart(A) stopped after K
// items (v3 All() with break, v1 FullIterator, v2 Iterator);  bE = complete backward traversal of WithEnd(E).
// Every memoizer.wait call of every operation is an event pair (C g index / T g index len ok) emitted by the
// instrumented copy. Output: TRACE lines (a sample of schedules with their event
// traces, for validation against the Coq transition system), DEADLOCK / WRONG / PANIC lines with the schedule,
// and one SUMMARY line.
package main

import (
	"flag"
	"fmt"
	"os"
	"strconv"
	"strings"

	v1 "github.com/keep94/sqroot"
	v2 "github.com/keep94/sqroot/v2"
	v3 "github.com/keep94/sqroot/v3"
	"vsyncx"
)

type gen struct{ n int }

func (g gen) source() func() int {
	i := 0
	return func() int {
		if g.n >= 0 && i >= g.n {
			i++
			return -1
		}
		d := 1 + i%9
		i++
		return d
	}
}

func (g gen) Generate() (func() int, int) { return g.source(), 1 }

func expected(srcLen, p int) int {
	if p < 0 || (srcLen >= 0 && p >= srcLen) {
		return -1
	}
	return 1 + p%9
}

// one reader operation
type op struct {
	kind string // "at", "fwd", "bwd"
	a, k int
}

func (o op) String() string {
	switch o.kind {
	case "at":
		return strconv.Itoa(o.a)
	case "fwd":
		return fmt.Sprintf("s%dx%d", o.a, o.k)
	}
	return fmt.Sprintf("b%d", o.a)
}

// expectedOp: the sequential answer, flattened
func expectedOp(srcLen int, o op) []int {
	switch o.kind {
	case "at":
		return []int{expected(srcLen, o.a)}
	case "fwd":
		var out []int
		for p := max(o.a, 0); len(out) < 2*o.k && expected(srcLen, p) != -1; p++ {
			out = append(out, p, expected(srcLen, p))
		}
		return out
	}
	var out []int
	hi := o.a
	if srcLen >= 0 && srcLen < hi {
		hi = srcLen
	}
	for p := hi - 1; p >= 0; p-- {
		out = append(out, p, expected(srcLen, p))
	}
	return out
}

type number interface{ do(o op) []int }

type num1 struct{ n *v1.Number }
type num2 struct{ n *v2.Number }
type num3 struct{ n v3.Number }

func (x num1) do(o op) []int {
	switch o.kind {
	case "at":
		return []int{x.n.At(o.a)}
	case "fwd":
		var out []int
		it := x.n.WithStart(o.a).FullIterator()
		for len(out) < 2*o.k {
			d, ok := it()
			if !ok {
				break
			}
			out = append(out, d.Position, d.Value)
		}
		return out
	}
	var out []int
	it := x.n.WithEnd(o.a).FullReverse()
	for d, ok := it(); ok; d, ok = it() {
		out = append(out, d.Position, d.Value)
	}
	return out
}

func (x num2) do(o op) []int {
	switch o.kind {
	case "at":
		return []int{x.n.At(o.a)}
	case "fwd":
		var out []int
		it := x.n.WithStart(o.a).Iterator()
		for len(out) < 2*o.k {
			d, ok := it()
			if !ok {
				break
			}
			out = append(out, d.Position, d.Value)
		}
		return out
	}
	var out []int
	it := x.n.WithEnd(o.a).Reverse()
	for d, ok := it(); ok; d, ok = it() {
		out = append(out, d.Position, d.Value)
	}
	return out
}

func (x num3) do(o op) []int {
	switch o.kind {
	case "at":
		return []int{x.n.At(o.a)}
	case "fwd":
		var out []int
		if o.k == 0 {
			return out
		}
		for p, d := range x.n.WithStart(o.a).All() {
			out = append(out, p, d)
			if len(out) >= 2*o.k {
				break
			}
		}
		return out
	}
	var out []int
	for p, d := range x.n.WithEnd(o.a).Backward() {
		out = append(out, p, d)
	}
	return out
}

func newNumber(ver string, srcLen int) number {
	switch ver {
	case "v1":
		return num1{v1.VerifNewNumber(gen{srcLen}.source(), 1)}
	case "v2":
		return num2{v2.VerifNewNumber(gen{srcLen}.source(), 1)}
	}
	return num3{v3.NewNumber(gen{srcLen})}
}

type runResult struct {
	made, alts []int
	verdict    string
	results    [][][]int
	trace      []string
}

func run(ver string, srcLen int, prog [][]op, prefix []int, rnd func(n int) int) runResult {
	s := vsyncx.New()
	n := newNumber(ver, srcLen)
	res := runResult{results: make([][][]int, len(prog))}
	for i, calls := range prog {
		i, calls := i, calls
		var g *vsyncx.G
		g = vsyncx.Go(func() {
			for _, o := range calls {
				res.results[i] = append(res.results[i], n.do(o))
			}
		})
		g.Reader = true
	}
	step := 0
	res.verdict = s.Run(func(k int) int {
		c := 0
		if step < len(prefix) {
			c = prefix[step]
		} else if rnd != nil {
			c = rnd(k)
		}
		if c >= k {
			c = k - 1
		}
		res.made = append(res.made, c)
		res.alts = append(res.alts, k)
		step++
		return c
	})
	res.trace = s.Trace
	s.Abort()
	return res
}

func parseProg(s string) [][]op {
	bad := func() {
		fmt.Fprintln(os.Stderr, "bad program", s)
		os.Exit(2)
	}
	var prog [][]op
	for _, r := range strings.Split(s, ";") {
		var calls []op
		for _, c := range strings.Split(r, ",") {
			c = strings.TrimSpace(c)
			if c == "" {
				continue
			}
			switch c[0] {
			case 's':
				parts := strings.Split(c[1:], "x")
				if len(parts) != 2 {
					bad()
				}
				a, e1 := strconv.Atoi(parts[0])
				k, e2 := strconv.Atoi(parts[1])
				if e1 != nil || e2 != nil {
					bad()
				}
				calls = append(calls, op{"fwd", a, k})
			case 'b':
				e, err := strconv.Atoi(c[1:])
				if err != nil {
					bad()
				}
				calls = append(calls, op{"bwd", e, 0})
			default:
				v, err := strconv.Atoi(c)
				if err != nil {
					bad()
				}
				calls = append(calls, op{"at", v, 0})
			}
		}
		prog = append(prog, calls)
	}
	return prog
}

func eqInts(a, b []int) bool {
	if len(a) != len(b) {
		return false
	}
	for i := range a {
		if a[i] != b[i] {
			return false
		}
	}
	return true
}

func ints(a []int) string {
	s := make([]string, len(a))
	for i, x := range a {
		s[i] = strconv.Itoa(x)
	}
	return strings.Join(s, ",")
}

func main() {
	ver := flag.String("ver", "v3", "module version")
	src := flag.Int("src", 150, "digits of the Number (-1: endless)")
	progS := flag.String("prog", "50;150", "reader programs")
	mode := flag.String("mode", "dfs", "dfs | random")
	limit := flag.Int("limit", 100000, "maximum number of schedules")
	ntraces := flag.Int("traces", 30, "number of traces to print for validation")
	seed := flag.Uint64("seed", 1, "seed of the random mode")
	replay := flag.String("replay", "", "comma separated schedule to replay (prints its trace)")
	flag.Parse()
	prog := parseProg(*progS)
	id := fmt.Sprintf("%s %d %s", *ver, *src, strings.ReplaceAll(*progS, " ", ""))
	check := func(r runResult) string {
		if r.verdict != "" {
			return r.verdict
		}
		for i, calls := range prog {
			for j, o := range calls {
				if want := expectedOp(*src, o); !eqInts(r.results[i][j], want) {
					return fmt.Sprintf("WRONG reader %d op %s = %v, want %v", i, o, r.results[i][j], want)
				}
			}
		}
		return ""
	}
	if *replay != "" {
		var pre []int
		for _, c := range strings.Split(*replay, ",") {
			v, _ := strconv.Atoi(c)
			pre = append(pre, v)
		}
		r := run(*ver, *src, prog, pre, nil)
		fmt.Printf("TRACE %s : %s\n", id, strings.Join(r.trace, " "))
		fmt.Println("VERDICT", check(r))
		return
	}
	state := *seed*0x9E3779B97F4A7C15 + 99
	rnd := func(n int) int {
		state += 0x9E3779B97F4A7C15
		z := state
		z = (z ^ (z >> 30)) * 0xBF58476D1CE4E5B9
		z = (z ^ (z >> 27)) * 0x94D049BB133111EB
		z ^= z >> 31
		return int(z % uint64(n))
	}
	var prefix []int
	runs, bad, maxlen, printed, reported := 0, 0, 0, 0, 0
	exhaustive := false
	stride := 1
	for {
		var r runResult
		if *mode == "dfs" {
			r = run(*ver, *src, prog, prefix, nil)
		} else {
			r = run(*ver, *src, prog, nil, rnd)
		}
		runs++
		if len(r.made) > maxlen {
			maxlen = len(r.made)
		}
		if v := check(r); v != "" {
			bad++
			if reported < 3 {
				reported++
				kind := strings.Fields(v)[0]
				kind = strings.TrimSuffix(kind, ":")
				fmt.Printf("%s %s schedule=%s : %s | %s\n", kind, id, ints(r.made), v, strings.Join(r.trace, " "))
			}
		} else if printed < *ntraces && (runs-1)%stride == 0 {
			printed++
			if printed%10 == 0 {
				stride *= 4
			}
			fmt.Printf("TRACE %s : %s\n", id, strings.Join(r.trace, " "))
		}
		if runs >= *limit {
			break
		}
		if *mode == "dfs" {
			k := len(r.made) - 1
			for k >= 0 && r.made[k]+1 >= r.alts[k] {
				k--
			}
			if k < 0 {
				exhaustive = true
				break
			}
			prefix = append(append([]int{}, r.made[:k]...), r.made[k]+1)
		}
	}
	fmt.Printf("SUMMARY %s mode=%s runs=%d bad=%d longest=%d exhaustive=%v\n", id, *mode, runs, bad, maxlen, exhaustive)
}
