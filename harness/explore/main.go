// explore: schedule exploration of the real memoizer (numberspec.go of one module version, with sync and the go
// statement redirected to vsyncx) for small programs of concurrent readers.
//
//	explore -ver v3 -src 150 -prog "50;150" -mode dfs -limit 200000 -traces 40 -seed 1
//
// -src N: the Number has N digits (digit at position p is 1 + p%9), -1: endless. -prog: readers separated by ';',
// each a list of At positions separated by ','. Output: TRACE lines (a sample of schedules with their event
// traces, for validation against the Coq transition system), DEADLOCK / WRONG / PANIC lines with the schedule,
// and one SUMMARY line.
package main

import (
	"flag"
	"fmt"
	"os"
	"strconv"
	"strings"

	v1 "github.com/keep94/sqroot"
	v2 "github.com/keep94/sqroot/v2"
	v3 "github.com/keep94/sqroot/v3"
	"vsyncx"
)

type gen struct{ n int }

func (g gen) source() func() int {
	i := 0
	return func() int {
		if g.n >= 0 && i >= g.n {
			i++
			return -1
		}
		d := 1 + i%9
		i++
		return d
	}
}

func (g gen) Generate() (func() int, int) { return g.source(), 1 }

func expected(srcLen, p int) int {
	if p < 0 || (srcLen >= 0 && p >= srcLen) {
		return -1
	}
	return 1 + p%9
}

type atFn func(p int) int

func newNumber(ver string, srcLen int) atFn {
	switch ver {
	case "v1":
		n := v1.VerifNewNumber(gen{srcLen}.source(), 1)
		return n.At
	case "v2":
		n := v2.VerifNewNumber(gen{srcLen}.source(), 1)
		return n.At
	}
	n := v3.NewNumber(gen{srcLen})
	return n.At
}

type runResult struct {
	made, alts []int
	verdict    string
	results    [][]int
	trace      []string
}

func run(ver string, srcLen int, prog [][]int, prefix []int, rnd func(n int) int) runResult {
	s := vsyncx.New()
	at := newNumber(ver, srcLen)
	res := runResult{results: make([][]int, len(prog))}
	for i, calls := range prog {
		i, calls := i, calls
		var g *vsyncx.G
		g = vsyncx.Go(func() {
			for _, p := range calls {
				vsyncx.Note("C %d %d", vsyncx.CurrentID(), p)
				d := at(p)
				vsyncx.Note("T %d %d %d", vsyncx.CurrentID(), p, d)
				res.results[i] = append(res.results[i], d)
			}
		})
		g.Reader = true
	}
	step := 0
	res.verdict = s.Run(func(k int) int {
		c := 0
		if step < len(prefix) {
			c = prefix[step]
		} else if rnd != nil {
			c = rnd(k)
		}
		if c >= k {
			c = k - 1
		}
		res.made = append(res.made, c)
		res.alts = append(res.alts, k)
		step++
		return c
	})
	res.trace = s.Trace
	s.Abort()
	return res
}

func parseProg(s string) [][]int {
	var prog [][]int
	for _, r := range strings.Split(s, ";") {
		var calls []int
		for _, c := range strings.Split(r, ",") {
			c = strings.TrimSpace(c)
			if c == "" {
				continue
			}
			v, err := strconv.Atoi(c)
			if err != nil {
				fmt.Fprintln(os.Stderr, "bad program", s)
				os.Exit(2)
			}
			calls = append(calls, v)
		}
		prog = append(prog, calls)
	}
	return prog
}

func ints(a []int) string {
	s := make([]string, len(a))
	for i, x := range a {
		s[i] = strconv.Itoa(x)
	}
	return strings.Join(s, ",")
}

func main() {
	ver := flag.String("ver", "v3", "module version")
	src := flag.Int("src", 150, "digits of the Number (-1: endless)")
	progS := flag.String("prog", "50;150", "reader programs")
	mode := flag.String("mode", "dfs", "dfs | random")
	limit := flag.Int("limit", 100000, "maximum number of schedules")
	ntraces := flag.Int("traces", 30, "number of traces to print for validation")
	seed := flag.Uint64("seed", 1, "seed of the random mode")
	replay := flag.String("replay", "", "comma separated schedule to replay (prints its trace)")
	flag.Parse()
	prog := parseProg(*progS)
	id := fmt.Sprintf("%s %d %s", *ver, *src, strings.ReplaceAll(*progS, " ", ""))
	check := func(r runResult) string {
		if r.verdict != "" {
			return r.verdict
		}
		for i, calls := range prog {
			for j, p := range calls {
				if r.results[i][j] != expected(*src, p) {
					return fmt.Sprintf("WRONG reader %d At(%d) = %d, want %d", i, p, r.results[i][j], expected(*src, p))
				}
			}
		}
		return ""
	}
	if *replay != "" {
		var pre []int
		for _, c := range strings.Split(*replay, ",") {
			v, _ := strconv.Atoi(c)
			pre = append(pre, v)
		}
		r := run(*ver, *src, prog, pre, nil)
		fmt.Printf("TRACE %s : %s\n", id, strings.Join(r.trace, " "))
		fmt.Println("VERDICT", check(r))
		return
	}
	state := *seed*0x9E3779B97F4A7C15 + 99
	rnd := func(n int) int {
		state += 0x9E3779B97F4A7C15
		z := state
		z = (z ^ (z >> 30)) * 0xBF58476D1CE4E5B9
		z = (z ^ (z >> 27)) * 0x94D049BB133111EB
		z ^= z >> 31
		return int(z % uint64(n))
	}
	var prefix []int
	runs, bad, maxlen, printed, reported := 0, 0, 0, 0, 0
	exhaustive := false
	stride := 1
	for {
		var r runResult
		if *mode == "dfs" {
			r = run(*ver, *src, prog, prefix, nil)
		} else {
			r = run(*ver, *src, prog, nil, rnd)
		}
		runs++
		if len(r.made) > maxlen {
			maxlen = len(r.made)
		}
		if v := check(r); v != "" {
			bad++
			if reported < 3 {
				reported++
				kind := strings.Fields(v)[0]
				kind = strings.TrimSuffix(kind, ":")
				fmt.Printf("%s %s schedule=%s : %s | %s\n", kind, id, ints(r.made), v, strings.Join(r.trace, " "))
			}
		} else if printed < *ntraces && (runs-1)%stride == 0 {
			printed++
			if printed%10 == 0 {
				stride *= 4
			}
			fmt.Printf("TRACE %s : %s\n", id, strings.Join(r.trace, " "))
		}
		if runs >= *limit {
			break
		}
		if *mode == "dfs" {
			k := len(r.made) - 1
			for k >= 0 && r.made[k]+1 >= r.alts[k] {
				k--
			}
			if k < 0 {
				exhaustive = true
				break
			}
			prefix = append(append([]int{}, r.made[:k]...), r.made[k]+1)
		}
	}
	fmt.Printf("SUMMARY %s mode=%s runs=%d bad=%d longest=%d exhaustive=%v\n", id, *mode, runs, bad, maxlen, exhaustive)
}
