module explore

go 1.23.0

require (
	github.com/keep94/sqroot v0.0.0
	github.com/keep94/sqroot/v2 v2.0.0
	github.com/keep94/sqroot/v3 v3.0.0
	vsyncx v0.0.0
)

replace github.com/keep94/sqroot => @TMP@/repo

replace github.com/keep94/sqroot/v2 => @TMP@/repo/v2

replace github.com/keep94/sqroot/v3 => @TMP@/repo/v3

replace vsyncx => @TMP@/vsync
