module vsyncx

go 1.18
