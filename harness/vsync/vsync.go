// Package vsyncx replaces sync.Mutex, sync.Cond and the go statement of numberspec.go by a deterministic
// cooperative scheduler: exactly one managed goroutine runs at a time; every Lock / Unlock / Wait / Signal /
// Broadcast is a scheduling point at which the driver picks among the enabled goroutines (a Lock or re-lock is
// enabled iff the mutex is free; a parked goroutine is not enabled until signalled), so "nothing enabled while a
// reader is unfinished" is a deadlock by construction. Every scheduling decision and every digit-source call is
// recorded as an event.
package vsyncx

import (
	"fmt"
	rsync "sync"
)

type opKind int

const (
	opStart opKind = iota
	opLock
	opUnlock
	opWait   // atomically: unlock + park
	opRelock // after wake-up: reacquire
	opSignal
	opBroadcast
)

// event letters: L lock, U unlock, W wait (park), R relock, S signal, B broadcast, G goroutine start
var kindName = []string{"G", "L", "U", "W", "R", "S", "B"}

type Locker interface {
	Lock()
	Unlock()
}

type G struct {
	id     int
	grant  chan struct{}
	kind   opKind
	mu     *Mutex
	cond   *Cond
	parked bool
	done   bool
	Reader bool
	Panic  string
}

type Sched struct {
	gs      []*G
	report  chan *G
	Trace   []string
	cur     *G
	aborted bool
	wg      rsync.WaitGroup
}

var S *Sched

// MaxEvents bounds one run: the modelled programs need a few dozen events; a run that goes on is a livelock.
var MaxEvents = 20000

func New() *Sched { S = &Sched{report: make(chan *G)}; return S }

// Note appends a free-form event to the trace (not a scheduling point).
func Note(format string, a ...interface{}) {
	if S != nil && !S.aborted {
		S.Trace = append(S.Trace, fmt.Sprintf(format, a...))
	}
}

// CurrentID is the id of the running managed goroutine (-1 outside).
func CurrentID() int {
	if S == nil || S.cur == nil {
		return -1
	}
	return S.cur.id
}

// Iter wraps one call of the digit source by the producer.
func Iter(f func() int) int {
	x := f()
	Note("I %d %d", CurrentID(), x)
	return x
}

// WaitCall wraps one call of memoizer.wait by a reader: the call and its return (published length, ok flag) are
// events of the trace, not scheduling points.
func WaitCall[T any](f func(int) ([]T, bool), index int) ([]T, bool) {
	id := CurrentID()
	Note("C %d %d", id, index)
	d, ok := f(index)
	o := 0
	if ok {
		o = 1
	}
	Note("T %d %d %d %d", id, index, len(d), o)
	return d, ok
}

func Go(f func()) *G {
	g := &G{id: len(S.gs), grant: make(chan struct{}), kind: opStart}
	S.gs = append(S.gs, g)
	S.wg.Add(1)
	s := S
	go func() {
		defer s.wg.Done()
		<-g.grant
		if s.aborted {
			return
		}
		defer func() {
			if e := recover(); e != nil {
				if _, ok := e.(abortSentinel); ok {
					return // released by Abort
				}
				g.Panic = fmt.Sprint(e)
				g.done = true
				s.report <- g
			}
		}()
		f()
		g.done = true
		s.report <- g
	}()
	return g
}

// abortSentinel unwinds a goroutine that Abort has released (deferred Unlocks re-enter yield and panic again,
// which only continues the unwinding); the wrapper in Go swallows it.
type abortSentinel struct{}

func yield(k opKind, m *Mutex, c *Cond) {
	s := S
	if s == nil {
		return
	}
	if s.aborted {
		panic(abortSentinel{})
	}
	g := s.cur
	g.kind, g.mu, g.cond = k, m, c
	s.report <- g
	<-g.grant
	if s.aborted {
		panic(abortSentinel{})
	}
}

type Mutex struct{ holder *G }

func (m *Mutex) Lock()   { yield(opLock, m, nil) }
func (m *Mutex) Unlock() { yield(opUnlock, m, nil) }

type Cond struct {
	L       Locker
	waiters []*G
}

func NewCond(l Locker) *Cond { return &Cond{L: l} }
func (c *Cond) Wait()        { yield(opWait, c.L.(*Mutex), c) }
func (c *Cond) Signal()      { yield(opSignal, nil, c) }
func (c *Cond) Broadcast()   { yield(opBroadcast, nil, c) }

func (s *Sched) enabled() []*G {
	var out []*G
	for _, g := range s.gs {
		if g.done || g.parked {
			continue
		}
		switch g.kind {
		case opLock, opRelock:
			if g.mu.holder == nil {
				out = append(out, g)
			}
		default:
			out = append(out, g)
		}
	}
	return out
}

// Run executes until every Reader goroutine is done. choose picks an index into the enabled set.
// Returns "" on success or a description of the deadlock / misuse / panic.
func (s *Sched) Run(choose func(n int) int) string {
	for {
		allDone := true
		for _, g := range s.gs {
			if g.Panic != "" {
				return fmt.Sprintf("PANIC in g%d: %s", g.id, g.Panic)
			}
			if g.Reader && !g.done {
				allDone = false
			}
		}
		if allDone {
			return ""
		}
		if len(s.Trace) > MaxEvents {
			return fmt.Sprintf("LIVELOCK: more than %d events without the readers finishing", MaxEvents)
		}
		en := s.enabled()
		if len(en) == 0 {
			msg := "DEADLOCK:"
			for _, g := range s.gs {
				msg += fmt.Sprintf(" g%d[%s parked=%v done=%v]", g.id, kindName[g.kind], g.parked, g.done)
			}
			return msg
		}
		g := en[choose(len(en))]
		s.Trace = append(s.Trace, fmt.Sprintf("%s %d", kindName[g.kind], g.id))
		release := true
		switch g.kind {
		case opLock, opRelock:
			g.mu.holder = g
		case opUnlock:
			if g.mu.holder != g {
				return fmt.Sprintf("UNLOCK of a mutex not held by g%d", g.id)
			}
			g.mu.holder = nil
		case opWait:
			if g.mu.holder != g {
				return fmt.Sprintf("WAIT without holding the mutex by g%d", g.id)
			}
			g.mu.holder = nil
			g.parked = true
			g.cond.waiters = append(g.cond.waiters, g)
			release = false
		case opSignal:
			if len(g.cond.waiters) > 0 {
				w := g.cond.waiters[0]
				g.cond.waiters = g.cond.waiters[1:]
				w.parked, w.kind = false, opRelock
			}
		case opBroadcast:
			for _, w := range g.cond.waiters {
				w.parked, w.kind = false, opRelock
			}
			g.cond.waiters = nil
		}
		if release {
			s.cur = g
			g.grant <- struct{}{}
			<-s.report // the same goroutine reaches its next sync point or finishes
			s.cur = nil
		}
	}
}

// Abort releases every blocked goroutine so that it exits.
func (s *Sched) Abort() {
	s.aborted = true
	for _, g := range s.gs {
		if !g.done {
			g.grant <- struct{}{}
		}
	}
	s.wg.Wait()
}
