package main

import (
	"fmt"
	"strconv"

	v3 "github.com/keep94/sqroot/v3"
)

// C08: Format / String / Exact
//
//	Fmt T nraw.. nrep.. exp wsg flags width prec verb  => n codepoints..     (Sprintf of the directive)
//	Str T .. exp wsg                                    => n codepoints..     (String())
//	Exact T .. exp wsg                                  => n codepoints..     (v3, finite numbers)
//
// wsg >= 0: the number is base.WithSignificant(wsg). flags: bit 0 '-', 1 '+', 2 '#', 3 '0', 4 ' '.
func fmtNumber(c *Case, a *cur) (View, string) {
	kind, raw, rep, exp := parseBase(a)
	wsg := a.int()
	v, _, errs := makeTestNumber(c.Ver, kind, raw, rep, exp)
	if errs != "" {
		return v, errs
	}
	if wsg >= 0 {
		if (wsg+exp)%2 == 0 {
			// the parent has been formatted before the view is derived from it: a view answers for itself
			_ = v.any().(fmt.Stringer).String()
			_ = fmt.Sprintf("%d|%.3f", v.any(), v.any())
		}
		v, _ = v.WithSignificant(wsg)
	}
	return v, ""
}

func (v View) any() interface{} {
	switch v.ver {
	case "v1":
		return v.num1()
	case "v2":
		return v.num2()
	}
	return v.num3()
}

func runFmt(c *Case) []string {
	a := &cur{t: c.Args}
	v, errs := fmtNumber(c, a)
	if errs != "" {
		return []string{errs}
	}
	flags, width, prec, verb := a.int(), a.int(), a.int(), a.int()
	d := "%"
	for i, ch := range []string{"-", "+", "#", "0", " "} {
		if flags&(1<<i) != 0 {
			d += ch
		}
	}
	if width >= 0 {
		d += strconv.Itoa(width)
	}
	if prec >= 0 {
		d += "." + strconv.Itoa(prec)
	}
	d += string(rune(verb))
	return codePoints(fmt.Sprintf(d, v.any()))
}

func runStr(c *Case) []string {
	a := &cur{t: c.Args}
	v, errs := fmtNumber(c, a)
	if errs != "" {
		return []string{errs}
	}
	return codePoints(v.any().(fmt.Stringer).String())
}

func runExact(c *Case) []string {
	a := &cur{t: c.Args}
	v, errs := fmtNumber(c, a)
	if errs != "" {
		return []string{errs}
	}
	f, ok := v.s3.(*v3.FiniteNumber)
	if !ok {
		return []string{"NOTFINITE"}
	}
	return codePoints(f.Exact())
}

func genC08(tier string, r *Rng, emit func(Case)) {
	thorough := tier == "thorough"
	verbs := []int{'f', 'F', 'e', 'E', 'g', 'G', 'v', 'f', 'e', 'g', 'v', 'd', 's', 'x', 'q', 'é', 'z', 'U'}
	exps := []int{-7, -5, -4, -3, -2, -1, 0, 1, 2, 3, 5, 6, 7, 8, 9, 15, 16, 17, 18, 40, -40, 1000, -1000, -63, -64, -65, -100, -140, 64, 100}
	n := 5000
	if thorough {
		n = 500000
	}
	for i := 0; i < n; i++ {
		ver := allVers[i%3]
		var raw, rep []int
		L := 0
		switch r.Intn(6) {
		case 0:
			// the zero number
		case 1, 2:
			L = r.Pick([]int{1, 2, 3, 5, 8, 15, 16, 17, 20, 101, 130})
			raw = randDigits(r, L)
			if r.Intn(3) == 0 { // trailing zeros inside the digit string
				for k := L / 2; k < L; k++ {
					raw[k] = 0
				}
				if L > 0 {
					raw[L-1] = r.Range(1, 9)
				}
			}
		default:
			raw = randDigits(r, r.Intn(6))
			rep = randDigits(r, r.Range(1, 4))
			if r.Intn(4) == 0 {
				rep = []int{9}
			}
			L = -1
		}
		exp := r.Pick(exps)
		if L == 0 && len(rep) == 0 {
			exp = 0 // NewNumberForTesting ignores the exponent of the zero number; keep the case canonical
		}
		var t toks
		t.s("T")
		t.ints(raw)
		t.ints(rep)
		t.i(exp)
		wsg := -1
		if r.Intn(5) == 0 {
			wsg = r.Pick([]int{0, 1, 2, 5, 16, 17, 30})
		}
		t.i(wsg)
		switch r.Intn(12) {
		case 0:
			emit(Case{Ver: ver, Op: "Str", Args: t})
			continue
		case 1:
			if ver == "v3" && (L >= 0 || wsg >= 0) {
				emit(Case{Ver: ver, Op: "Exact", Args: t})
				continue
			}
		}
		flags := 0
		if r.Intn(3) == 0 {
			flags |= 1
		}
		if r.Intn(8) == 0 {
			flags |= 1 << r.Range(1, 4)
		}
		width := -1
		if r.Intn(3) == 0 {
			width = r.Pick([]int{0, 1, 5, 8, 10, 12, 17, 20, 30})
		}
		prec := -1
		if r.Intn(3) != 0 {
			cands := []int{0, 1, 2, 3, 6, 15, 16, 17, 40}
			if exp > -50 && exp < 50 {
				cands = append(cands, exp-1, exp, exp+1)
			}
			if L > 0 {
				cands = append(cands, L-1, L, L+1, L-exp, L-exp+1)
			}
			if exp <= -60 {
				// long runs of zeros after the decimal point
				cands = append(cands, -exp-1, -exp, -exp+1, -exp+3, 63, 64, 65, 75, 100, 130)
			}
			if L < 0 || L > 100 {
				cands = append(cands, 99, 100, 101, 120, 150, 250) // more than one storage block of significant digits
			}
			prec = r.Pick(cands)
			if prec < 0 {
				prec = 0
			}
		}
		t.i(flags)
		t.i(width)
		t.i(prec)
		verb := r.Pick(verbs)
		if r.Intn(6) == 0 {
			// any letter may be tried as a verb (fmt itself handles %T, %p and %w before calling Format)
			verb = r.Pick([]int{'a', 'b', 'c', 'h', 'i', 'j', 'k', 'l', 'm', 'n', 'o', 'r', 't', 'u', 'y',
				'A', 'B', 'C', 'D', 'H', 'I', 'J', 'K', 'L', 'M', 'N', 'O', 'P', 'Q', 'R', 'S', 'V', 'W', 'X', 'Y', 'Z', 'ß', 'É', '0' + 0x1D7CE - '0'})
		}
		t.i(verb)
		emit(Case{Ver: ver, Op: "Fmt", Args: t})
	}
}

// genC08Huge: exponents beyond a million, in the forms whose text stays short (Exact / String / %g / %e print
// 0.ddde+XXXXXXX there; %f is left out: its text would have a million digits).
func genC08Huge(r *Rng, emit func(Case)) {
	for _, exp := range []int{999999, 1000000, 1000001, 2000000, -1000001, 1 << 31} {
		for _, ver := range allVers {
			raw := randDigits(r, r.Pick([]int{1, 3, 17, 20}))
			var t toks
			t.s("T")
			t.ints(raw)
			t.ints(nil)
			t.i(exp)
			t.i(-1)
			emit(Case{Ver: ver, Op: "Str", Args: t})
			if ver == "v3" {
				emit(Case{Ver: ver, Op: "Exact", Args: t})
			}
			for _, verb := range []int{'g', 'e', 'v', 'G'} {
				args := append(append(toks{}, t...), "0", "-1", itoa(r.Pick([]int{-1, 3, 20})), itoa(verb))
				emit(Case{Ver: ver, Op: "Fmt", Args: args})
			}
		}
	}
}

func init() {
	register("C08", func(tier string, r *Rng, emit func(Case)) {
		genC08Huge(r, emit)
		genC08(tier, r, emit)
		genWidePar2(r, emit)
	}, map[string]runner{"Fmt": runFmt, "Str": runStr, "Exact": runExact, "Par2": runPar2})
}
