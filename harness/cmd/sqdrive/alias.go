package main

import (
	"math/big"

	v1 "github.com/keep94/sqroot"
	v2 "github.com/keep94/sqroot/v2"
	v3 "github.com/keep94/sqroot/v3"
)

// C14: caller mutations of reference-typed arguments.
//
//	AliasCtor <ctor> num den when num2 den2 depth  =>  argsIntact obs(digits of num/den)
//	    ctor: a *big.Int / *big.Rat taking constructor; when: 0 mutate right after construction, 1 after reading 1
//	    digit, 2 after reading 150 digits (between blocks), 3 never (control: arguments must be bit-identical after
//	    deep computation). The argument objects are overwritten IN PLACE with num2/den2.
//	AliasPat fn nraw.. npat pat.. npat2 pat2.. when  =>  cnt values..   (pattern slice overwritten in place)
//	AliasTest nfixed.. nrep.. exp  =>  digits (the slices are overwritten after NewNumberForTesting returns)
func runAliasCtor(c *Case) []string {
	a := &cur{t: c.Args}
	ctor := a.next()
	num, den := a.big(), a.big()
	when := a.int()
	num2, den2 := a.big(), a.big()
	depth := a.int()
	onum, oden := new(big.Int).Set(num), new(big.Int).Set(den)
	var rat *big.Rat
	isRat := ctor == "SqrtBigRat" || ctor == "CubeRootBigRat" || ctor == "FromBigRat"
	if isRat {
		rat = new(big.Rat).SetFrac(num, den)
		if depth%4 == 0 {
			// a Rat that is not in lowest terms (its numerator and denominator were set directly): same value
			k := big.NewInt(int64(2 + depth%3*2))
			rat.Num().Mul(rat.Num(), k)
			rat.Denom().Mul(rat.Denom(), k)
		}
		onum, oden = new(big.Int).Set(rat.Num()), new(big.Int).Set(rat.Denom())
	}
	var x Num
	switch c.Ver {
	case "v1":
		switch ctor {
		case "SqrtBigInt":
			x = v1.SqrtBigInt(num)
		case "CubeRootBigInt":
			x = v1.CubeRootBigInt(num)
		case "SqrtBigRat":
			x = v1.SqrtBigRat(rat)
		case "CubeRootBigRat":
			x = v1.CubeRootBigRat(rat)
		default:
			x = v1.NewNumberFromBigRat(rat)
		}
	case "v2":
		switch ctor {
		case "SqrtBigInt":
			x = v2.SqrtBigInt(num)
		case "CubeRootBigInt":
			x = v2.CubeRootBigInt(num)
		case "SqrtBigRat":
			x = v2.SqrtBigRat(rat)
		case "CubeRootBigRat":
			x = v2.CubeRootBigRat(rat)
		default:
			x = v2.NewNumberFromBigRat(rat)
		}
	default:
		switch ctor {
		case "SqrtBigInt":
			x = v3.SqrtBigInt(num)
		case "CubeRootBigInt":
			x = v3.CubeRootBigInt(num)
		case "SqrtBigRat":
			x = v3.SqrtBigRat(rat)
		case "CubeRootBigRat":
			x = v3.CubeRootBigRat(rat)
		default:
			x = v3.NewNumberFromBigRat(rat)
		}
	}
	intact := true
	checkIntact := func() {
		if isRat {
			if rat.Num().Cmp(onum) != 0 || rat.Denom().Cmp(oden) != 0 {
				intact = false
			}
		} else if num.Cmp(onum) != 0 {
			intact = false
		}
	}
	mutate := func() {
		checkIntact()
		if isRat {
			rat.SetFrac(num2, den2)
		} else {
			num.Set(num2)
		}
	}
	switch when {
	case 0:
		mutate()
	case 1:
		x.At(0)
		mutate()
	case 2:
		x.At(149)
		mutate()
	}
	out := observeDigits(x, depth)
	if when == 3 {
		checkIntact()
	}
	var t toks
	t.bool(intact)
	return append(t, out...)
}

func runAliasPat(c *Case) []string {
	a := &cur{t: c.Args}
	fn := a.int()
	raw := a.ints()
	pat := a.ints()
	pat2 := a.ints()
	when := a.int()
	v, _, errs := makeTestNumber(c.Ver, "T", raw, nil, 1)
	if errs != "" {
		return []string{errs}
	}
	orig := append([]int(nil), pat...)
	overwrite := func() {
		for i := range pat {
			if i < len(pat2) {
				pat[i] = pat2[i]
			}
		}
	}
	var res []int
	pullAll := func(it func() int) {
		k := 0
		for {
			if when == 1 && k == 1 {
				overwrite()
			}
			x := it()
			if x == -1 {
				break
			}
			res = append(res, x)
			k++
		}
	}
	switch c.Ver {
	case "v1":
		if fn == 0 {
			it := v1.Find(v.s1, pat)
			if when == 0 {
				overwrite()
			}
			pullAll(it)
		} else {
			it := v1.FindR(v.s1, pat)
			if when == 0 {
				overwrite()
			}
			pullAll(it)
		}
	case "v2":
		if fn == 0 {
			it := v2.Find(v.s2, pat)
			if when == 0 {
				overwrite()
			}
			pullAll(it)
		} else {
			it := v2.FindR(v.s2, pat)
			if when == 0 {
				overwrite()
			}
			pullAll(it)
		}
	default:
		f := v.fin3()
		switch fn {
		case 0:
			it := v3.Find(v.s3, pat)
			if when == 0 {
				overwrite()
			}
			pullAll(it)
		case 1:
			it := v3.FindR(f, pat)
			if when == 0 {
				overwrite()
			}
			pullAll(it)
		case 2:
			m := v3.Matches(v.s3, pat)
			if when == 0 {
				overwrite()
			}
			k := 0
			for x := range m {
				if when == 1 && k == 0 {
					overwrite()
				}
				res = append(res, x)
				k++
			}
		default:
			m := v3.BackwardMatches(f, pat)
			if when == 0 {
				overwrite()
			}
			k := 0
			for x := range m {
				if when == 1 && k == 0 {
					overwrite()
				}
				res = append(res, x)
				k++
			}
		}
	}
	// a search that has returned must not have written to the pattern either
	_ = orig
	var t toks
	t.ints(res)
	return t
}

func runAliasTest(c *Case) []string {
	a := &cur{t: c.Args}
	fixed := a.ints()
	rep := a.ints()
	exp := a.int()
	n, err := v3.NewNumberForTesting(fixed, rep, exp)
	if err != nil {
		return []string{"ERR"}
	}
	for i := range fixed {
		fixed[i] = 9 - fixed[i]
	}
	for i := range rep {
		rep[i] = 9 - rep[i]
	}
	var t toks
	var ds []int
	for p := 0; p < len(fixed)+2*len(rep)+3; p++ {
		ds = append(ds, n.At(p))
	}
	t.ints(ds)
	return t
}

// AliasList <T|F> nfixed.. nrep.. exp when  =>  digits
// v3 NewNumberForTesting (T) / NewFiniteNumber (F, rep empty); the caller's slices are overwritten in place right
// after construction (when 0), after reading one digit (1) or after reading 120 digits (2: between blocks of the
// lazily memoised digits); then every position is read.
func runAliasList(c *Case) []string {
	a := &cur{t: c.Args}
	ctor := a.next()
	fixed := a.ints()
	rep := a.ints()
	exp := a.int()
	when := a.int()
	// both lists are windows of one caller-owned buffer: fixed has spare capacity that runs over a gap into rep
	const guard = 7777
	buf := make([]int, 0, len(fixed)+len(rep)+4)
	buf = append(buf, fixed...)
	buf = append(buf, guard, guard)
	buf = append(buf, rep...)
	buf = append(buf, guard, guard)
	before := append([]int(nil), buf...)
	fixed = buf[:len(fixed)]
	if len(rep) > 0 {
		rep = buf[len(fixed)+2 : len(fixed)+2+len(rep)]
	}
	var n v3.Number
	var err error
	if ctor == "F" {
		var f *v3.FiniteNumber
		f, err = v3.NewFiniteNumber(fixed, exp)
		n = f
	} else {
		n, err = v3.NewNumberForTesting(fixed, rep, exp)
	}
	if err != nil {
		return []string{"ERR"}
	}
	for i := range buf {
		if buf[i] != before[i] {
			return []string{"MODIFIED"} // the constructor wrote to the caller's buffer
		}
	}
	switch when {
	case 1:
		n.At(0)
	case 2:
		for p := 0; p < 120; p++ {
			n.At(p)
		}
	}
	for i := range fixed {
		fixed[i] = 9 - fixed[i]
	}
	for i := range rep {
		rep[i] = 9 - rep[i]
	}
	var t toks
	var ds []int
	upto := len(fixed) + 2*len(rep) + 3
	if len(rep) > 0 {
		upto = 230 // several blocks of the lazily produced digits
	}
	for p := 0; p < upto; p++ {
		ds = append(ds, n.At(p))
	}
	t.ints(ds)
	return t
}

func genAliasList(r *Rng, emit func(Case), n int) {
	for i := 0; i < n; i++ {
		var t toks
		ctor := []string{"T", "F", "F"}[r.Intn(3)]
		t.s(ctor)
		fixed := randDigits(r, r.Pick([]int{1, 2, 6, 8, 99, 100, 101, 150, 250}))
		if fixed[0] == 0 {
			fixed[0] = 1 + r.Intn(9)
		}
		if ctor == "T" && r.Intn(4) == 0 {
			// no fixed part at all: the digits are the repeating block from the start
			t.ints(nil)
			rep := randDigits(r, r.Pick([]int{1, 2, 6, 7}))
			if rep[0] == 0 {
				rep[0] = 1 + r.Intn(9)
			}
			t.ints(rep)
		} else {
			t.ints(fixed)
			if ctor == "T" && r.Bool() {
				t.ints(randDigits(r, r.Range(1, 4)))
			} else {
				t.ints(nil)
			}
		}
		t.i(r.Pick([]int{-2, 0, 3}))
		t.i(r.Intn(3))
		emit(Case{Ver: "v3", Op: "AliasList", Args: t})
	}
}

func genC14(tier string, r *Rng, emit func(Case)) {
	n := 150
	if tier == "thorough" {
		n = 1200
	}
	ctors := []string{"SqrtBigInt", "CubeRootBigInt", "SqrtBigRat", "CubeRootBigRat", "FromBigRat"}
	for i := 0; i < n; i++ {
		ctor := ctors[i%len(ctors)]
		num := big.NewInt(int64(r.Range(1, 5000)))
		den := big.NewInt(1)
		if ctor[len(ctor)-3:] == "Rat" {
			den = big.NewInt(int64(r.Pick([]int{1, 3, 7, 9, 70000, 120, 1000, 13})))
			if r.Bool() {
				den = big.NewInt(int64(r.Range(5001, 90000))) // a value below 1
			}
		}
		if r.Intn(6) == 0 {
			num = r.BigDigits(r.Range(20, 60))
		}
		num2 := []string{"0", "1", "7", "123456789", r.BigDigits(40).String()}[r.Intn(5)]
		den2 := []string{"1", "7", "3", "1000003"}[r.Intn(4)]
		when := r.Intn(4)
		depth := r.Pick([]int{20, 160, 230})
		for _, v := range allVers {
			emit(Case{Ver: v, Op: "AliasCtor", Args: toks{ctor, num.String(), den.String(), itoa(when), num2, den2, itoa(depth)}})
		}
	}
	for i := 0; i < n; i++ {
		raw := make([]int, r.Range(5, 60))
		for k := range raw {
			raw[k] = 1 + r.Intn(2)
		}
		pat := make([]int, r.Range(1, 3))
		for k := range pat {
			pat[k] = 1 + r.Intn(2)
		}
		if r.Intn(3) == 0 && len(raw) > 20 {
			// a long pattern that does occur: a stretch of the text itself
			at := r.Intn(len(raw) - 16)
			pat = append([]int(nil), raw[at:at+r.Pick([]int{8, 9, 10, 12, 16})]...)
		}
		pat2 := make([]int, len(pat))
		for k := range pat2 {
			pat2[k] = 3 - pat[k]
		}
		var t toks
		fn := r.Intn(4)
		t.i(fn)
		t.ints(raw)
		t.ints(pat)
		t.ints(pat2)
		t.i(r.Intn(2))
		for _, v := range allVers {
			if v != "v3" && fn >= 2 {
				continue
			}
			emit(Case{Ver: v, Op: "AliasPat", Args: t})
		}
	}
	for i := 0; i < n/2; i++ {
		var t toks
		t.ints(randDigits(r, r.Range(1, 8)))
		if r.Bool() {
			t.ints(randDigits(r, r.Range(1, 4)))
		} else {
			t.ints(nil)
		}
		t.i(r.Pick([]int{-2, 0, 3}))
		emit(Case{Ver: "v3", Op: "AliasTest", Args: t})
	}
	genAliasList(r, emit, n/2)
	// print calls receive their options as a window of a longer caller-owned slice (runSprint checks behind it)
	k := 0
	generators["C10"]("quick", r, func(c Case) {
		if c.Op == "Sprint" && k < n && r.Intn(6) == 0 {
			k++
			emit(c)
		}
	})
	// views handed out earlier are not altered by deriving further views from them or by reading (C07's histories)
	kv := 0
	generators["C07"]("quick", r, func(c Case) {
		if c.Op == "Hist" && kv < n && r.Intn(8) == 0 {
			kv++
			emit(Case{Ver: c.Ver, Op: "VHist", Args: c.Args})
		}
	})
	// every search entry point with the pattern passed as a window of a longer caller-owned slice (runFind checks the
	// slice around and, for the eager functions, inside the window afterwards)
	for i := 0; i < 2*n; i++ {
		ver := allVers[i%3]
		kind := "T"
		if ver == "v3" && (i/3)%2 == 0 {
			kind = "G" // lazily computed: the digit source runs while the search does
		}
		if t, ok := genFindCase(r, ver, kind); ok {
			emit(Case{Ver: ver, Op: "Find", Args: t})
		}
	}
	// fixed cases: every eager and lazy entry point of v3 on a lazily computed finite Number with patterns that are not
	// palindromes (the digit source watches the caller's slice during the call), and re-runs of one returned iterator
	// after an early stop on a pattern that overlaps itself
	for _, pat := range [][]int{{1, 2}, {3, 1, 2}, {1, 1}, {2, 1, 2, 1}} {
		for _, fn := range []int{0, 1, 2, 3, 4, 7, 8, 9, 10} {
			for _, kind := range []string{"G", "T"} {
				var t toks
				t.s(kind)
				t.ints([]int{1, 1, 1, 1, 2, 1, 2, 1, 3, 1, 2, 1, 1, 2, 3, 1, 1})
				t.ints(nil)
				t.i(1)
				t.i(-1)
				t.i(17 - fn%2) // a bounded view: a finite sequence type also for the generator-backed Number
				t.ints(pat)
				t.i(fn)
				t.i([]int{1, 2, -1}[(fn+len(pat))%3])
				emit(Case{Ver: "v3", Op: "Find", Args: t})
			}
		}
	}
	// Positions handed out earlier are not altered by later use of the builder (same histories as C11)
	generators["C11"]("quick", r, func(c Case) {
		if c.Op == "Hist" && r.Intn(8) == 0 {
			emit(c)
		}
	})
}

func init() {
	register("C14", genC14, map[string]runner{"AliasCtor": runAliasCtor, "AliasPat": runAliasPat, "AliasTest": runAliasTest,
		"AliasList": runAliasList, "Hist": runC11Hist, "Find": runFind, "Sprint": runSprint, "VHist": runHist})
}
