package main

import (
	"fmt"
	"iter"
	"math"
	"math/big"

	v1 "github.com/keep94/sqroot"
	v2 "github.com/keep94/sqroot/v2"
	v3 "github.com/keep94/sqroot/v3"
)

// Num is the version independent view of a Number used by the drivers.
type Num interface {
	IsZero() bool
	Exponent() int
	At(p int) int
}

// makeRoot builds a root or rational Number.
// ctor: Sqrt SqrtRat SqrtBigInt SqrtBigRat CubeRoot CubeRootRat CubeRootBigInt CubeRootBigRat FromBigRat
func makeRoot(ver, ctor string, num, den *big.Int) Num {
	rat := func() *big.Rat { return new(big.Rat).SetFrac(new(big.Int).Set(num), new(big.Int).Set(den)) }
	n := new(big.Int).Set(num)
	switch ver {
	case "v1":
		switch ctor {
		case "Sqrt":
			return v1.Sqrt(num.Int64())
		case "SqrtRat":
			return v1.SqrtRat(num.Int64(), den.Int64())
		case "SqrtBigInt":
			return v1.SqrtBigInt(n)
		case "SqrtBigRat":
			return v1.SqrtBigRat(rat())
		case "CubeRoot":
			return v1.CubeRoot(num.Int64())
		case "CubeRootRat":
			return v1.CubeRootRat(num.Int64(), den.Int64())
		case "CubeRootBigInt":
			return v1.CubeRootBigInt(n)
		case "CubeRootBigRat":
			return v1.CubeRootBigRat(rat())
		case "FromBigRat":
			return v1.NewNumberFromBigRat(rat())
		}
	case "v2":
		switch ctor {
		case "Sqrt":
			return v2.Sqrt(num.Int64())
		case "SqrtRat":
			return v2.SqrtRat(num.Int64(), den.Int64())
		case "SqrtBigInt":
			return v2.SqrtBigInt(n)
		case "SqrtBigRat":
			return v2.SqrtBigRat(rat())
		case "CubeRoot":
			return v2.CubeRoot(num.Int64())
		case "CubeRootRat":
			return v2.CubeRootRat(num.Int64(), den.Int64())
		case "CubeRootBigInt":
			return v2.CubeRootBigInt(n)
		case "CubeRootBigRat":
			return v2.CubeRootBigRat(rat())
		case "FromBigRat":
			return v2.NewNumberFromBigRat(rat())
		}
	default:
		switch ctor {
		case "Sqrt":
			return v3.Sqrt(num.Int64())
		case "SqrtRat":
			return v3.SqrtRat(num.Int64(), den.Int64())
		case "SqrtBigInt":
			return v3.SqrtBigInt(n)
		case "SqrtBigRat":
			return v3.SqrtBigRat(rat())
		case "CubeRoot":
			return v3.CubeRoot(num.Int64())
		case "CubeRootRat":
			return v3.CubeRootRat(num.Int64(), den.Int64())
		case "CubeRootBigInt":
			return v3.CubeRootBigInt(n)
		case "CubeRootBigRat":
			return v3.CubeRootBigRat(rat())
		case "FromBigRat":
			return v3.NewNumberFromBigRat(rat())
		}
	}
	panic("unknown ctor " + ctor)
}

// makeRootShared calls a *big.Int / *big.Rat constructor with the caller's own objects (no copies made here).
func makeRootShared(ver, ctor string, num *big.Int, rat *big.Rat) Num {
	switch ver {
	case "v1":
		switch ctor {
		case "SqrtBigInt":
			return v1.SqrtBigInt(num)
		case "CubeRootBigInt":
			return v1.CubeRootBigInt(num)
		case "SqrtBigRat":
			return v1.SqrtBigRat(rat)
		case "CubeRootBigRat":
			return v1.CubeRootBigRat(rat)
		}
		return v1.NewNumberFromBigRat(rat)
	case "v2":
		switch ctor {
		case "SqrtBigInt":
			return v2.SqrtBigInt(num)
		case "CubeRootBigInt":
			return v2.CubeRootBigInt(num)
		case "SqrtBigRat":
			return v2.SqrtBigRat(rat)
		case "CubeRootBigRat":
			return v2.CubeRootBigRat(rat)
		}
		return v2.NewNumberFromBigRat(rat)
	}
	switch ctor {
	case "SqrtBigInt":
		return v3.SqrtBigInt(num)
	case "CubeRootBigInt":
		return v3.CubeRootBigInt(num)
	case "SqrtBigRat":
		return v3.SqrtBigRat(rat)
	case "CubeRootBigRat":
		return v3.CubeRootBigRat(rat)
	}
	return v3.NewNumberFromBigRat(rat)
}

// exerciseViews reads a bounded view of the Number backward and forward before its digits are observed: reads
// through views and other read paths leave the Number's own digits as they are.
func exerciseViews(x Num, n int) {
	k := n/2 + 1
	switch y := x.(type) {
	case *v1.Number:
		it := y.WithSignificant(k).Reverse()
		for d := it(); d != -1; d = it() {
		}
		y.WithSignificant(k).NumDigits()
		fr := y.WithSignificant(k).FullReverse()
		for _, ok := fr(); ok; _, ok = fr() {
		}
		_ = fmt.Sprintf("%v|%.1f", y.WithSignificant(1), y.WithSignificant(2))
	case *v2.Number:
		it := y.WithSignificant(k).Reverse()
		for _, ok := it(); ok; _, ok = it() {
		}
		_ = fmt.Sprintf("%v|%.1f", y.WithSignificant(1), y.WithSignificant(2))
	case v3.Number:
		for range y.WithSignificant(k).Backward() {
		}
		for range y.WithStart(1).WithEnd(k).Values() {
		}
		// formatting a short view (fewer digits than the exponent, so that the text is padded with zeros)
		for _, j := range []int{1, 2, 3} {
			f := y.WithSignificant(j)
			_ = f.Exact()
			_ = f.String()
			_ = fmt.Sprintf("%.2f|%v|%e", f, f, f)
		}
	}
	if s, ok := x.(fmt.Stringer); ok {
		_ = s.String()
	}
}

// emptyBeyond: forward traversals that start at or after the end L of a finite Number are empty.
func emptyBeyond(x Num, L int) bool {
	for _, st := range []int{L, L + 1, L + 3, L + 250} {
		switch y := x.(type) {
		case *v1.Number:
			if y.IteratorAt(st)() != -1 {
				return false
			}
			if _, ok := y.WithStart(st).FullIterator()(); ok {
				return false
			}
		case *v2.Number:
			if _, ok := y.WithStart(st).Iterator()(); ok {
				return false
			}
		case v3.Number:
			for range y.WithStart(st).All() {
				return false
			}
			if _, ok := y.WithStart(st).Iterator()(); ok {
				return false
			}
		}
	}
	return true
}

// iterateDigits reads up to n digits with the version's forward iterator (v1 FullIterator, v2 Iterator, v3 All);
// positions must be consecutive from 0 (a gap is reported as the digit 98).
func iterateDigits(x Num, n int) (ds []int, ended bool) {
	next := func() (int, int, bool) { return 0, 0, false }
	switch y := x.(type) {
	case *v1.Number:
		it := y.FullIterator()
		next = func() (int, int, bool) { d, ok := it(); return d.Position, d.Value, ok }
	case *v2.Number:
		it := y.Iterator()
		next = func() (int, int, bool) { d, ok := it(); return d.Position, d.Value, ok }
	case v3.Number:
		nx, stop := iter.Pull2(y.All())
		defer stop()
		next = nx
	}
	for len(ds) < n {
		p, d, ok := next()
		if !ok {
			return ds, true
		}
		if p != len(ds) {
			d = 98
		}
		ds = append(ds, d)
	}
	return ds, false
}

// observeDigits: "Z" for the zero number, else "N exponent k d1..dk ended", reading positions 0..n-1 with At.
func observeDigits(x Num, n int) []string {
	var t toks
	if x.IsZero() {
		t.s("Z")
		t.i(x.Exponent())
		t.i(x.At(0))
		return t
	}
	t.s("N")
	t.i(x.Exponent())
	if n%3 == 1 {
		exerciseViews(x, n)
	}
	var ds []int
	ended := false
	if n%3 == 2 {
		// the same digits through the forward iterator of a fresh Number (nothing memoised yet when it is created)
		ds, ended = iterateDigits(x, n)
	} else {
		for p := 0; p < n; p++ {
			d := x.At(p)
			if d == -1 {
				ended = true
				break
			}
			ds = append(ds, d)
		}
	}
	if ended && (x.At(math.MaxInt) != -1 || x.At(-1) != -1 || x.At(len(ds)) != -1 || x.At(math.MaxInt-1) != -1) {
		ds = append(ds, 99) // positions at or beyond the end of a finite Number, however far, hold no digit
	}
	if ended && !emptyBeyond(x, len(ds)) {
		ds = append(ds, 97) // iterating from a start at or beyond the end delivers nothing
	}
	if y, ok := x.(*v1.Number); ok && ended && y.NumDigits() != len(ds) {
		ds = append(ds, 96) // NumDigits is the number of digits
	}
	t.ints(ds)
	t.bool(ended)
	return t
}
