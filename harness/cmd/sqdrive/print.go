package main

import (
	"fmt"
	"io"
	"os"
	"reflect"
	"strings"
	"sync"

	v1 "github.com/keep94/sqroot"
	v2 "github.com/keep94/sqroot/v2"
	v3 "github.com/keep94/sqroot/v3"
)

// C10: Sprint / Swrite
//
//	Sprint T nraw.. nrep.. exp ws we  nrng (s e)*  R C show missing lead trail fn  => code points of the text
//
// The sequence is base.WithStart(ws).WithEnd(we) (a window; we < 0 means "no WithEnd", ws < 0 "no WithStart");
// fn = 0: Sprint with the Positions built from the AddRange calls (s e)*; fn = 1: v3 Swrite of the window.
type printArgs struct {
	kind     string
	raw, rep []int
	exp      int
	ws, we   int
	rng      [][2]int
	R, C     int
	show     bool
	missing  rune
	lead     bool
	trail    bool
	fn       int
}

func parsePrint(a *cur) printArgs {
	var p printArgs
	p.kind, p.raw, p.rep, p.exp = parseBase(a)
	p.ws, p.we = a.int(), a.int()
	n := a.int()
	for i := 0; i < n; i++ {
		s, e := a.int(), a.int()
		p.rng = append(p.rng, [2]int{s, e})
	}
	p.R, p.C = a.int(), a.int()
	p.show = a.int() == 1
	p.missing = rune(a.int())
	p.lead = a.int() == 1
	p.trail = a.int() == 1
	p.fn = a.int()
	return p
}

func (p printArgs) window(ver string) (View, *Source, string) {
	v, src, errs := makeTestNumber(ver, p.kind, p.raw, p.rep, p.exp)
	if errs != "" {
		return v, nil, errs
	}
	if p.ws >= 0 {
		v = v.WithStart(p.ws)
	}
	if p.we >= 0 {
		v = v.WithEnd(p.we)
	}
	return v, src, ""
}

func opts1(p printArgs, extra ...v1.Option) []v1.Option {
	o := []v1.Option{v1.DigitsPerRow(p.R), v1.DigitsPerColumn(p.C), v1.ShowCount(p.show), v1.MissingDigit(p.missing)}
	if (p.R+p.C)%2 != 0 {
		// the layout is determined by the option values, not by the order in which they are given
		o = []v1.Option{v1.MissingDigit(p.missing), v1.DigitsPerColumn(p.C), v1.ShowCount(p.show), v1.DigitsPerRow(p.R)}
	}
	return append(o, extra...)
}
func opts2(p printArgs, extra ...v2.Option) []v2.Option {
	o := []v2.Option{v2.DigitsPerRow(p.R), v2.DigitsPerColumn(p.C), v2.ShowCount(p.show), v2.MissingDigit(p.missing)}
	if (p.R+p.C)%2 != 0 {
		// the layout is determined by the option values, not by the order in which they are given
		o = []v2.Option{v2.MissingDigit(p.missing), v2.DigitsPerColumn(p.C), v2.ShowCount(p.show), v2.DigitsPerRow(p.R)}
	}
	return append(o, extra...)
}
func opts3(p printArgs, extra ...v3.Option) []v3.Option {
	o := []v3.Option{v3.DigitsPerRow(p.R), v3.DigitsPerColumn(p.C), v3.ShowCount(p.show), v3.MissingDigit(p.missing),
		v3.LeadingDecimal(p.lead), v3.TrailingLF(p.trail)}
	if (p.R+p.C)%2 != 0 {
		o = []v3.Option{v3.TrailingLF(p.trail), v3.MissingDigit(p.missing), v3.DigitsPerColumn(p.C), v3.LeadingDecimal(p.lead),
			v3.ShowCount(p.show), v3.DigitsPerRow(p.R)}
	}
	return append(o, extra...)
}

// guardOpts hands the options over as a window of a longer caller-owned slice (spare capacity of two nil entries)
// and reports afterwards whether the entries behind the window are still untouched.
func guardOpts[T any](opts []T) ([]T, func() bool) {
	n := len(opts)
	buf := make([]T, n+2)
	copy(buf, opts)
	return buf[:n], func() bool {
		return reflect.ValueOf(&buf[n]).Elem().IsZero() && reflect.ValueOf(&buf[n+1]).Elem().IsZero()
	}
}

// feedPositions hands the ranges to a builder in one of three ways (chosen by the ranges themselves, so that it
// replays): as given with AddRange; last to first, short ranges position by position from the top down with Add;
// or first to last with short ranges position by position upwards. The set that is built is the same.
func feedPositions(rng [][2]int, add func(int), addRange func(int, int)) {
	h := 0
	for _, r := range rng {
		h += r[0] + 3*r[1]
	}
	if h < 0 {
		h = -h
	}
	short := func(r [2]int) bool { return r[0] >= 0 && r[1] > r[0] && r[1]-r[0] <= 3 }
	switch h % 3 {
	case 0:
		for _, r := range rng {
			addRange(r[0], r[1])
		}
	case 1:
		for i := len(rng) - 1; i >= 0; i-- {
			if r := rng[i]; short(r) {
				for x := r[1] - 1; x >= r[0]; x-- {
					add(x)
				}
			} else {
				addRange(r[0], r[1])
			}
		}
	default:
		for _, r := range rng {
			if short(r) {
				for x := r[0]; x < r[1]; x++ {
					add(x)
				}
			} else {
				addRange(r[0], r[1])
			}
		}
	}
}

func pos1of(rng [][2]int) v1.Positions {
	var b v1.PositionsBuilder
	feedPositions(rng, func(x int) { b.Add(x) }, func(s, e int) { b.AddRange(s, e) })
	p := b.Build()
	// the builder goes on to build something else: what it built before is a value of its own
	for _, r := range rng {
		b.AddRange(r[0]+7, r[1]+9)
	}
	b.AddRange(1, 3)
	b.Build()
	return p
}
func pos2of(rng [][2]int) v2.Positions {
	var b v2.PositionsBuilder
	feedPositions(rng, func(x int) { b.Add(x) }, func(s, e int) { b.AddRange(s, e) })
	p := b.Build()
	// the builder goes on to build something else: what it built before is a value of its own
	for _, r := range rng {
		b.AddRange(r[0]+7, r[1]+9)
	}
	b.AddRange(1, 3)
	b.Build()
	return p
}
func pos3of(rng [][2]int) v3.Positions {
	var b v3.PositionsBuilder
	feedPositions(rng, func(x int) { b.Add(x) }, func(s, e int) { b.AddRange(s, e) })
	p := b.Build()
	// the builder goes on to build something else: what it built before is a value of its own
	for _, r := range rng {
		b.AddRange(r[0]+7, r[1]+9)
	}
	b.AddRange(1, 3)
	b.Build()
	return p
}

func codePoints(s string) []string {
	var t toks
	rs := []rune(s)
	t.i(len(rs))
	for _, r := range rs {
		t.i(int(r))
	}
	return t
}

// runSharedPos: SharedPos <print case>: ONE Positions value (built from the ranges last to first, so out of order)
// is used by four goroutines printing at the same time, several rounds, without having been used before; every
// text must be the one a print with its own Positions gives (which is returned and checked by the model). A
// Positions value is immutable: using it does not change it.
func runSharedPos(c *Case) []string {
	p := parsePrint(&cur{t: c.Args})
	p.fn = 0
	v, _, errs := p.window(c.Ver)
	if errs != "" {
		return []string{errs}
	}
	rev := func(add func(s, e int)) {
		for i := len(p.rng) - 1; i >= 0; i-- {
			add(p.rng[i][0], p.rng[i][1])
		}
	}
	var ref string
	var print func() string
	fresh := func() {
		switch c.Ver {
		case "v1":
			var b v1.PositionsBuilder
			rev(func(s, e int) { b.AddRange(s, e) })
			pos := b.Build()
			print = func() string { return v1.Sprint(v.s1, pos, opts1(p)...) }
		case "v2":
			var b v2.PositionsBuilder
			rev(func(s, e int) { b.AddRange(s, e) })
			pos := b.Build()
			print = func() string { return v2.Sprint(v.s2, pos, opts2(p)...) }
		default:
			var b v3.PositionsBuilder
			rev(func(s, e int) { b.AddRange(s, e) })
			pos := b.Build()
			print = func() string { return v3.Sprint(v.s3, pos, opts3(p)...) }
		}
	}
	switch c.Ver {
	case "v1":
		ref = v1.Sprint(v.s1, pos1of(p.rng), opts1(p)...)
	case "v2":
		ref = v2.Sprint(v.s2, pos2of(p.rng), opts2(p)...)
	default:
		ref = v3.Sprint(v.s3, pos3of(p.rng), opts3(p)...)
	}
	const g, rounds = 4, 6
	for rd := 0; rd < rounds; rd++ {
		fresh()
		outs := make([]string, g)
		start := make(chan struct{})
		var wg sync.WaitGroup
		for i := 0; i < g; i++ {
			wg.Add(1)
			go func(k int) {
				defer wg.Done()
				defer func() {
					if e := recover(); e != nil {
						outs[k] = "PANIC " + sanitize(fmt.Sprint(e))
					}
				}()
				<-start
				outs[k] = print()
			}(i)
		}
		close(start)
		wg.Wait()
		outs = append(outs, print()) // and once more afterwards
		for _, o := range outs {
			if o != ref {
				return append(append([]string{"PARMISMATCH"}, codePoints(ref)...), append([]string{"|"}, codePoints(o)...)...)
			}
		}
	}
	return codePoints(ref)
}

func runSprint(c *Case) []string {
	p := parsePrint(&cur{t: c.Args})
	v, _, errs := p.window(c.Ver)
	if errs != "" {
		return []string{errs}
	}
	var s string
	intact := func() bool { return true }
	switch c.Ver {
	case "v1":
		o, ok := guardOpts(opts1(p))
		intact = ok
		s = v1.Sprint(v.s1, pos1of(p.rng), o...)
	case "v2":
		o, ok := guardOpts(opts2(p))
		intact = ok
		s = v2.Sprint(v.s2, pos2of(p.rng), o...)
	default:
		o, ok := guardOpts(opts3(p))
		intact = ok
		if p.fn == 1 {
			f := v.fin3()
			if f == nil {
				return []string{"NOTFINITE"}
			}
			s = v3.Swrite(f, o...)
		} else {
			s = v3.Sprint(v.s3, pos3of(p.rng), o...)
		}
	}
	if !intact() {
		return []string{"OPTIONS-MODIFIED"} // the library wrote to the caller's option slice
	}
	out := codePoints(s)
	// Sprint must equal Fprint into a builder with the byte count of the text
	var sb strings.Builder
	var n int
	var err error
	switch c.Ver {
	case "v1":
		n, err = v1.Fprint(&sb, v.s1, pos1of(p.rng), opts1(p)...)
	case "v2":
		n, err = v2.Fprint(&sb, v.s2, pos2of(p.rng), opts2(p)...)
	default:
		if p.fn == 1 {
			n, err = v3.Fwrite(&sb, v.fin3(), opts3(p)...)
		} else {
			n, err = v3.Fprint(&sb, v.s3, pos3of(p.rng), opts3(p)...)
		}
	}
	if sb.String() != s || n != len(s) || err != nil {
		out = append(out, "FPRINT-DIFFERS")
	}
	// Print / Write (standard output) print the same text with the same options
	if len(s)%3 == 0 {
		var pn int
		var perr error
		text := captureStdout(func() {
			switch c.Ver {
			case "v1":
				pn, perr = v1.Print(v.s1, pos1of(p.rng), opts1(p)...)
			case "v2":
				pn, perr = v2.Print(v.s2, pos2of(p.rng), opts2(p)...)
			default:
				if p.fn == 1 {
					pn, perr = v3.Write(v.fin3(), opts3(p)...)
				} else {
					pn, perr = v3.Print(v.s3, pos3of(p.rng), opts3(p)...)
				}
			}
		})
		if text != s || pn != len(s) || perr != nil {
			out = append(out, "PRINT-DIFFERS")
		}
	}
	return out
}

var stdoutMu sync.Mutex

// captureStdout runs f with os.Stdout redirected into a pipe and returns what was written (one capture at a time;
// the driver's own output goes through a writer created from the original os.Stdout).
func captureStdout(f func()) string {
	stdoutMu.Lock()
	defer stdoutMu.Unlock()
	r, w, err := os.Pipe()
	if err != nil {
		return "PIPE-ERROR"
	}
	old := os.Stdout
	os.Stdout = w
	done := make(chan string, 1)
	go func() {
		b, _ := io.ReadAll(r)
		done <- string(b)
	}()
	func() {
		defer func() {
			os.Stdout = old
			w.Close()
		}()
		f()
	}()
	text := <-done
	r.Close()
	return text
}

var missingRunes = []int{'.', '.', '.', '-', '_', 0xB7, 0xD7, 0xFF, 0x100, 0x7FF, 0x800, 0x2588, 0xFFFD, 0x1F600, 0x10FFFF, 0xD800, -1, 0x110000}

func genPrintCase(r *Rng, ver string, thorough bool) toks {
	var t toks
	// sequence
	var raw, rep []int
	L := r.Pick([]int{0, 1, 5, 30, 99, 100, 101, 250})
	if r.Intn(4) == 0 {
		rep = randDigits(r, r.Range(1, 6))
		raw = randDigits(r, r.Intn(20))
		L = -1
	} else {
		raw = randDigits(r, L)
	}
	t.s("T")
	t.ints(raw)
	t.ints(rep)
	t.i(r.Pick([]int{-2, 0, 1, 5}))
	ws, we := -1, -1
	if r.Intn(3) == 0 {
		ws = r.Pick([]int{0, 1, 3, 10, 49, 50, 51, 99, 100, 101})
	}
	if r.Intn(3) == 0 {
		we = r.Pick([]int{0, 1, 7, 50, 99, 100, 101, 120, 260})
	}
	fn := 0
	if ver == "v3" && r.Intn(4) == 0 {
		fn = 1
		if we < 0 && L < 0 {
			we = r.Range(0, 260)
		}
	}
	if L == 0 || (ver == "v3" && len(raw) == 0 && len(rep) == 0) {
		// the zero number; NewNumberForTesting(nil, nil) is fine in every version
	}
	t.i(ws)
	t.i(we)
	// options
	R := r.Pick([]int{-1, 0, 1, 2, 3, 7, 10, 10, 11, 20, 50, 50})
	C := r.Pick([]int{-1, 0, 1, 3, 5, 5, 10, R, R + 1, 50, 60, 75})
	// positions: a few ranges: gaps inside a row, across rows, exactly one row, starting mid-row, far from 0
	nr := r.Pick([]int{0, 1, 1, 2, 2, 3, 4})
	var rng [][2]int
	base := 0
	unit := R
	if unit <= 0 {
		unit = 10
	}
	for i := 0; i < nr; i++ {
		var s int
		switch r.Intn(6) {
		case 0:
			s = base
		case 1:
			s = base + unit // gap of exactly one row
		case 2:
			s = (base/unit + r.Range(1, 3)) * unit // row boundary further on
		case 3:
			s = base + r.Range(1, 2*unit)
		case 4:
			s = r.Pick([]int{0, 1, 9, 10, 11, 95, 99, 100, 101, 990, 999, 1000, 1001})
		default:
			s = r.Range(0, 300)
		}
		ln := r.Pick([]int{1, 1, 2, unit - 1, unit, unit + 1, 2 * unit, r.Range(1, 60)})
		if ln < 1 {
			ln = 1
		}
		e := s + ln
		if r.Intn(12) == 0 {
			s, e = -5, r.Range(-3, 8)
		}
		rng = append(rng, [2]int{s, e})
		base = e
	}
	if L < 0 && we < 0 {
		// infinite window: keep every range end practical
		for i := range rng {
			if rng[i][1] > 1500 {
				rng[i][1] = 1500
			}
		}
	}
	if L >= 0 && r.Intn(8) == 0 {
		// a finite Number and a last range far beyond its digits: nothing is shown there, but the count margin is
		// as wide as the far end demands (6, 7, 8, 10 and 19 characters)
		F := r.Pick([]int{99995, 999990, 1000000, 12345678, 1000000005, MaxInt - 40})
		rng = append(rng, [2]int{F, F + r.Range(1, 12)})
	} else if r.Intn(60) == 0 {
		// digits that far out cost the model's layout (unary arithmetic) the whole distance: 10 000 is the practical limit
		F := r.Pick([]int{9995, 10000})
		rng = append(rng, [2]int{F, F + r.Range(1, 12)})
	}
	t.i(len(rng))
	for _, x := range rng {
		t.i(x[0])
		t.i(x[1])
	}
	t.i(R)
	t.i(C)
	t.bool(r.Intn(3) != 0)
	t.i(r.Pick(missingRunes))
	if ver == "v3" {
		t.bool(r.Bool())
		t.bool(r.Intn(3) == 0)
	} else {
		t.bool(true)
		t.bool(false)
	}
	t.i(fn)
	return t
}

func genC10(tier string, r *Rng, emit func(Case)) {
	n := 4000
	if tier == "thorough" {
		n = 400000
	}
	for i := 0; i < n; i++ {
		ver := allVers[i%3]
		emit(Case{Ver: ver, Op: "Sprint", Args: genPrintCase(r, ver, tier == "thorough")})
	}
}

func init() {
	register("C10", genC10, map[string]runner{"Sprint": runSprint})
}
