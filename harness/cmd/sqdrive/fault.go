package main

import (
	"errors"
	"fmt"
	"io"
	"os"
	"syscall"
	"time"

	v1 "github.com/keep94/sqroot"
	v2 "github.com/keep94/sqroot/v2"
	v3 "github.com/keep94/sqroot/v3"
)

// C12: Fprint / Fwrite to a writer that begins to fail after accepting k bytes.
//
//	Fprint <print case as for Sprint> bufsize mode k  =>  n err calls srccalls nacc byte*
//
// mode 0: error with partial write; 1: error, nothing written by the faulting call; 2: short write without error
// (then errors); 3: error with partial write, then full recovery;
// 4: short write without error even of 0 bytes, then errors (statement only).
type faultWriter struct {
	errv    error
	left    int
	mode    int
	faulted bool
	acc     []byte
	calls   int
}

var errFault = errors.New("injected fault")

// the error values a failing writer may hand back: which one it is does not matter to the printer
var errKinds = []error{errFault, syscall.EPIPE, io.ErrClosedPipe, io.ErrShortWrite, io.EOF, os.ErrClosed, io.ErrUnexpectedEOF,
	fmt.Errorf("write: %w", syscall.EPIPE), &os.PathError{Op: "write", Path: "|1", Err: syscall.EPIPE}, fmt.Errorf("wrapped: %w", io.ErrClosedPipe), syscall.ENOSPC}

func (w *faultWriter) Write(p []byte) (int, error) {
	w.calls++
	if w.faulted {
		if w.mode == 3 {
			w.acc = append(w.acc, p...)
			return len(p), nil
		}
		return 0, w.err()
	}
	if len(p) <= w.left {
		w.left -= len(p)
		w.acc = append(w.acc, p...)
		return len(p), nil
	}
	r := w.left
	switch w.mode {
	case 0, 3:
		w.acc = append(w.acc, p[:r]...)
		w.left = 0
		w.faulted = true
		return r, w.err()
	case 1:
		w.left = 0
		w.faulted = true
		return 0, w.err()
	case 4:
		// a short write without an error also when not a single byte is accepted (k at a write boundary, k = 0);
		// errors afterwards. How many calls the buffering makes after that is not compared (statement only).
		w.acc = append(w.acc, p[:r]...)
		w.left = 0
		w.faulted = true
		return r, nil
	default:
		if r > 0 {
			w.acc = append(w.acc, p[:r]...)
			w.left = 0
			return r, nil
		}
		w.faulted = true
		return 0, w.err()
	}
}

func (w *faultWriter) err() error {
	if w.errv != nil {
		return w.errv
	}
	return errFault
}

func fprintTo(w io.Writer, ver string, p printArgs, v View, size int) (n int, err error) {
	intact := func() bool { return true }
	defer func() {
		if !intact() {
			n = -12345 // the library wrote to the caller's option slice
		}
	}()
	switch ver {
	case "v1":
		o, ok := guardOpts(opts1(p, v1.VerifBufferSize(size)))
		intact = ok
		return v1.Fprint(w, v.s1, pos1of(p.rng), o...)
	case "v2":
		o, ok := guardOpts(opts2(p, v2.VerifBufferSize(size)))
		intact = ok
		return v2.Fprint(w, v.s2, pos2of(p.rng), o...)
	}
	o, ok := guardOpts(opts3(p, v3.VerifBufferSize(size)))
	intact = ok
	if p.fn == 1 {
		return v3.Fwrite(w, v.fin3(), o...)
	}
	return v3.Fprint(w, v.s3, pos3of(p.rng), o...)
}

func runFprint(c *Case) []string {
	a := &cur{t: c.Args}
	p := parsePrint(a)
	size, mode, k := a.int(), a.int(), a.int()
	v, src, errs := p.window(c.Ver)
	if errs != "" {
		return []string{errs}
	}
	if c.Ver == "v3" && p.fn == 1 && v.fin3() == nil {
		return []string{"NOTFINITE"}
	}
	w := &faultWriter{left: k, mode: mode, errv: errKinds[(k+size+mode)%len(errKinds)]}
	n, err := fprintTo(w, c.Ver, p, v, size)
	var t toks
	t.i(n)
	t.bool(err != nil)
	t.i(w.calls)
	calls, _, _ := quiesce(src)
	t.i(calls)
	t.i(len(w.acc))
	for _, b := range w.acc {
		t.i(int(b))
	}
	return t
}

func genC12(tier string, r *Rng, emit func(Case)) {
	caseBudget = 3 * time.Second
	layouts := 70
	if tier == "thorough" {
		layouts = 900
	}
	sizes := []int{1, 2, 3, 5, 16, 64, 0}
	for i := 0; i < layouts; i++ {
		ver := allVers[i%3]
		base := genPrintCase(r, ver, false)
		base[0] = "G" // generator-backed: the digit source is counted
		// fault-free length
		p := parsePrint(&cur{t: base})
		v, _, errs := p.window(ver)
		if errs != "" || (ver == "v3" && p.fn == 1 && v.fin3() == nil) {
			continue
		}
		far := false
		for _, rg := range p.rng {
			far = far || rg[1] > 5000
		}
		if far {
			continue // every fault point of such a layout costs the unary layout model the whole distance
		}
		var sink faultWriter
		sink.left = 1 << 40
		n, _ := fprintTo(&sink, ver, p, v, 0)
		stride := 1
		if n > 120 {
			stride = n/100 + 1
		}
		for k := 0; k <= n+1; k += stride {
			size := sizes[r.Intn(len(sizes))]
			if tier == "thorough" || k < 40 {
				for mode := 0; mode < 4; mode++ {
					args := append(append(toks{}, base...), itoa(size), itoa(mode), itoa(k))
					emit(Case{Ver: ver, Op: "Fprint", Args: args})
				}
			} else {
				args := append(append(toks{}, base...), itoa(size), itoa(r.Intn(5)), itoa(k))
				emit(Case{Ver: ver, Op: "Fprint", Args: args})
			}
		}
	}
}

// genC12Far: infinite sources, a near range and a far one, a fault while the near range is printed: no digit of
// the far range may be consulted afterwards (prompt stop).
func genC12Far(tier string, r *Rng, emit func(Case)) {
	n := 12
	if tier == "thorough" {
		n = 120
	}
	for i := 0; i < n; i++ {
		ver := allVers[i%3]
		var t toks
		t.s("G")
		t.ints(nil)
		t.ints(randDigits(r, r.Range(1, 6)))
		t.i(1)
		t.i(-1)
		t.i(-1)
		far := r.Pick([]int{1500, 2500, 4000})
		t.i(2)
		t.i(0)
		t.i(r.Range(3, 30))
		t.i(far)
		t.i(far + r.Range(1, 20))
		t.i(r.Pick([]int{0, 10, 50}))
		t.i(5)
		t.bool(r.Bool())
		t.i('.')
		t.bool(true)
		t.bool(false)
		t.i(0)
		for _, k := range []int{0, 1, r.Range(2, 20)} {
			args := append(append(toks{}, t...), itoa(r.Pick([]int{1, 2, 16})), itoa(r.Intn(4)), itoa(k))
			emit(Case{Ver: ver, Op: "Fprint", Args: args})
		}
	}
}

// genC12Long: one long contiguous range at the default buffer size: after an early fault the digits consumed are
// bounded by what the default buffer holds, not by the length of the request.
func genC12Long(tier string, r *Rng, emit func(Case)) {
	n := 2
	if tier == "thorough" {
		n = 12
	}
	for i := 0; i < 3*n; i++ {
		ver := allVers[i%3]
		var t toks
		t.s("G")
		t.ints(nil)
		t.ints(randDigits(r, r.Range(1, 6)))
		t.i(1)
		t.i(-1)
		t.i(-1)
		t.i(1)
		t.i(0)
		t.i(r.Pick([]int{6000, 7000, 8000}))
		t.i(r.Pick([]int{0, 10, 50}))
		t.i(r.Pick([]int{0, 5}))
		t.bool(r.Bool())
		t.i('.')
		t.bool(true)
		t.bool(false)
		t.i(0)
		args := append(append(toks{}, t...), "0", itoa(r.Intn(4)), itoa(r.Pick([]int{0, 10, 700})))
		emit(Case{Ver: ver, Op: "Fprint", Args: args})
	}
	// an unbroken run of digits (no rows, no columns: no separator write follows a fault), a small buffer, an early
	// fault, far more digits requested than the read-ahead allowance
	for _, ver := range allVers {
		for mode := 0; mode < 4; mode++ {
			var t toks
			t.s("G")
			t.ints(nil)
			t.ints(randDigits(r, r.Range(1, 6)))
			t.i(1)
			t.i(-1)
			t.i(-1)
			t.i(1)
			t.i(0)
			t.i(2600)
			t.i(0)
			t.i(0)
			t.bool(r.Bool())
			t.i('.')
			t.bool(true)
			t.bool(false)
			t.i(0)
			args := append(append(toks{}, t...), itoa(r.Pick([]int{16, 64})), itoa(mode), itoa(r.Pick([]int{3, 10, 200})))
			emit(Case{Ver: ver, Op: "Fprint", Args: args})
		}
	}
	// faults at and just after the points where the default buffer has filled up (4096 bytes and its multiples),
	// in every failure mode, with and without rows
	for _, ver := range allVers {
		for _, rows := range []int{0, 10, 50} {
			var t toks
			t.s("G")
			t.ints(nil)
			t.ints(randDigits(r, r.Range(1, 6)))
			t.i(1)
			t.i(-1)
			t.i(-1)
			t.i(1)
			t.i(0)
			long := 4700
			if tier == "thorough" {
				long = 9000
			}
			t.i(long)
			t.i(rows)
			t.i(r.Pick([]int{0, 5}))
			t.bool(r.Bool())
			t.i('.')
			t.bool(true)
			t.bool(false)
			t.i(0)
			ks := []int{4096, 4097, 4096 + r.Range(2, 60)}
			if tier == "thorough" {
				ks = append(ks, 4095, 8192, 8193)
				for d := 0; d < 70; d += 3 {
					ks = append(ks, 4098+d, 8194+d)
				}
			}
			for _, k := range ks {
				for mode := 0; mode < 4; mode++ {
					args := append(append(toks{}, t...), "0", itoa(mode), itoa(k))
					emit(Case{Ver: ver, Op: "Fprint", Args: args})
				}
			}
		}
	}
}

// genPrintLazy: prints (no fault) of a few early positions of a LONG bounded view of an endless counted Number:
// nothing beyond the highest shown position (+ read-ahead) is consulted, however long the view is.
func genPrintLazy(tier string, r *Rng, emit func(Case)) {
	n := 9
	if tier == "thorough" {
		n = 90
	}
	for i := 0; i < n; i++ {
		ver := allVers[i%3]
		var t toks
		t.s("G")
		t.ints(nil)
		t.ints(randDigits(r, r.Range(1, 6)))
		t.i(1)
		t.i(r.Pick([]int{-1, 0, 5, 100}))
		t.i(r.Pick([]int{20000, 50000, 300000}))
		t.i(1)
		a := r.Pick([]int{0, 3, 120})
		t.i(a)
		t.i(a + r.Range(1, 40))
		t.i(r.Pick([]int{0, 10, 50}))
		t.i(5)
		t.bool(r.Bool())
		t.i('.')
		t.bool(true)
		t.bool(false)
		t.i(0)
		args := append(append(toks{}, t...), itoa(r.Pick([]int{0, 16})), "0", "1000000")
		emit(Case{Ver: ver, Op: "Fprint", Args: args})
	}
}

// genC12Empty: nothing to print but possibly a line feed (empty views, the zero number, positions beyond the
// digits), to a writer that fails at once in each mode.
func genC12Empty(tier string, r *Rng, emit func(Case)) {
	type win struct {
		raw    []int
		ws, we int
	}
	wins := []win{{[]int{1, 2, 3}, -1, 0}, {[]int{1, 2, 3}, 5, -1}, {nil, -1, -1}, {[]int{4, 5}, 2, 2}, {[]int{7}, -1, -1}}
	for _, ver := range allVers {
		for _, w := range wins {
			for _, lf := range []bool{true, false} {
				for fn := 0; fn < 2; fn++ {
					if fn == 1 && ver != "v3" {
						continue
					}
					var t toks
					t.s("T")
					t.ints(w.raw)
					t.ints(nil)
					t.i(r.Pick([]int{0, 1, 3}))
					t.i(w.ws)
					t.i(w.we)
					t.i(1)
					a := r.Pick([]int{0, 4, 10})
					t.i(a)
					t.i(a + r.Range(1, 5))
					t.i(r.Pick([]int{0, 10}))
					t.i(r.Pick([]int{0, 5}))
					t.bool(r.Bool())
					t.i('.')
					if ver == "v3" {
						t.bool(r.Bool())
						t.bool(lf)
					} else { // no such options before v3: leading decimal point always, never a trailing line feed
						t.bool(true)
						t.bool(false)
					}
					t.i(fn)
					for mode := 0; mode < 5; mode++ {
						for _, k := range []int{0, 1} {
							args := append(append(toks{}, t...), itoa(r.Pick([]int{0, 1, 16})), itoa(mode), itoa(k))
							emit(Case{Ver: ver, Op: "Fprint", Args: args})
						}
					}
				}
			}
		}
	}
}

func init() {
	register("C12", func(tier string, r *Rng, emit func(Case)) {
		genC12Empty(tier, r, emit)
		genPrintLazy(tier, r, emit)
		genC12Long(tier, r, emit)
		genC12Far(tier, r, emit)
		genC12(tier, r, emit)
	}, map[string]runner{"Fprint": runFprint})
}
