package main

import (
	"fmt"
	"math"
	"math/big"
	"strconv"
	"strings"
	"sync"
)

// Rng is splitmix64; every random choice of a run derives from one state.
type Rng struct{ s uint64 }

func NewRng(seed uint64) *Rng { return &Rng{s: seed*0x9E3779B97F4A7C15 + 0x1234567} }

func (r *Rng) U64() uint64 {
	r.s += 0x9E3779B97F4A7C15
	z := r.s
	z = (z ^ (z >> 30)) * 0xBF58476D1CE4E5B9
	z = (z ^ (z >> 27)) * 0x94D049BB133111EB
	return z ^ (z >> 31)
}

// Intn returns a value in [0, n).
func (r *Rng) Intn(n int) int {
	if n <= 0 {
		return 0
	}
	return int(r.U64() % uint64(n))
}

// Range returns a value in [lo, hi].
func (r *Rng) Range(lo, hi int) int { return lo + r.Intn(hi-lo+1) }

func (r *Rng) Bool() bool { return r.U64()&1 == 1 }

func (r *Rng) Pick(xs []int) int { return xs[r.Intn(len(xs))] }

// BigDigits returns a random positive integer with n decimal digits.
func (r *Rng) BigDigits(n int) *big.Int {
	b := make([]byte, n)
	for i := range b {
		b[i] = byte('0' + r.Intn(10))
	}
	if b[0] == '0' {
		b[0] = byte('1' + r.Intn(9))
	}
	z, _ := new(big.Int).SetString(string(b), 10)
	return z
}

const (
	MaxInt = math.MaxInt
	MinInt = math.MinInt
)

func itoa(i int) string { return strconv.Itoa(i) }

func atoi(s string) int {
	v, err := strconv.ParseInt(s, 10, 64)
	if err != nil {
		panic("bad int token " + s)
	}
	return int(v)
}

func atobig(s string) *big.Int {
	z, ok := new(big.Int).SetString(s, 10)
	if !ok {
		panic("bad big token " + s)
	}
	return z
}

// cursor over argument tokens
type cur struct {
	t []string
	i int
}

func (c *cur) next() string {
	if c.i >= len(c.t) {
		panic("args exhausted")
	}
	s := c.t[c.i]
	c.i++
	return s
}
func (c *cur) int() int      { return atoi(c.next()) }
func (c *cur) big() *big.Int { return atobig(c.next()) }
func (c *cur) ints() []int {
	n := c.int()
	if n < 0 {
		return nil
	}
	r := make([]int, n)
	for i := range r {
		r[i] = c.int()
	}
	return r
}

// token builders
type toks []string

func (t *toks) s(x string)   { *t = append(*t, x) }
func (t *toks) i(x int)      { *t = append(*t, strconv.Itoa(x)) }
func (t *toks) b(x *big.Int) { *t = append(*t, x.String()) }
func (t *toks) bool(x bool) {
	if x {
		*t = append(*t, "1")
	} else {
		*t = append(*t, "0")
	}
}
func (t *toks) ints(xs []int) {
	t.i(len(xs))
	for _, x := range xs {
		t.i(x)
	}
}

// runPar: Par <prop> <op> <args..> runs the case <prop>/<op> from 4 goroutines at once, several rounds behind a start
// barrier; every run must give the same observation (the sequential one, which the model checks): printing,
// formatting, searching and constructing are safe to use from several goroutines at the same time.
func runPar(c *Case) []string {
	inner := Case{Prop: c.Args[0], Ver: c.Ver, Op: c.Args[1], Args: c.Args[2:]}
	r, ok := runners[inner.Prop+"/"+inner.Op]
	if !ok {
		return []string{"NOOP"}
	}
	const g, rounds = 4, 8
	outs := make([][]string, g*rounds)
	for rd := 0; rd < rounds; rd++ {
		start := make(chan struct{})
		var wg sync.WaitGroup
		for i := 0; i < g; i++ {
			wg.Add(1)
			go func(k int) {
				defer wg.Done()
				defer func() {
					if e := recover(); e != nil {
						outs[k] = []string{"PANIC", sanitize(fmt.Sprint(e))}
					}
				}()
				cc := inner
				cc.Args = append([]string(nil), inner.Args...)
				<-start
				outs[k] = r(&cc)
			}(rd*g + i)
		}
		close(start)
		wg.Wait()
	}
	for _, o := range outs[1:] {
		if strings.Join(o, " ") != strings.Join(outs[0], " ") {
			return append(append([]string{"PARMISMATCH"}, outs[0]...), append([]string{"|"}, o...)...)
		}
	}
	return outs[0]
}

// runPar2: Par2 <prop> <op> <nA> <argsA..> <argsB..>: two DIFFERENT cases of <prop>/<op> run at the same time (two
// goroutines each, several rounds); each must give the observation it gives when run alone. The observation of the
// first is returned (and checked by the model as usual).
func runPar2(c *Case) []string {
	prop, op := c.Args[0], c.Args[1]
	nA := atoi(c.Args[2])
	argsA, argsB := c.Args[3:3+nA], c.Args[3+nA:]
	r, ok := runners[prop+"/"+op]
	if !ok {
		return []string{"NOOP"}
	}
	run := func(args []string) (out []string) {
		defer func() {
			if e := recover(); e != nil {
				out = []string{"PANIC", sanitize(fmt.Sprint(e))}
			}
		}()
		cc := Case{Prop: prop, Ver: c.Ver, Op: op, Args: append([]string(nil), args...)}
		return r(&cc)
	}
	refA, refB := run(argsA), run(argsB)
	// every goroutine makes its call several times in a row, so that the calls really overlap
	const g, rounds, reps = 4, 8, 10
	outs := make([][]string, g*rounds)
	for rd := 0; rd < rounds; rd++ {
		start := make(chan struct{})
		var wg sync.WaitGroup
		for i := 0; i < g; i++ {
			wg.Add(1)
			go func(k int) {
				defer wg.Done()
				<-start
				args, ref := argsA, refA
				if k%2 == 1 {
					args, ref = argsB, refB
				}
				for j := 0; j < reps; j++ {
					outs[k] = run(args)
					if strings.Join(outs[k], " ") != strings.Join(ref, " ") {
						return
					}
				}
			}(rd*g + i)
		}
		close(start)
		wg.Wait()
	}
	for k, o := range outs {
		ref := refA
		if k%2 == 1 {
			ref = refB
		}
		if strings.Join(o, " ") != strings.Join(ref, " ") {
			return append(append([]string{"PARMISMATCH"}, ref...), append([]string{"|"}, o...)...)
		}
	}
	return refA
}

// genPar2 pairs up a sample of another property's cases (same version, same operation).
func genPar2(r *Rng, emit func(Case), prop string, every, max int) {
	n := 0
	last := map[string]*Case{}
	generators[prop]("quick", r, func(c Case) {
		if n >= max || c.Ver == "all" || r.Intn(every) != 0 {
			return
		}
		if _, ok := runners[prop+"/"+c.Op]; !ok {
			return
		}
		key := c.Ver + "/" + c.Op
		if prev := last[key]; prev != nil {
			n++
			args := append([]string{prop, c.Op, itoa(len(prev.Args))}, prev.Args...)
			emit(Case{Ver: c.Ver, Op: "Par2", Args: append(args, c.Args...)})
			last[key] = nil
			return
		}
		cc := c
		last[key] = &cc
	})
}

// genPar wraps a sample of the cases of other properties' generators (prop -> one in every k cases).
func genPar(r *Rng, emit func(Case), prop string, every, max int) {
	n := 0
	generators[prop]("quick", r, func(c Case) {
		if n >= max || c.Ver == "all" || r.Intn(every) != 0 {
			return
		}
		if _, ok := runners[prop+"/"+c.Op]; !ok {
			return
		}
		n++
		emit(Case{Ver: c.Ver, Op: "Par", Args: append([]string{prop, c.Op}, c.Args...)})
	})
}
