package main

import (
	"math/big"
	"reflect"
	"sync/atomic"

	v1 "github.com/keep94/sqroot"
	v2 "github.com/keep94/sqroot/v2"
	v3 "github.com/keep94/sqroot/v3"
)

// ---- digit sources -------------------------------------------------------

// Source is a scripted digit source: the values of raw, then rep forever; when
// rep is empty it answers -1, and after that "garbage" (7) so that a consumer
// that keeps calling after the end is detected through wrong digits/counts.
type Source struct {
	raw, rep  []int
	calls     int64 // total calls
	afterEnd  int64 // calls made after the end marker was returned
	ended     int32
	inCall    int32
	reentrant int64
	probe     func() // called on every source call (used to observe caller-owned data while the library runs)
}

func (s *Source) next() int {
	if !atomic.CompareAndSwapInt32(&s.inCall, 0, 1) {
		atomic.AddInt64(&s.reentrant, 1)
	} else {
		defer atomic.StoreInt32(&s.inCall, 0)
	}
	k := int(atomic.AddInt64(&s.calls, 1)) - 1
	if s.probe != nil {
		s.probe()
	}
	if atomic.LoadInt32(&s.ended) == 1 {
		atomic.AddInt64(&s.afterEnd, 1)
		return 7
	}
	var v int
	if k < len(s.raw) {
		v = s.raw[k]
	} else if len(s.rep) == 0 {
		v = -1
	} else {
		v = s.rep[(k-len(s.raw))%len(s.rep)]
	}
	if v < 0 || v > 9 {
		atomic.StoreInt32(&s.ended, 1)
	}
	return v
}

type srcGen struct {
	s   *Source
	exp int
}

func (g srcGen) Generate() (func() int, int) { return g.s.next, g.exp }

// ---- version independent views ------------------------------------------

type pullFn func() (pos, val int, ok bool)

// View wraps a Sequence/Number of one version.
type View struct {
	ver string
	s1  v1.Sequence
	s2  v2.Sequence
	s3  v3.Sequence
}

func (v View) num1() *v1.Number { n, _ := v.s1.(*v1.Number); return n }
func (v View) num2() *v2.Number { n, _ := v.s2.(*v2.Number); return n }
func (v View) num3() v3.Number  { n, _ := v.s3.(v3.Number); return n }
func (v View) fin3() v3.FiniteSequence {
	f, _ := v.s3.(v3.FiniteSequence)
	return f
}

func (v View) IsNumber() bool {
	switch v.ver {
	case "v1":
		return v.num1() != nil
	case "v2":
		return v.num2() != nil
	}
	return v.num3() != nil
}

func (v View) WithStart(a int) View {
	switch v.ver {
	case "v1":
		return View{ver: "v1", s1: v.s1.WithStart(a)}
	case "v2":
		return View{ver: "v2", s2: v.s2.WithStart(a)}
	}
	return View{ver: "v3", s3: v.s3.WithStart(a)}
}

func (v View) WithEnd(a int) View {
	switch v.ver {
	case "v1":
		return View{ver: "v1", s1: v.s1.WithEnd(a)}
	case "v2":
		return View{ver: "v2", s2: v.s2.WithEnd(a)}
	}
	return View{ver: "v3", s3: v.s3.WithEnd(a)}
}

// FiniteWithStart exists in v3 on finite types only; v1/v2 fall back to WithStart.
func (v View) FiniteWithStart(a int) (View, bool) {
	if v.ver != "v3" {
		return v.WithStart(a), true
	}
	f := v.fin3()
	if f == nil {
		return v, false
	}
	return View{ver: "v3", s3: f.FiniteWithStart(a)}, true
}

func (v View) WithSignificant(a int) (View, bool) {
	switch v.ver {
	case "v1":
		if n := v.num1(); n != nil {
			return View{ver: "v1", s1: n.WithSignificant(a)}, true
		}
	case "v2":
		if n := v.num2(); n != nil {
			return View{ver: "v2", s2: n.WithSignificant(a)}, true
		}
	default:
		if n := v.num3(); n != nil {
			return View{ver: "v3", s3: n.WithSignificant(a)}, true
		}
	}
	return v, false
}

func (v View) At(p int) int {
	switch v.ver {
	case "v1":
		return v.num1().At(p)
	case "v2":
		return v.num2().At(p)
	}
	return v.num3().At(p)
}

func (v View) ExpZero() (int, bool) {
	switch v.ver {
	case "v1":
		if n := v.num1(); n != nil {
			return n.Exponent(), n.IsZero()
		}
	case "v2":
		if n := v.num2(); n != nil {
			return n.Exponent(), n.IsZero()
		}
	default:
		if n := v.num3(); n != nil {
			return n.Exponent(), n.IsZero()
		}
	}
	return 0, false
}

// Tag: v3 dynamic type (0 *FiniteNumber, 1 *mantissaWithStart, 2 *opqNumber, 3 *opqSequence, 9 unknown) and the
// three assertions; v1/v2: -1 and zeros (types are not part of any property there).
func (v View) Tag() (tag int, fs, pf, nm bool) {
	if v.ver != "v3" {
		return -1, false, false, false
	}
	switch reflect.TypeOf(v.s3).String() {
	case "*sqroot.FiniteNumber":
		tag = 0
	case "*sqroot.mantissaWithStart":
		tag = 1
	case "*sqroot.opqNumber":
		tag = 2
	case "*sqroot.opqSequence":
		tag = 3
	default:
		tag = 9
	}
	_, fs = v.s3.(v3.FiniteSequence)
	_, pf = v.s3.(*v3.FiniteNumber)
	_, nm = v.s3.(v3.Number)
	return
}

func fromDigit1(it func() (v1.Digit, bool)) pullFn {
	return func() (int, int, bool) { d, ok := it(); return d.Position, d.Value, ok }
}
func fromDigit2(it func() (v2.Digit, bool)) pullFn {
	return func() (int, int, bool) { d, ok := it(); return d.Position, d.Value, ok }
}
func fromDigit3(it func() (v3.Digit, bool)) pullFn {
	return func() (int, int, bool) { d, ok := it(); return d.Position, d.Value, ok }
}

// Fwd is the canonical forward pull iterator of the version.
func (v View) Fwd() pullFn {
	switch v.ver {
	case "v1":
		return fromDigit1(v.s1.FullIterator())
	case "v2":
		return fromDigit2(v.s2.Iterator())
	}
	return fromDigit3(v.s3.Iterator())
}

// Bwd is the canonical backward pull iterator (v3: finite types only).
func (v View) Bwd() (pullFn, bool) {
	switch v.ver {
	case "v1":
		return fromDigit1(v.s1.FullReverse()), true
	case "v2":
		return fromDigit2(v.s2.Reverse()), true
	}
	f := v.fin3()
	if f == nil {
		return nil, false
	}
	return fromDigit3(f.Reverse()), true
}

// intsPull adapts v1's func() int iterators (no positions: position reported as -2).
func intsPull(it func() int) pullFn {
	return func() (int, int, bool) {
		d := it()
		if d == -1 {
			return 0, 0, false
		}
		return -2, d, true
	}
}

// RunPush runs a push iterator of v3 (A All, V Values, K Backward), stopping after k items (k < 0: to the end).
// For v1/v2 the same listing is obtained from a fresh pull iterator.
func (v View) RunPush(kind string, k int) (out [][2]int, ok bool) {
	if k == 0 {
		// a push iterator that is created and never run / broken at once
		k = 0
	}
	if v.ver == "v3" {
		switch kind {
		case "A":
			if k == 0 {
				_ = v.s3.All()
				return nil, true
			}
			for p, d := range v.s3.All() {
				out = append(out, [2]int{p, d})
				if k > 0 && len(out) >= k {
					break
				}
			}
			return out, true
		case "V":
			if k == 0 {
				_ = v.s3.Values()
				return nil, true
			}
			for d := range v.s3.Values() {
				out = append(out, [2]int{-2, d})
				if k > 0 && len(out) >= k {
					break
				}
			}
			return out, true
		default:
			f := v.fin3()
			if f == nil {
				return nil, false
			}
			if k == 0 {
				_ = f.Backward()
				return nil, true
			}
			for p, d := range f.Backward() {
				out = append(out, [2]int{p, d})
				if k > 0 && len(out) >= k {
					break
				}
			}
			return out, true
		}
	}
	var it pullFn
	if kind == "K" {
		it, _ = v.Bwd()
	} else {
		it = v.Fwd()
	}
	for k < 0 || len(out) < k {
		p, d, more := it()
		if !more {
			break
		}
		if kind == "V" {
			p = -2
		}
		out = append(out, [2]int{p, d})
	}
	return out, true
}

// RunPushTwice obtains ONE push iterator value (v3) and runs it twice: stopped after k1 items, then again up to k2
// items; re-running an iterator obtained earlier must start from the beginning again. v1/v2 have no push iterators:
// two fresh pull iterations give the same listing.
func (v View) RunPushTwice(kind string, k1, k2 int) (out [2][][2]int, ok bool) {
	if v.ver != "v3" {
		a, ok1 := v.RunPush(kind, k1)
		b, ok2 := v.RunPush(kind, k2)
		return [2][][2]int{a, b}, ok1 && ok2
	}
	collect := func(seq2 func(func(int, int) bool), seq1 func(func(int) bool), k int) [][2]int {
		var r [][2]int
		if k == 0 {
			return r
		}
		if seq2 != nil {
			for p, d := range seq2 {
				r = append(r, [2]int{p, d})
				if k > 0 && len(r) >= k {
					break
				}
			}
		} else {
			for d := range seq1 {
				r = append(r, [2]int{-2, d})
				if k > 0 && len(r) >= k {
					break
				}
			}
		}
		return r
	}
	switch kind {
	case "A":
		s := v.s3.All()
		return [2][][2]int{collect(s, nil, k1), collect(s, nil, k2)}, true
	case "V":
		s := v.s3.Values()
		return [2][][2]int{collect(nil, s, k1), collect(nil, s, k2)}, true
	}
	f := v.fin3()
	if f == nil {
		return out, false
	}
	s := f.Backward()
	return [2][][2]int{collect(s, nil, k1), collect(s, nil, k2)}, true
}

// makeTestNumber builds a Number from a scripted source. kind "T": v3 NewNumberForTesting(fixed, rep, exp)
// (rep empty: finite type), v1/v2 through the VerifNewNumber hook; kind "G": v3 NewNumber(generator) with the raw
// stream raw ++ rep^omega (may misbehave), v1/v2 the hook (raw values must then be digits or -1).
func makeTestNumber(ver, kind string, raw, rep []int, exp int) (View, *Source, string) {
	if kind == "Q" || kind == "S" || kind == "C" {
		ctor := map[string]string{"Q": "FromBigRat", "S": "SqrtBigRat", "C": "CubeRootBigRat"}[kind]
		// every constructor of the family takes its turn (the value, hence the model, is the same)
		if kind != "Q" {
			fam := map[string][]string{"S": {"Sqrt", "SqrtRat", "SqrtBigInt", "SqrtBigRat"}, "C": {"CubeRoot", "CubeRootRat", "CubeRootBigInt", "CubeRootBigRat"}}[kind]
			if raw[1] == 1 {
				ctor = fam[(raw[0]/2+raw[0]/1000)%4]
			} else {
				ctor = fam[1+2*((raw[0]/2)%2)]
			}
		}
		// the same constructor call made twice: the second result is the one that is used (what a constructor
		// returns does not depend on earlier calls)
		makeRoot(ver, ctor, big.NewInt(int64(raw[0])), big.NewInt(int64(raw[1])))
		n := makeRoot(ver, ctor, big.NewInt(int64(raw[0])), big.NewInt(int64(raw[1])))
		switch ver {
		case "v1":
			return View{ver: ver, s1: n.(*v1.Number)}, nil, ""
		case "v2":
			return View{ver: ver, s2: n.(*v2.Number)}, nil, ""
		}
		return View{ver: ver, s3: n.(v3.Number)}, nil, ""
	}
	if len(rep) == 0 && exp%2 == 0 {
		rep = nil // NewNumberForTesting must treat nil and empty alike
	}
	src := &Source{raw: raw, rep: rep}
	switch ver {
	case "v1":
		return View{ver: ver, s1: v1.VerifNewNumber(src.next, exp)}, src, ""
	case "v2":
		return View{ver: ver, s2: v2.VerifNewNumber(src.next, exp)}, src, ""
	}
	if kind == "G" {
		return View{ver: ver, s3: v3.NewNumber(srcGen{src, exp})}, src, ""
	}
	n, err := v3.NewNumberForTesting(raw, rep, exp)
	if err != nil {
		return View{}, nil, "ERR"
	}
	return View{ver: ver, s3: n}, nil, ""
}
