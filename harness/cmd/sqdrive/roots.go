package main

import (
	"math/big"
	"strings"
	"sync"
)

// C01 / C02 / C03 / C13(rational): <ctor> <num> <den> <depth>  =>  Z 0 -1 | N e k d1..dk ended | PANIC msg
// (single-argument constructors are given den = 1; bigrat constructors go through big.Rat, which reduces)

func runRoot(c *Case) []string {
	a := &cur{t: c.Args}
	num, den := a.big(), a.big()
	depth := a.int()
	x := makeRoot(c.Ver, c.Op, num, den)
	return observeDigits(x, depth)
}

// Pair: two Numbers alive at the same time, read alternately across block boundaries (independence of Numbers).
// Pair opA numA denA opB numB denB depthA1 depthA2 depthB => obs(A, depthA2) obs(B, depthB)
func runPair(c *Case) []string {
	a := &cur{t: c.Args}
	opA := a.next()
	numA, denA := a.big(), a.big()
	opB := a.next()
	numB, denB := a.big(), a.big()
	dA1, dA2, dB := a.int(), a.int(), a.int()
	A := makeRoot(c.Ver, opA, numA, denA)
	if dA1 > 0 {
		A.At(dA1 - 1)
	}
	B := makeRoot(c.Ver, opB, numB, denB)
	for p := 0; p < dB; p += 7 {
		B.At(p)
		A.At(p)
	}
	out := observeDigits(A, dA2)
	return append(out, observeDigits(B, dB)...)
}

// ConcRoots: different Numbers computed at the same time from different goroutines (no shared state between Numbers).
// ConcRoots g (ctor num den depth)*  =>  obs_1 obs_2 ...
func runConcRoots(c *Case) []string {
	a := &cur{t: c.Args}
	g := a.int()
	type job struct {
		ctor     string
		num, den *big.Int
		depth    int
	}
	jobs := make([]job, g)
	for i := range jobs {
		jobs[i] = job{a.next(), a.big(), a.big(), a.int()}
	}
	// several rounds, all goroutines released together; every round must give the same (sequential) observations:
	// when rounds differ, the odd one out is what gets reported
	const rounds = 3
	var results [rounds][]string
	for rd := 0; rd < rounds; rd++ {
		outs := make([][]string, g)
		start := make(chan struct{})
		var wg sync.WaitGroup
		for i := range jobs {
			wg.Add(1)
			go func(i int) {
				defer wg.Done()
				defer func() {
					if e := recover(); e != nil {
						outs[i] = []string{"PANIC", "x"}
					}
				}()
				<-start
				x := makeRoot(c.Ver, jobs[i].ctor, jobs[i].num, jobs[i].den)
				outs[i] = observeDigits(x, jobs[i].depth)
			}(i)
		}
		close(start)
		wg.Wait()
		for _, o := range outs {
			results[rd] = append(results[rd], o...)
		}
	}
	key := func(r []string) string { return strings.Join(r, " ") }
	count := map[string]int{}
	for _, r := range results {
		count[key(r)]++
	}
	best := results[0]
	for _, r := range results {
		if count[key(r)] < count[key(best)] {
			best = r
		}
	}
	return best
}

func genConcRoots(r *Rng, emit func(Case), n int) { genConcRootsOf(r, emit, n, "", 4) }

// genConcRootsOf: fam "" mixes cube and square roots; otherwise only that constructor.
func genConcRootsOf(r *Rng, emit func(Case), n int, only string, maxg int) {
	for i := 0; i < n; i++ {
		g := r.Range(2, maxg)
		var t toks
		t.i(g)
		for k := 0; k < g; k++ {
			ctor := []string{"CubeRootBigInt", "CubeRootBigInt", "SqrtBigInt", "CubeRootBigRat", "SqrtBigRat"}[r.Intn(5)]
			if only != "" {
				ctor = only
			}
			t.s(ctor)
			t.i(r.Range(2, 99))
			if strings.HasSuffix(ctor, "Rat") {
				// radicands whose expansion never ends keep fetching radicand groups for as long as digits are produced
				t.i(r.Pick([]int{3, 7, 13, 17, 19, 23, 29, 97, 101, 997}))
			} else {
				t.i(1)
			}
			if strings.HasPrefix(ctor, "CubeRoot") {
				t.i(r.Pick([]int{110, 150}))
			} else {
				t.i(r.Pick([]int{150, 210, 260}))
			}
		}
		emit(Case{Ver: allVers[i%3], Op: "ConcRoots", Args: t})
	}
}

func genPairs(r *Rng, emit func(Case), famA, famB []string, n int) {
	for i := 0; i < n; i++ {
		opA := famA[2] // BigInt constructors
		opB := famB[2]
		if r.Bool() {
			opA, opB = opB, opA
		}
		numA := big.NewInt(int64(r.Range(2, 99)))
		numB := big.NewInt(int64(r.Range(2, 99)))
		dA1 := r.Pick([]int{0, 1, 50, 100, 101})
		dA2 := r.Pick([]int{120, 205})
		dB := r.Pick([]int{30, 110, 201})
		args := toks{opA, numA.String(), "1", opB, numB.String(), "1", itoa(dA1), itoa(dA2), itoa(dB)}
		emit(Case{Ver: allVers[i%3], Op: "Pair", Args: args})
	}
}

// genSameRadicand: the two kinds of root of one radicand, created one right after the other (in both orders, through
// every constructor, before and after the first digit of the first one is read): a Number depends on its own
// constructor and arguments only, not on what was built before it.
func genSameRadicand(emit func(Case)) {
	type rd struct{ num, den string }
	rads := []rd{{"2", "1"}, {"64", "1"}, {"8", "1"}, {"1", "4"}, {"14", "7"}, {"1234567", "1"}, {"1", "8"}, {"729", "1000000"}}
	for i, x := range rads {
		for k := range sqrtCtors {
			if (k == 0 || k == 2) && x.den != "1" {
				continue
			}
			for _, order := range []int{0, 1} {
				opA, opB := sqrtCtors[k], cubeCtors[(k+order*i)%4]
				if (opB == "CubeRoot" || opB == "CubeRootBigInt") && x.den != "1" {
					opB = "CubeRootRat"
				}
				if order == 1 {
					opA, opB = opB, opA
				}
				for _, v := range allVers {
					emit(Case{Ver: v, Op: "Pair", Args: toks{opA, x.num, x.den, opB, x.num, x.den, itoa((i + k) % 2), "40", "40"}})
				}
			}
		}
	}
}

var sqrtCtors = []string{"Sqrt", "SqrtRat", "SqrtBigInt", "SqrtBigRat"}
var cubeCtors = []string{"CubeRoot", "CubeRootRat", "CubeRootBigInt", "CubeRootBigRat"}

func fitsInt64(z *big.Int) bool { return z.IsInt64() }

// emitRoot emits num/den through every constructor of the family that can represent it, in every version
// (quick tier: versions rotate to keep the count down; representation variants are always included).
func emitRoot(emit func(Case), r *Rng, fam []string, num, den *big.Int, depth int, allVersions bool) {
	one := big.NewInt(1)
	isInt := den.Cmp(one) == 0
	for _, ctor := range fam {
		switch ctor {
		case "Sqrt", "CubeRoot":
			if !isInt || !fitsInt64(num) {
				continue
			}
		case "SqrtRat", "CubeRootRat":
			if !fitsInt64(num) || !fitsInt64(den) {
				continue
			}
		case "SqrtBigInt", "CubeRootBigInt":
			if !isInt {
				continue
			}
		}
		args := toks{num.String(), den.String(), itoa(depth)}
		if allVersions {
			for _, v := range allVers {
				emit(Case{Ver: v, Op: ctor, Args: args})
			}
		} else {
			emit(Case{Ver: allVers[r.Intn(3)], Op: ctor, Args: args})
		}
	}
}

func pow10(k int) *big.Int { return new(big.Int).Exp(big.NewInt(10), big.NewInt(int64(k)), nil) }

func genRoots(fam []string, p int64) generator {
	return func(tier string, r *Rng, emit func(Case)) {
		thorough := tier == "thorough"
		depth := 40
		if thorough {
			depth = 120
		}
		one := big.NewInt(1)
		P := big.NewInt(p)
		E := func(num, den *big.Int, d int) { emitRoot(emit, r, fam, num, den, d, thorough) }
		EA := func(num, den *big.Int, d int) { emitRoot(emit, r, fam, num, den, d, true) }
		// numerator and denominator of more than a thousand bits each, more than 300 digits deep (one radicand, every
		// version: the model needs about half a minute for a cube root of this size)
		ED := func(num, den *big.Int, d int) {
			for _, v := range allVers {
				emit(Case{Ver: v, Op: "Deep" + fam[3], Args: toks{num.String(), den.String(), itoa(d)}})
				if den.Cmp(one) == 0 {
					emit(Case{Ver: v, Op: "Deep" + fam[2], Args: toks{num.String(), "1", itoa(d)}})
				}
			}
		}
		ED(r.BigDigits(325), r.BigDigits(312), 318)
		ED(r.BigDigits(400), r.BigDigits(330), 330)
		ED(r.BigDigits(700), one, 340)
		// a terminating root whose radicand has both parts beyond a thousand bits: (a / 5^150)^p
		{
			a5 := r.BigDigits(110)
			b5 := new(big.Int).Exp(big.NewInt(5), big.NewInt(150), nil)
			ED(new(big.Int).Exp(a5, P, nil), new(big.Int).Exp(b5, P, nil), 330)
		}
		// roots whose leading digits cross machine-word boundaries (2^31, 2^32, 2^53, 2^63, 2^64)
		for _, w := range []uint{31, 32, 53, 63, 64} {
			b := new(big.Int).Lsh(one, w)
			for _, dlt := range []int64{-1, 0, 1} {
				base := new(big.Int).Add(b, big.NewInt(dlt))
				pwr := new(big.Int).Exp(base, P, nil)
				for _, d2 := range []int64{-1, 0, 1} {
					EA(new(big.Int).Add(pwr, big.NewInt(d2)), one, len(base.String())+25)
				}
			}
		}
		// several Numbers alive at once
		np := 12
		if thorough {
			np = 90
		}
		genPairs(r, emit, fam, fam, np)
		genPairs(r, emit, sqrtCtors, cubeCtors, np/2)
		genSameRadicand(emit)
		// radicands thousands of groups away from 1, in both directions (only the statement is evaluated on these)
		for i, v := range allVers {
			k := []int64{8200, 8196, 8210}[i]
			if P.Int64() == 3 {
				k = []int64{12300, 12295, 12290}[i]
			}
			huge := new(big.Int).Exp(big.NewInt(10), big.NewInt(k), nil)
			small := big.NewInt(int64(r.Range(2, 97)))
			emit(Case{Ver: v, Op: "Deep" + fam[3], Args: toks{small.String(), huge.String(), "12"}})
			if i == 0 {
				emit(Case{Ver: v, Op: "Deep" + fam[2], Args: toks{new(big.Int).Mul(huge, small).String(), "1", "12"}})
			}
		}
		// a jump of ten thousand positions and more on a Number that has computed its first block
		for i, v := range allVers {
			far := []int{10150, 10000, 12345}[i]
			if P.Int64() == 3 {
				far = far/4 + 8000 // cube roots cost more per digit
			}
			emit(Case{Ver: v, Op: "Far" + fam[2], Args: toks{itoa(r.Range(2, 99)), "1", "40", "1", itoa(far)}})
			emit(Case{Ver: v, Op: "Far" + fam[3], Args: toks{itoa(r.Range(2, 99)), itoa(r.Range(2, 9)), "130", "1", itoa(far + 100)}})
		}
		// different Numbers of this family computed at the same time by different goroutines
		genConcRootsOf(r, emit, np, fam[2], 8)
		genConcRootsOf(r, emit, np, fam[3], 8)
		// zero and malformed
		for _, v := range allVers {
			for _, ctor := range fam {
				emit(Case{Ver: v, Op: ctor, Args: toks{"0", "1", "5"}})
			}
			emit(Case{Ver: v, Op: fam[1], Args: toks{"0", "7", "5"}})
			emit(Case{Ver: v, Op: fam[1], Args: toks{"-1", "7", "5"}})
			emit(Case{Ver: v, Op: fam[1], Args: toks{"3", "0", "5"}})
			emit(Case{Ver: v, Op: fam[1], Args: toks{"3", "-2", "5"}})
			emit(Case{Ver: v, Op: fam[0], Args: toks{"-5", "1", "5"}})
			emit(Case{Ver: v, Op: fam[2], Args: toks{"-5", "1", "5"}})
		}
		// every small integer, every small fraction
		lim, flim := 300, 18
		if thorough {
			lim, flim = 2000, 40
		}
		for n := 1; n <= lim; n++ {
			E(big.NewInt(int64(n)), one, depth)
		}
		for n := 1; n <= flim; n++ {
			for d := 2; d <= flim; d++ {
				E(big.NewInt(int64(n)), big.NewInt(int64(d)), 25)
			}
		}
		// perfect powers and neighbours, long 9/0 runs, scalings through every residue of the group count
		cnt := 60
		if thorough {
			cnt = 600
			if p == 3 {
				cnt = 200 // the model's cube-root extraction on 100+ digit radicands costs about a second per case
			}
		}
		for i := 0; i < cnt; i++ {
			var s *big.Int
			switch r.Intn(5) {
			case 0:
				s = new(big.Int).Sub(pow10(r.Range(1, 30)), one) // 99..9
			case 1:
				s = new(big.Int).Add(pow10(r.Range(1, 30)), big.NewInt(int64(r.Intn(3)))) // 100..0x
			case 2:
				s = r.BigDigits(r.Range(1, 40))
			case 3:
				s = new(big.Int).Mul(r.BigDigits(r.Range(1, 6)), pow10(r.Range(1, 12)))
			default:
				s = big.NewInt(int64(r.Range(1, 100000)))
			}
			sp := new(big.Int).Exp(s, P, nil)
			for _, dlt := range []int64{-1, 0, 1} {
				x := new(big.Int).Add(sp, big.NewInt(dlt))
				if x.Sign() <= 0 {
					continue
				}
				E(x, one, depth+20)
				// same value at a scale 10^-t (terminating decimals; each residue class of the group count)
				t := r.Range(1, 9)
				E(x, pow10(t), depth+20)
			}
		}
		// radicands just below / above powers of the group base, values far below 1
		for j := 0; j <= 12; j++ {
			for _, dlt := range []int64{-1, 0, 1} {
				x := new(big.Int).Add(pow10(j), big.NewInt(dlt))
				if x.Sign() > 0 {
					EA(x, one, 30)
					EA(one, x, 30)
					E(big.NewInt(3), new(big.Int).Mul(big.NewInt(7), x), 30)
				}
			}
		}
		// int64 extremes
		for _, s := range []string{"9223372036854775807", "9223372036854775806", "4611686018427387904", "4611686018427387903",
			"4611686018427387905", "1000000000000000000", "999999999999999999", "123456789012345678", "3037000499", "3037000500", "2097151", "2097152"} {
			x := atobig(s)
			EA(x, one, 30)
			EA(one, x, 30)
			EA(x, big.NewInt(int64(r.Range(2, 1000))), 30)
			EA(big.NewInt(int64(r.Range(2, 1000))), x, 30)
		}
		// random big integers and rationals; every value through several representations
		cnt = 150
		if thorough {
			cnt = 2500
			if p == 3 {
				cnt = 900
			}
		}
		for i := 0; i < cnt; i++ {
			num := r.BigDigits(r.Range(1, 60))
			den := one
			switch r.Intn(4) {
			case 0:
				den = r.BigDigits(r.Range(1, 60))
			case 1:
				den = pow10(r.Range(1, 40))
			case 2:
				den = new(big.Int).Mul(new(big.Int).Exp(big.NewInt(2), big.NewInt(int64(r.Intn(12))), nil),
					new(big.Int).Exp(big.NewInt(5), big.NewInt(int64(r.Intn(12))), nil))
			}
			if thorough && r.Intn(20) == 0 {
				num = r.BigDigits(r.Range(100, 400))
			}
			E(num, den, depth)
			c := big.NewInt(int64(r.Range(2, 97)))
			E(new(big.Int).Mul(num, c), new(big.Int).Mul(den, c), depth)
		}
	}
}

func genC03(tier string, r *Rng, emit func(Case)) {
	thorough := tier == "thorough"
	one := big.NewInt(1)
	cnt := 120
	if thorough {
		cnt = 1500
	}
	fams := [][]string{sqrtCtors, cubeCtors}
	pw := []int64{2, 3}
	for i := 0; i < cnt; i++ {
		k := r.Intn(2)
		// s = terminating decimal a / 10^t; radicand s^p = a^p / 10^(p t): finite root
		var a *big.Int
		switch r.Intn(4) {
		case 0:
			a = r.BigDigits(r.Range(1, 12))
		case 1:
			a = new(big.Int).Mul(r.BigDigits(r.Range(1, 5)), pow10(r.Range(1, 6))) // trailing zeros in the root
		case 2:
			a = new(big.Int).Sub(pow10(r.Pick([]int{1, 2, 50, 99, 100, 101, 150})), one) // lengths around the block size
		default:
			a = big.NewInt(int64(r.Range(1, 999)))
		}
		t := r.Intn(8)
		num := new(big.Int).Exp(a, big.NewInt(pw[k]), nil)
		den := new(big.Int).Exp(pow10(t), big.NewInt(pw[k]), nil)
		L := len(a.String())
		depth := L + 3 + r.Intn(4)
		emitRoot(emit, r, fams[k], num, den, depth, thorough || i%4 == 0)
		// near misses: never end
		for _, dlt := range []int64{-1, 1} {
			x := new(big.Int).Add(num, big.NewInt(dlt))
			if x.Sign() > 0 {
				emitRoot(emit, r, fams[k], x, den, depth, false)
			}
		}
		// perfect powers of non terminating fractions (1/9, 4/49 ...)
		q := big.NewInt(int64(r.Pick([]int{3, 7, 9, 11, 13, 21})))
		emitRoot(emit, r, fams[k], num, new(big.Int).Exp(q, big.NewInt(pw[k]), nil), 40, false)
	}
	// several terminating roots computed at the same time by different goroutines: each must still end exactly
	nconc := 10
	if thorough {
		nconc = 120
	}
	for i := 0; i < nconc; i++ {
		g := r.Range(4, 8)
		var t toks
		t.i(g)
		for j := 0; j < g; j++ {
			k := r.Intn(3)
			if k == 2 {
				k = 1 // mostly cube roots
			}
			L := r.Pick([]int{40, 99, 100, 101, 150})
			a := new(big.Int).Sub(pow10(L), big.NewInt(int64(r.Range(1, 999))))
			num := new(big.Int).Exp(a, big.NewInt(pw[k]), nil)
			t.s(fams[k][2])
			t.s(num.String())
			t.i(1)
			t.i(L + 3)
		}
		emit(Case{Ver: allVers[i%3], Op: "ConcRoots", Args: t})
	}
	// large machine-size radicands next to perfect powers (beyond float64 precision), through every constructor
	for _, s := range []int64{94906265, 94906266, 94906267, 134217728, 134217729, 1073741824, 2147483647, 3000000000, 3037000499} {
		sq := new(big.Int).Mul(big.NewInt(s), big.NewInt(s))
		for _, dlt := range []int64{-1, 0, 1, 512} {
			x := new(big.Int).Add(sq, big.NewInt(dlt))
			if x.IsInt64() {
				emitRoot(emit, r, sqrtCtors, x, one, 2*len(big.NewInt(s).String())+6, true)
			}
		}
	}
	for _, s := range []int64{208063, 208064, 1048576, 2097151} {
		cb := new(big.Int).Exp(big.NewInt(s), big.NewInt(3), nil)
		for _, dlt := range []int64{-1, 0, 1} {
			x := new(big.Int).Add(cb, big.NewInt(dlt))
			if x.IsInt64() {
				emitRoot(emit, r, cubeCtors, x, one, 3*len(big.NewInt(s).String())+6, true)
			}
		}
	}
	// depth exactly at the end, one before and one after
	for _, s := range []int64{5, 25, 125, 12, 1001, 999} {
		for k := 0; k < 2; k++ {
			num := new(big.Int).Exp(big.NewInt(s), big.NewInt(pw[k]), nil)
			L := len(big.NewInt(s).String())
			for d := L - 1; d <= L+2; d++ {
				if d >= 0 {
					emitRoot(emit, r, fams[k], num, one, d, true)
					emitRoot(emit, r, fams[k], num, new(big.Int).Exp(big.NewInt(100), big.NewInt(pw[k]), nil), d, true)
				}
			}
		}
	}
	genSameRadicand(emit)
	// the last legal position of a terminating root that has computed nothing yet (and after its first digit)
	for i, v := range allVers {
		for k, ctor := range []string{"SqrtBigInt", "CubeRootBigInt", "SqrtRat", "CubeRootRat"} {
			rad := []toks{{"100489", "1"}, {"35223040952", "1"}, {"1", "4"}, {"1", "8"}}[k]
			emit(Case{Ver: v, Op: "Far" + ctor, Args: toks{rad[0], rad[1], "12", itoa((i + k) % 2), itoa(MaxInt - (i+k)%3)}})
		}
	}
}

func genC13(tier string, r *Rng, emit func(Case)) {
	thorough := tier == "thorough"
	one := big.NewInt(1)
	fam := []string{"FromBigRat"}
	for _, v := range allVers {
		emit(Case{Ver: v, Op: "FromBigRat", Args: toks{"0", "1", "5"}})
		emit(Case{Ver: v, Op: "FromBigRat", Args: toks{"0", "9", "5"}})
	}
	lim := 40
	if thorough {
		lim = 120
	}
	for n := 1; n <= lim; n++ {
		for d := 1; d <= lim; d++ {
			emitRoot(emit, r, fam, big.NewInt(int64(n)), big.NewInt(int64(d)), 30, n%7 == 0 || thorough)
		}
	}
	for j := 0; j <= 25; j++ {
		for _, dlt := range []int64{-1, 0, 1} {
			x := new(big.Int).Add(pow10(j), big.NewInt(dlt))
			if x.Sign() > 0 {
				emitRoot(emit, r, fam, x, one, j+5, true)
				emitRoot(emit, r, fam, one, x, j+25, true)
				emitRoot(emit, r, fam, big.NewInt(7), x, j+25, true)
			}
		}
	}
	cnt := 400
	if thorough {
		cnt = 6000
	}
	for i := 0; i < cnt; i++ {
		num := r.BigDigits(r.Range(1, 50))
		var den *big.Int
		switch r.Intn(3) {
		case 0:
			den = r.BigDigits(r.Range(1, 50))
		case 1:
			den = pow10(r.Range(0, 40))
		default:
			den = new(big.Int).Mul(new(big.Int).Exp(big.NewInt(2), big.NewInt(int64(r.Intn(30))), nil),
				new(big.Int).Exp(big.NewInt(5), big.NewInt(int64(r.Intn(30))), nil))
		}
		emitRoot(emit, r, fam, num, den, 70, thorough)
	}
	// dyadic rationals (exactly representable in binary floating point) with long exact expansions
	for j := 1; j <= 64; j += r.Range(1, 3) {
		for _, k := range []int64{1, 3, 5, 1023} {
			emitRoot(emit, r, fam, big.NewInt(k), new(big.Int).Lsh(one, uint(j)), j+8, j%9 == 0 || thorough)
		}
		emitRoot(emit, r, fam, new(big.Int).Lsh(one, uint(j)), one, j/3+5, false)
	}
	// several rationals computed at the same time from different goroutines (Numbers share no mutable state)
	nconc := 40
	if thorough {
		nconc = 400
	}
	genConcRootsOf(r, emit, nconc, "FromBigRat", 8)
	// the digit lists are those given at the call: the caller reuses its slices afterwards
	genAliasList(r, emit, nconc)
	genC13Lists(tier, r, emit)
	// the Number keeps the expansion of the value it was given, whatever the caller does with its big.Rat afterwards
	na := 40
	if thorough {
		na = 600
	}
	for i := 0; i < na; i++ {
		num := big.NewInt(int64(r.Range(1, 5000)))
		den := big.NewInt(int64(r.Pick([]int{1, 3, 7, 8, 9, 12, 70000, 120, 1000, 13})))
		if r.Bool() {
			den = big.NewInt(int64(r.Range(5001, 90000)))
		}
		num2 := []string{"0", "1", "7", "123456789"}[r.Intn(4)]
		den2 := []string{"1", "7", "3", "8"}[r.Intn(4)]
		for _, v := range allVers {
			emit(Case{Ver: v, Op: "AliasCtor", Args: toks{"FromBigRat", num.String(), den.String(), itoa(r.Intn(4)), num2, den2, itoa(r.Pick([]int{20, 160}))}})
		}
	}
}

// NewNumberForTesting / NewFiniteNumber argument checks and NewNumber(g) over misbehaving generators.
func genC13Lists(tier string, r *Rng, emit func(Case)) {
	bad := []int{-1, 10, -7, 11, 255, 256, 263, -256, MaxInt, MinInt}
	n := 500
	if tier == "thorough" {
		n = 8000
	}
	reads := func(L int) []toks {
		ops := []toks{{"WS", "0", "0"}, {"RUN", "0", "A", itoa(L + 12)}}
		for _, p := range []int{-1, 0, L - 1, L, L + 1, L + 100} {
			ops = append(ops, toks{"AT", "0", itoa(p)})
		}
		return ops
	}
	mk := func(kind string, raw, rep []int, exp int, ops []toks) toks {
		var t toks
		t.s(kind)
		t.ints(raw)
		t.ints(rep)
		t.i(exp)
		t.i(len(ops))
		for _, o := range ops {
			t = append(t, o...)
		}
		return t
	}
	for i := 0; i < n; i++ {
		exp := r.Pick([]int{-5, -1, 0, 1, 3, 20})
		nf := r.Pick([]int{0, 0, 1, 2, 5, 30, 100, 101})
		nr := r.Pick([]int{0, 0, 1, 2, 3, 7})
		fixed := make([]int, nf)
		for k := range fixed {
			fixed[k] = r.Intn(10)
		}
		rep := make([]int, nr)
		for k := range rep {
			rep[k] = r.Intn(10)
		}
		all := nf + nr
		switch r.Intn(6) {
		case 0: // an invalid value at a random index
			if all > 0 {
				j := r.Intn(all)
				if j < nf {
					fixed[j] = r.Pick(bad)
				} else {
					rep[j-nf] = r.Pick(bad)
				}
			}
		case 1: // leading zero
			if nf > 0 {
				fixed[0] = 0
			} else if nr > 0 {
				rep[0] = 0
			}
		case 2: // valid with non-zero lead
			if nf > 0 && fixed[0] == 0 {
				fixed[0] = 3
			} else if nf == 0 && nr > 0 && rep[0] == 0 {
				rep[0] = 4
			}
		}
		emit(Case{Ver: "v3", Op: "Hist", Args: mk("T", fixed, rep, exp, reads(nf))})
		// generator streams: a script that ends with a bad value and then resumes digits, or starts with 0 / a bad value
		raw := append([]int{}, fixed...)
		switch r.Intn(5) {
		case 0:
			raw = append(raw, r.Pick(bad))
			raw = append(raw, 1, 2, 3)
		case 1:
			raw = append([]int{r.Pick(bad)}, raw...)
		case 2:
			raw = append([]int{0}, raw...)
		}
		emit(Case{Ver: "v3", Op: "Hist", Args: mk("G", raw, rep, exp, reads(len(raw)))})
		if i%3 == 0 {
			// v1/v2: the hook takes the source as it is; only -1 ends it
			ok := make([]int, 0, len(fixed))
			for _, d := range fixed {
				if d >= 0 && d <= 9 {
					ok = append(ok, d)
				}
			}
			emit(Case{Ver: allVers[i%2], Op: "Hist", Args: mk("G", ok, nil, exp, reads(len(ok)))})
		}
	}
}

func init() {
	ops := map[string]runner{}
	for _, c := range append(append([]string{}, sqrtCtors...), cubeCtors...) {
		ops[c] = runRoot
	}
	for _, c := range []string{"SqrtBigInt", "SqrtBigRat", "CubeRootBigInt", "CubeRootBigRat", "FromBigRat"} {
		c := c
		ops["Deep"+c] = func(cs *Case) []string {
			cc := *cs
			cc.Op = c
			return runRoot(&cc)
		}
	}
	// Far<ctor> num den depth first far: (after the first digit when first = 1) a position far beyond anything computed
	// is asked for, then the digits are observed as usual. far = MaxInt only on terminating roots.
	for _, c := range append(append([]string{"FromBigRat"}, sqrtCtors...), cubeCtors...) {
		c := c
		ops["Far"+c] = func(cs *Case) []string {
			a := &cur{t: cs.Args}
			num, den := a.big(), a.big()
			depth, first, far := a.int(), a.int(), a.int()
			x := makeRoot(cs.Ver, c, num, den)
			if first == 1 {
				x.At(0)
			}
			x.At(far)
			return observeDigits(x, depth)
		}
	}
	ops["Pair"] = runPair
	ops["ConcRoots"] = runConcRoots
	register("C01", genRoots(sqrtCtors, 2), ops)
	register("C02", genRoots(cubeCtors, 3), ops)
	register("C03", genC03, ops)
	register("C13", genC13, map[string]runner{"FromBigRat": runRoot, "Hist": runHist, "AliasCtor": runAliasCtor, "ConcRoots": runConcRoots, "AliasList": runAliasList})
}
