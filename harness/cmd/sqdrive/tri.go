package main

import (
	"hash/fnv"
	"math/big"
	"strings"
)

// C18: the three module versions on identical inputs.
//
//	Tri <prop> <op> args...   =>  SAME <fingerprint> | DIFFER v1: obs | v2: obs | v3: obs
//
// The operation is one of the other properties' operations restricted to the API common to all versions.
func runTri(c *Case) []string {
	prop, op := c.Args[0], c.Args[1]
	args := c.Args[2:]
	var obs [3][]string
	if shared, ok := triSharedArgs(op, args); ok {
		obs = shared
	} else {
		obs = triSeparate(prop, op, args)
	}
	return triVerdict(obs)
}

// triSharedArgs: for the constructors taking *big.Int / *big.Rat the SAME argument object is handed to the three
// versions in turn (identical inputs in the strictest sense) and the digits are read only after all three Numbers
// exist: no version may alter or keep using what it was given.
func triSharedArgs(op string, args []string) (obs [3][]string, ok bool) {
	switch op {
	case "SqrtBigInt", "CubeRootBigInt", "SqrtBigRat", "CubeRootBigRat", "FromBigRat":
	default:
		return obs, false
	}
	num, _ := new(big.Int).SetString(args[0], 10)
	den, _ := new(big.Int).SetString(args[1], 10)
	depth := atoi(args[2])
	if num == nil || den == nil || den.Sign() <= 0 || num.Sign() < 0 {
		return obs, false // the panicking argument classes are compared by the separate runs
	}
	var rat *big.Rat
	if op != "SqrtBigInt" && op != "CubeRootBigInt" {
		rat = new(big.Rat).SetFrac(num, den)
	}
	mk := func(ver string) (x Num) {
		defer func() {
			if e := recover(); e != nil {
				x = nil
			}
		}()
		return makeRootShared(ver, op, num, rat)
	}
	var xs [3]Num
	for i, v := range allVers {
		xs[i] = mk(v)
	}
	for i := range xs {
		if xs[i] == nil {
			obs[i] = []string{"PANIC"}
			continue
		}
		func() {
			defer func() {
				if e := recover(); e != nil {
					obs[i] = []string{"PANIC"}
				}
			}()
			obs[i] = observeDigits(xs[i], depth)
		}()
	}
	return obs, true
}

func triSeparate(prop, op string, args []string) (obs [3][]string) {
	for i, v := range allVers {
		cc := Case{Prop: prop, Ver: v, Op: op, Args: args}
		r, ok := runners[prop+"/"+op]
		if !ok {
			obs[i] = []string{"NOOP"}
			continue
		}
		func() {
			defer func() {
				if e := recover(); e != nil {
					obs[i] = []string{"PANIC"}
				}
			}()
			obs[i] = r(&cc)
		}()
	}
	return obs
}

func triVerdict(obs [3][]string) []string {
	a, b, d := strings.Join(obs[0], " "), strings.Join(obs[1], " "), strings.Join(obs[2], " ")
	if a == b && b == d {
		h := fnv.New64a()
		h.Write([]byte(a))
		return []string{"SAME", itoa(int(h.Sum64() >> 1)), itoa(len(obs[0]))}
	}
	clip := func(s string) string {
		if len(s) > 400 {
			return s[:400] + "..."
		}
		return s
	}
	return []string{"DIFFER", "v1:", clip(a), "|", "v2:", clip(b), "|", "v3:", clip(d)}
}

func genC18(tier string, r *Rng, emit func(Case)) {
	thorough := tier == "thorough"
	seen := map[string]bool{}
	tri := func(prop string) func(Case) {
		return func(c Case) {
			switch c.Op {
			case "Exact", "ConcRoots":
				return
			case "Find":
				// entry points 7..10 are v3 push iterators (emulated elsewhere): keep the common ones
				fn := c.Args[len(c.Args)-2]
				if fn == "7" || fn == "8" || fn == "9" || fn == "10" {
					return
				}
			case "Sprint":
				n := len(c.Args)
				if c.Args[n-1] != "0" {
					return // Swrite is v3 only
				}
				c.Args = append(toks{}, c.Args...)
				c.Args[n-3], c.Args[n-2] = "1", "0" // the options common to all versions: leading decimal on, no trailing LF
			case "Hist":
				if prop != "C11" {
					return // view histories answer with version specific type tags
				}
			}
			if c.Op == "Fmt" || c.Op == "Str" {
				// generator-free test numbers behave alike in all versions (v1/v2 through the hook)
			}
			key := prop + " " + c.Op + " " + strings.Join(c.Args, " ")
			if seen[key] {
				return
			}
			seen[key] = true
			emit(Case{Ver: "all", Op: "Tri", Args: append(toks{prop, c.Op}, c.Args...)})
		}
	}
	sub := "quick"
	generators["C01"](sub, r, tri("C01"))
	generators["C02"](sub, r, tri("C02"))
	genC13ratOnly(sub, r, tri("C13"))
	generators["C08"](sub, r, tri("C08"))
	generators["C09"](sub, r, tri("C09"))
	generators["C10"](sub, r, tri("C10"))
	generators["C11"](sub, r, tri("C11"))
	// view contents: the view histories of C07 (boundary grid and chains, all three versions in turn) against the
	// one model of views - a version that treats an argument differently from the others shows up here
	generators["C07"](sub, r, func(c Case) {
		if c.Op == "Hist" && r.Intn(3) == 0 {
			emit(Case{Ver: c.Ver, Op: "VHist", Args: c.Args})
		}
	})
	// fixed cases: lazy forward searches on fresh Numbers whose view ends one past a block boundary, the pattern
	// sitting on the view's last digits
	for _, E := range []int{101, 201, 1001, 100, 102} {
		rep := []int{1, 2, 3, 4, 5, 6, 7}
		pat := toks{"2", itoa(rep[(E-2)%7]), itoa(rep[(E-1)%7])}
		for _, fn := range []int{5, 0, 2} {
			args := append(toks{"C09", "Find", "T", "0", "7", "1", "2", "3", "4", "5", "6", "7", "1", "-1", itoa(E)}, pat...)
			args = append(args, itoa(fn), "200")
			emit(Case{Ver: "all", Op: "Tri", Args: args})
		}
	}
	// depth: roots and rationals far beyond what the model-side oracle reaches on every case
	depth := 3000
	nrad := 10
	if thorough {
		depth, nrad = 30000, 40
	}
	for i := 0; i < nrad; i++ {
		num := r.BigDigits(r.Range(1, 30)).String()
		den := "1"
		if i%3 == 0 {
			den = r.BigDigits(r.Range(1, 20)).String()
		}
		ops := []string{"SqrtBigRat", "CubeRootBigRat", "FromBigRat"}
		op := ops[i%3]
		prop := map[string]string{"SqrtBigRat": "C01", "CubeRootBigRat": "C02", "FromBigRat": "C13"}[op]
		d := depth
		if op == "CubeRootBigRat" {
			d = depth / 3
		}
		emit(Case{Ver: "all", Op: "Tri", Args: toks{prop, op, num, den, itoa(d)}})
	}
}

// genC13ratOnly: the rational constructor part of C13's generator (NewNumberForTesting / NewNumber are v3 only)
func genC13ratOnly(tier string, r *Rng, emit func(Case)) {
	generators["C13"](tier, r, func(c Case) {
		if c.Op == "FromBigRat" {
			emit(c)
		}
	})
}

func init() {
	register("C18", genC18, map[string]runner{"Tri": runTri, "VHist": runHist})
}
