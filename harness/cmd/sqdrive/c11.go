package main

import (
	v1 "github.com/keep94/sqroot"
	v2 "github.com/keep94/sqroot/v2"
	v3 "github.com/keep94/sqroot/v3"
)

// C11: Positions builder histories.
//
//	Hist n (A p | R s e | B)*  => nbuilt {k s1 e1 .. sk ek End}*  nbuilt {k s1 e1 ..}* (re-read at the end)
//	Between s e                => k s1 e1 .. End
//	UpTo e                     => k s1 e1 .. End

type posV interface {
	ranges() []int // flattened start,end pairs
	end() int
}
type pos1 struct{ p v1.Positions }
type pos2 struct{ p v2.Positions }
type pos3 struct{ p v3.Positions }

func (x pos1) ranges() (r []int) {
	it := x.p.Ranges()
	for pr, ok := it(); ok; pr, ok = it() {
		r = append(r, pr.Start, pr.End)
	}
	return
}
func (x pos1) end() int { return x.p.End() }
func (x pos2) ranges() (r []int) {
	it := x.p.Ranges()
	for pr, ok := it(); ok; pr, ok = it() {
		r = append(r, pr.Start, pr.End)
	}
	return
}
func (x pos2) end() int { return x.p.End() }
func (x pos3) ranges() (r []int) {
	for pr := range x.p.All() {
		r = append(r, pr.Start, pr.End)
	}
	// the deprecated Ranges() must agree with All()
	it := x.p.Ranges()
	i := 0
	for pr, ok := it(); ok; pr, ok = it() {
		if i+1 >= len(r) || r[i] != pr.Start || r[i+1] != pr.End {
			return append(r, -77, -77)
		}
		i += 2
	}
	if i != len(r) {
		return append(r, -78, -78)
	}
	return
}
func (x pos3) end() int { return x.p.End() }

type builderV interface {
	add(p int)
	addRange(s, e int)
	build() posV
}
type b1 struct{ b v1.PositionsBuilder }
type b2 struct{ b v2.PositionsBuilder }
type b3 struct{ b v3.PositionsBuilder }

func (x *b1) add(p int)         { x.b.Add(p) }
func (x *b1) addRange(s, e int) { x.b.AddRange(s, e) }
func (x *b1) build() posV       { return pos1{x.b.Build()} }
func (x *b2) add(p int)         { x.b.Add(p) }
func (x *b2) addRange(s, e int) { x.b.AddRange(s, e) }
func (x *b2) build() posV       { return pos2{x.b.Build()} }
func (x *b3) add(p int)         { x.b.Add(p) }
func (x *b3) addRange(s, e int) { x.b.AddRange(s, e) }
func (x *b3) build() posV       { return pos3{x.b.Build()} }

func newBuilder(ver string) builderV {
	switch ver {
	case "v1":
		return &b1{}
	case "v2":
		return &b2{}
	}
	return &b3{}
}

func posObs(t *toks, p posV, withEnd bool) {
	r := p.ranges()
	t.i(len(r) / 2)
	for _, x := range r {
		t.i(x)
	}
	if withEnd {
		t.i(p.end())
	}
}

func runC11Hist(c *Case) []string {
	a := &cur{t: c.Args}
	n := a.int()
	b := newBuilder(c.Ver)
	var built []posV
	var first toks
	for i := 0; i < n; i++ {
		switch a.next() {
		case "A":
			b.add(a.int())
		case "R":
			s := a.int()
			e := a.int()
			b.addRange(s, e)
		case "B":
			p := b.build()
			built = append(built, p)
			posObs(&first, p, true)
		}
	}
	var out toks
	out.i(len(built))
	out = append(out, first...)
	out.i(len(built))
	for _, p := range built {
		posObs(&out, p, false)
	}
	return out
}

func runC11Between(c *Case) []string {
	a := &cur{t: c.Args}
	s, e := a.int(), a.int()
	var p posV
	switch c.Ver {
	case "v1":
		p = pos1{v1.Between(s, e)}
	case "v2":
		p = pos2{v2.Between(s, e)}
	default:
		p = pos3{v3.Between(s, e)}
	}
	var out toks
	posObs(&out, p, true)
	return out
}

func runC11UpTo(c *Case) []string {
	a := &cur{t: c.Args}
	e := a.int()
	var p posV
	switch c.Ver {
	case "v1":
		p = pos1{v1.UpTo(e)}
	case "v2":
		p = pos2{v2.UpTo(e)}
	default:
		p = pos3{v3.UpTo(e)}
	}
	var out toks
	posObs(&out, p, true)
	return out
}

var allVers = []string{"v1", "v2", "v3"}

var posExtremes = []int{MinInt, MinInt + 1, -1, 0, 1, MaxInt - 1, MaxInt}

func c11Val(r *Rng) int {
	switch r.Intn(10) {
	case 0:
		return r.Pick(posExtremes)
	case 1:
		return r.Range(-1000, 100000)
	case 2:
		return MaxInt - r.Intn(5)
	default:
		return r.Range(-3, 14)
	}
}

func genC11(tier string, r *Rng, emit func(Case)) {
	emitAll := func(op string, args toks) {
		for _, v := range allVers {
			emit(Case{Ver: v, Op: op, Args: args})
		}
	}
	// exhaustive small scope: every history of <= 2 calls over {-2..5}, then Build
	small := []int{-2, -1, 0, 1, 2, 3, 4, 5}
	var calls []toks
	for _, p := range small {
		calls = append(calls, toks{"A", itoa(p)})
	}
	for _, s := range small {
		for _, e := range small {
			calls = append(calls, toks{"R", itoa(s), itoa(e)})
		}
	}
	hist := func(ops ...toks) toks {
		var t toks
		t.i(len(ops))
		for _, o := range ops {
			t = append(t, o...)
		}
		return t
	}
	B := toks{"B"}
	emitAll("Hist", hist(B))
	for _, a := range calls {
		emitAll("Hist", hist(a, B))
	}
	for _, a := range calls {
		for _, b := range calls {
			// one version per pair keeps the quick tier small; version rotates
			v := allVers[(len(a)+len(b)+atoi(a[1])+atoi(b[1])+6)%3]
			if tier == "thorough" {
				emitAll("Hist", hist(a, b, B))
			} else {
				emit(Case{Ver: v, Op: "Hist", Args: hist(a, b, B)})
			}
		}
	}
	if tier == "thorough" {
		for _, a := range calls {
			for _, b := range calls {
				for _, c := range calls {
					v := allVers[r.Intn(3)]
					emit(Case{Ver: v, Op: "Hist", Args: hist(a, b, c, B)})
				}
			}
		}
	}
	// random histories with reuse and extremes
	n := 6000
	if tier == "thorough" {
		n = 150000
	}
	for i := 0; i < n; i++ {
		k := r.Range(1, 14)
		var ops []toks
		for j := 0; j < k; j++ {
			switch r.Intn(8) {
			case 0:
				ops = append(ops, B)
			case 1, 2:
				ops = append(ops, toks{"A", itoa(c11Val(r))})
			default:
				s := c11Val(r)
				e := c11Val(r)
				if r.Intn(3) == 0 && s < MaxInt-20 {
					e = s + r.Range(-1, 6)
				}
				ops = append(ops, toks{"R", itoa(s), itoa(e)})
			}
		}
		ops = append(ops, B)
		if r.Intn(4) == 0 {
			ops = append(ops, B)
		}
		emitAll("Hist", hist(ops...))
	}
	// long histories: many separate ranges stored at once (lengths around the powers of two, where a builder
	// that compacts, grows or switches representation would do so), in descending, ascending-then-back and
	// scattered order
	nl := 4
	if tier == "thorough" {
		nl = 60
	}
	for i := 0; i < nl; i++ {
		for _, k := range []int{31, 33, 63, 64, 65, 66, 127, 129, 200, 257} {
			var ops []toks
			shape := (i + k) % 4
			for j := 0; j < k; j++ {
				var pos int
				switch shape {
				case 0: // isolated positions, high to low
					pos = 3 * (k - j)
				case 1: // low to high, the last few out of order
					pos = 3 * j
					if j >= k-3 {
						pos = 3*r.Intn(k) + r.Intn(3)
					}
				case 2: // scattered
					pos = r.Intn(6 * k)
				default: // high to low in pairs
					pos = 4*(k-j) + (j%2)*2
				}
				if r.Intn(3) == 0 {
					ops = append(ops, toks{"R", itoa(pos), itoa(pos + r.Range(1, 3))})
				} else {
					ops = append(ops, toks{"A", itoa(pos)})
				}
				if r.Intn(60) == 0 {
					ops = append(ops, B)
				}
			}
			ops = append(ops, B)
			emit(Case{Ver: allVers[(i+k)%3], Op: "Hist", Args: hist(ops...)})
			if i == 0 {
				emitAll("Hist", hist(ops...))
			}
		}
	}
	grid := []int{MinInt, -5, -1, 0, 1, 2, 99, 100, 101, MaxInt - 1, MaxInt}
	for _, s := range grid {
		emitAll("UpTo", toks{itoa(s)})
		for _, e := range grid {
			emitAll("Between", toks{itoa(s), itoa(e)})
		}
	}
}

func init() {
	register("C11", genC11, map[string]runner{
		"Hist":    runC11Hist,
		"Between": runC11Between,
		"UpTo":    runC11UpTo,
	})
}
