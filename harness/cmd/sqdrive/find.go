package main

import (
	"sync"
	"sync/atomic"
	"time"

	v1 "github.com/keep94/sqroot"
	v2 "github.com/keep94/sqroot/v2"
	v3 "github.com/keep94/sqroot/v3"
)

// C09 / C15: pattern search.
//
//	Find <T|G> nraw.. nrep.. exp ws we  npat pat..  fn n   =>  cnt values..  [srccalls]
//
// The sequence is the window base.WithStart(ws).WithEnd(we) (negative: not applied).
// fn: 0 FindFirst, 1 FindFirstN n, 2 FindAll, 3 FindLast, 4 FindLastN n, 5 Find pulled n times, 6 FindR pulled n
// times, 7 Matches stopped after n items (n < 0: all; v1/v2: Find pulled), 8 BackwardMatches (v1/v2: FindR pulled),
// 9: v3 Matches run twice (re-run of a returned iterator), 10: v3 BackwardMatches run twice.
// For generator-backed bases (G) the number of digit-source calls after quiescence is appended.
func runFind(c *Case) []string {
	a := &cur{t: c.Args}
	kind, raw, rep, exp := parseBase(a)
	ws, we := a.int(), a.int()
	pat := a.ints()
	fn, n := a.int(), a.int()
	// the pattern is handed over as a window of a longer slice the caller still uses (spare capacity behind it):
	// the library must not write to the window nor around it
	const guard = 7777
	backing := make([]int, len(pat)+6)
	for i := range backing {
		backing[i] = guard
	}
	copy(backing[3:], pat)
	origPat := pat
	pat = backing[3 : 3+len(pat)]
	v, src, errs := makeTestNumber(c.Ver, kind, raw, rep, exp)
	if errs != "" {
		return []string{errs}
	}
	if ws >= 0 {
		v = v.WithStart(ws)
	}
	if we >= 0 {
		v = v.WithEnd(we)
	}
	// an eager search leaves the caller's pattern alone for its whole duration: the digit source of a generator-backed
	// Number (called by the library while the search runs) looks at it
	var touched int32
	if src != nil && fn <= 4 {
		want := append([]int(nil), pat...)
		src.probe = func() {
			if !eqInts(pat, want) {
				atomic.StoreInt32(&touched, 1)
			}
		}
	}
	var res []int
	// the lazy entry points (Find, FindR, Matches, BackwardMatches) have been handed the pattern when their iterator
	// is consumed: the caller may reuse its slice by then, the reported positions are those of the pattern as passed
	scramble := func() {
		for i := range pat {
			if pat[i] == 5 {
				pat[i] = 6
			} else {
				pat[i] = 5
			}
		}
	}
	// while a lazy search is under way another search with another pattern runs to completion: searches are
	// independent of each other
	other := func() {}
	otherPat := []int{3, 1, 3}
	if len(origPat) > 0 {
		otherPat = append([]int{origPat[len(origPat)-1]}, origPat...)
	}
	pull := func(it func() int, k int) {
		scramble()
		for i := 0; i < k; i++ {
			res = append(res, it())
			if i == 0 {
				other()
			}
		}
	}
	take := func(it func() int, k int) { // emulate a push iterator stopped after k items by a pull iterator
		scramble()
		first := true
		for k < 0 || len(res) < k {
			x := it()
			if x == -1 {
				break
			}
			res = append(res, x)
			if first {
				first = false
				other()
			}
		}
	}
	if finiteView := we >= 0 || len(rep) == 0; finiteView {
		switch c.Ver {
		case "v1":
			other = func() { v1.FindAll(v.s1, otherPat); v1.FindLast(v.s1, otherPat) }
		case "v2":
			other = func() { v2.FindAll(v.s2, otherPat); v2.FindLast(v.s2, otherPat) }
		default:
			other = func() {
				v3.FindFirst(v.s3, otherPat)
				if f := v.fin3(); f != nil {
					v3.FindLast(f, otherPat)
				}
			}
		}
	}
	// the caller's slice held another pattern of the same length in an earlier (completed) search and was then
	// overwritten in place: nothing of that earlier search may carry over
	if finiteView := we >= 0 || len(rep) == 0; finiteView && src == nil && len(pat) > 0 {
		for i := range pat {
			pat[i] = (origPat[0] + 1 + i) % 10
		}
		switch c.Ver {
		case "v1":
			v1.FindFirst(v.s1, pat)
		case "v2":
			v2.FindFirst(v.s2, pat)
		default:
			v3.FindFirst(v.s3, pat)
		}
		copy(pat, origPat)
	}
	switch c.Ver {
	case "v1":
		s := v.s1
		switch fn {
		case 0:
			res = []int{v1.FindFirst(s, pat)}
		case 1:
			res = v1.FindFirstN(s, pat, n)
		case 2:
			res = v1.FindAll(s, pat)
		case 3:
			res = []int{v1.FindLast(s, pat)}
		case 4:
			res = v1.FindLastN(s, pat, n)
		case 5:
			pull(v1.Find(s, pat), n)
		case 6:
			pull(v1.FindR(s, pat), n)
		case 7, 9:
			take(v1.Find(s, pat), n)
		case 11:
			res = concSame(func() []int { return v1.FindAll(s, pat) })
		case 12:
			res = concSame(func() []int { return v1.FindLastN(s, pat, MaxInt) })
		default:
			take(v1.FindR(s, pat), n)
		}
	case "v2":
		s := v.s2
		switch fn {
		case 0:
			res = []int{v2.FindFirst(s, pat)}
		case 1:
			res = v2.FindFirstN(s, pat, n)
		case 2:
			res = v2.FindAll(s, pat)
		case 3:
			res = []int{v2.FindLast(s, pat)}
		case 4:
			res = v2.FindLastN(s, pat, n)
		case 5:
			pull(v2.Find(s, pat), n)
		case 6:
			pull(v2.FindR(s, pat), n)
		case 7, 9:
			take(v2.Find(s, pat), n)
		case 11:
			res = concSame(func() []int { return v2.FindAll(s, pat) })
		case 12:
			res = concSame(func() []int { return v2.FindLastN(s, pat, MaxInt) })
		default:
			take(v2.FindR(s, pat), n)
		}
	default:
		s := v.s3
		f := v.fin3()
		needFinite := fn == 2 || fn == 3 || fn == 4 || fn == 6 || fn == 8 || fn == 10 || fn == 11 || fn == 12
		if needFinite && f == nil {
			return []string{"NOTFINITE"}
		}
		run := func(seq func(yield func(int) bool), k int) {
			scramble()
			if k == 0 {
				return
			}
			for x := range seq {
				if len(res) == 0 {
					other()
				}
				res = append(res, x)
				if k > 0 && len(res) >= k {
					break
				}
			}
		}
		switch fn {
		case 0:
			res = []int{v3.FindFirst(s, pat)}
		case 1:
			res = v3.FindFirstN(s, pat, n)
		case 2:
			res = v3.FindAll(f, pat)
		case 3:
			res = []int{v3.FindLast(f, pat)}
		case 4:
			res = v3.FindLastN(f, pat, n)
		case 5:
			pull(v3.Find(s, pat), n)
		case 6:
			pull(v3.FindR(f, pat), n)
		case 7:
			run(v3.Matches(s, pat), n)
		case 8:
			run(v3.BackwardMatches(f, pat), n)
		case 9:
			m := v3.Matches(s, pat)
			run(m, n)
			first := res
			res = nil
			run(m, n)
			if !eqInts(first, res) {
				res = append(res, -777) // a re-run must give the same positions
			}
		case 11, 12:
			// one iterator value shared by several goroutines ranging over it at the same time
			m := v3.Matches(s, pat)
			if fn == 12 {
				m = v3.BackwardMatches(f, pat)
			}
			res = concSame(func() []int {
				var got []int
				for x := range m {
					got = append(got, x)
				}
				return got
			})
		default:
			m := v3.BackwardMatches(f, pat)
			run(m, n)
			first := res
			res = nil
			run(m, n)
			if !eqInts(first, res) {
				res = append(res, -777)
			}
		}
	}
	for i, x := range backing {
		if (i < 3 || i >= 3+len(pat)) && x != guard {
			res = append(res, -555) // the library wrote outside the pattern it was given
			break
		}
	}
	if fn <= 4 && !eqInts(pat, origPat) {
		res = append(res, -556) // the library modified the caller's pattern
	}
	if atomic.LoadInt32(&touched) != 0 {
		res = append(res, -557) // the caller's pattern was altered while the search was running
	}
	var t toks
	t.ints(res)
	if src != nil && kind == "G" {
		calls, _, _ := quiesce(src)
		t.i(calls)
	}
	return t
}

// concSame runs f from 4 goroutines at once, several rounds; the common answer, or the first answer followed by
// -778 when two runs disagree (every run must give the sequential answer).
func concSame(f func() []int) []int {
	const g, rounds = 4, 25
	outs := make([][]int, g*rounds)
	for rd := 0; rd < rounds; rd++ {
		start := make(chan struct{})
		var wg sync.WaitGroup
		for i := 0; i < g; i++ {
			wg.Add(1)
			go func(k int) {
				defer wg.Done()
				defer func() {
					if e := recover(); e != nil {
						outs[k] = []int{-779}
					}
				}()
				<-start
				outs[k] = f()
			}(rd*g + i)
		}
		close(start)
		wg.Wait()
	}
	for _, o := range outs[1:] {
		if !eqInts(o, outs[0]) {
			return append(append([]int{}, outs[0]...), -778)
		}
	}
	return outs[0]
}

func eqInts(a, b []int) bool {
	if len(a) != len(b) {
		return false
	}
	for i := range a {
		if a[i] != b[i] {
			return false
		}
	}
	return true
}

// naive occurrence count of pat in text (start positions)
func naiveOcc(pat, text []int) []int {
	var out []int
	for i := 0; i+len(pat) <= len(text); i++ {
		ok := true
		for j := range pat {
			if text[i+j] != pat[j] {
				ok = false
				break
			}
		}
		if ok {
			out = append(out, i)
		}
	}
	return out
}

var patShapes = [][]int{{}, {0}, {1}, {0, 0}, {0, 1}, {1, 1, 1}, {0, 1, 0}, {0, 1, 0, 1}, {0, 0, 1, 0, 0}, {0, 1, 0, 0, 1, 0}, {1, 0, 1, 1, 0, 1, 0, 1}, {0, 0, 0, 0}}

func genFindCase(r *Rng, ver string, kind string) (toks, bool) {
	// text over a small alphabet so that borders, periods and overlapping occurrences abound
	alpha := r.Pick([]int{2, 2, 3})
	sym := func() int { return r.Intn(alpha) + r.Pick([]int{0, 0, 3})%(10-alpha+1) }
	_ = sym
	base := r.Pick([]int{0, 0, 3, 7})
	L := r.Pick([]int{0, 1, 5, 12, 30, 99, 100, 101, 160, 230})
	infinite := r.Intn(4) == 0
	var raw, rep []int
	mk := func(n int) []int {
		d := make([]int, n)
		for i := range d {
			d[i] = base + r.Intn(alpha)
		}
		return d
	}
	if infinite {
		raw = mk(r.Intn(40))
		rep = mk(r.Range(1, 7))
	} else {
		raw = mk(L)
	}
	// pattern: a shape over the same alphabet, a slice of the text, or with an out-of-range value
	var pat []int
	switch r.Intn(6) {
	case 0, 1:
		sh := patShapes[r.Intn(len(patShapes))]
		for _, x := range sh {
			pat = append(pat, base+x%alpha)
		}
	case 2, 3:
		full := append(append([]int{}, raw...), rep...)
		if len(full) > 0 {
			i := r.Intn(len(full))
			j := i + r.Pick([]int{1, 2, 3, 4, 5, 6, 8, 9, 12, 17})
			if j > len(full) {
				j = len(full)
			}
			pat = append(pat, full[i:j]...)
		}
	case 4:
		pat = mk(r.Range(1, 4))
		if r.Intn(3) == 0 {
			pat[r.Intn(len(pat))] = r.Pick([]int{-1, 10, MaxInt, MinInt})
		}
	default:
		pat = mk(L + r.Range(0, 2)) // as long as or longer than the text
	}
	if len(raw) > 0 && raw[0] == 0 && kind == "T" {
		raw[0] = base + 1 // NewNumberForTesting rejects a leading zero
		if raw[0] == 0 {
			raw[0] = 1
		}
	}
	if len(raw) == 0 && len(rep) > 0 && rep[0] == 0 && kind == "T" {
		rep[0] = 1
	}
	ws, we := -1, -1
	if r.Intn(3) == 0 {
		ws = r.Pick([]int{0, 1, 2, 5, 50, 99, 100, 101})
	}
	if r.Intn(3) == 0 || (infinite && r.Bool()) {
		we = r.Pick([]int{0, 1, 3, 10, 60, 99, 100, 101, 150, 220})
	}
	finite := !infinite || we >= 0
	var fns []int
	if finite {
		fns = []int{0, 1, 2, 3, 4, 5, 6, 7, 8, 9, 10}
	} else {
		fns = []int{0, 1, 5, 7, 9}
	}
	fn := fns[r.Intn(len(fns))]
	n := r.Pick([]int{-1, 0, 1, 2, 3, 5, 50, MaxInt, MaxInt - 1, 1 << 60, MinInt})
	if n > 1000 && (fn == 5 || fn == 6 || fn >= 7 || !finite) {
		n = 3 // huge counts only make sense for the N-variants on finite sequences
	}
	if !finite {
		// the search must find what it is asked for inside the first 300 digits
		text := append([]int{}, raw...)
		for len(text) < 330 {
			text = append(text, rep...)
		}
		text = text[:330]
		lo := 0
		if ws > 0 {
			lo = ws
		}
		occ := naiveOcc(pat, text[lo:300])
		need := 1
		if fn == 1 || fn == 5 || fn == 7 || fn == 9 {
			if n <= 0 && (fn == 7 || fn == 9) {
				n = 2
			}
			need = n
			if fn == 5 && n <= 0 {
				n = 1
				need = 1
			}
		}
		if len(pat) == 0 {
			occ = make([]int, 300)
		}
		if need > len(occ) {
			return nil, false
		}
	} else if (fn == 5 || fn == 6) && n < 0 {
		n = 3
	}
	var t toks
	t.s(kind)
	t.ints(raw)
	t.ints(rep)
	t.i(1)
	t.i(ws)
	t.i(we)
	t.ints(pat)
	t.i(fn)
	t.i(n)
	return t, true
}

// genConcFind: complete searches run by several goroutines at once over one shared iterator value / view (C05).
func genConcFind(r *Rng, emit func(Case), n int) {
	for i := 0; i < n; i++ {
		ver := allVers[i%3]
		alpha := r.Pick([]int{1, 2, 2, 3})
		base := r.Pick([]int{1, 3, 7})
		L := r.Pick([]int{30, 100, 101, 230, 400, 1200})
		raw := make([]int, L)
		for k := range raw {
			raw[k] = base + r.Intn(alpha)
		}
		sh := patShapes[r.Intn(len(patShapes))]
		var pat []int
		for _, x := range sh {
			pat = append(pat, base+x%alpha)
		}
		ws, we := -1, -1
		if r.Intn(3) == 0 {
			ws = r.Pick([]int{0, 1, 50, 100, 101})
		}
		if r.Intn(3) == 0 {
			we = r.Pick([]int{10, 99, 100, 101, 220})
		}
		var t toks
		t.s("T")
		t.ints(raw)
		t.ints(nil)
		t.i(1)
		t.i(ws)
		t.i(we)
		t.ints(pat)
		t.i(r.Pick([]int{11, 11, 12}))
		t.i(-1)
		emit(Case{Ver: ver, Op: "Find", Args: t})
	}
}

func genC09(tier string, r *Rng, emit func(Case)) {
	n := 6000
	if tier == "thorough" {
		n = 400000
	}
	// the empty pattern and one-digit patterns on every kind of window, through every entry point
	for _, ver := range allVers {
		for _, L := range []int{10, 120} {
			raw := make([]int, L)
			for i := range raw {
				raw[i] = 1 + r.Intn(2)
			}
			for _, ws := range []int{-1, 1, 3, 100} {
				for _, we := range []int{-1, 7, 150} {
					for fn := 0; fn <= 10; fn++ {
						for _, pat := range [][]int{{}, {1}} {
							var t toks
							t.s("T")
							t.ints(raw)
							t.ints(nil)
							t.i(1)
							t.i(ws)
							t.i(we)
							t.ints(pat)
							t.i(fn)
							t.i(r.Pick([]int{-1, 1, 2, 3, 50}))
							if fn == 5 || fn == 6 {
								t[len(t)-1] = "3"
							}
							emit(Case{Ver: ver, Op: "Find", Args: t})
						}
					}
				}
			}
		}
	}
	for i := 0; i < n; i++ {
		ver := allVers[i%3]
		if t, ok := genFindCase(r, ver, "T"); ok {
			emit(Case{Ver: ver, Op: "Find", Args: t})
		}
	}
}

// C15: infinite counted sources with the pattern planted at chosen positions in an otherwise match-free stream.
func genC15(tier string, r *Rng, emit func(Case)) {
	caseBudget = 4 * time.Second
	n := 150
	if tier == "thorough" {
		n = 2500
	}
	genPlanted(n, r, emit)
	genC15Rest(n, r, emit)
}

// genPlanted: searches that must stop at their answer, on counted endless sources (also run under C06: a search is an
// operation whose highest delivered position is the end of its last reported match)
func genPlanted(n int, r *Rng, emit func(Case)) {
	plantsAt := []int{0, 1, 50, 98, 99, 100, 101, 102, 199, 200, 201, 650, 1200, 2300, 5150, 3300, 4000, 4800, 7000}
	for i := 0; i < n; i++ {
		ver := allVers[i%3]
		m := r.Range(1, 5)
		pat := make([]int, m)
		for k := range pat {
			pat[k] = 7 + r.Intn(3) // digits 7..9 only occur inside plants
		}
		np := r.Range(1, 3)
		var plants []int
		at := plantsAt[r.Intn(len(plantsAt))]
		for len(plants) < np {
			plants = append(plants, at)
			at += m + r.Pick([]int{0, 1, 2, 50, 99, 100, 300})
		}
		end := plants[len(plants)-1] + m
		raw := make([]int, end+r.Intn(30))
		for k := range raw {
			raw[k] = 1 + r.Intn(5)
		}
		for _, p := range plants {
			copy(raw[p:], pat)
		}
		if raw[0] == 0 {
			raw[0] = 1
		}
		rep := []int{1 + r.Intn(5), 1 + r.Intn(5), 1 + r.Intn(5)}
		ws := -1
		if r.Intn(3) == 0 {
			ws = r.Pick([]int{0, 1, plants[0], plants[0] + 1, plants[len(plants)-1], 100})
		}
		// how many planted matches are visible from ws
		vis := 0
		for _, p := range plants {
			if ws < 0 || p >= ws {
				vis++
			}
		}
		fn := r.Pick([]int{0, 1, 5, 7, 9})
		cnt := r.Pick([]int{-1, 0, 1, 2, 3})
		switch fn {
		case 0:
			if vis == 0 {
				continue
			}
		case 1, 7, 9:
			if cnt > vis {
				cnt = vis
			}
			if (fn == 7 || fn == 9) && cnt < 0 {
				cnt = vis
			}
			if fn != 1 && cnt == 0 && vis > 0 {
				cnt = 1
			}
		case 5:
			if cnt < 1 {
				cnt = 1
			}
			if cnt > vis {
				cnt = vis
			}
			if cnt == 0 {
				continue
			}
		}
		var t toks
		t.s("G")
		t.ints(raw)
		t.ints(rep)
		t.i(1)
		t.i(ws)
		t.i(-1)
		t.ints(pat)
		t.i(fn)
		t.i(cnt)
		emit(Case{Ver: ver, Op: "Find", Args: t})
	}
}

// genOverlapFind: the requested matches overlap each other (a run of one digit longer than the pattern) and nothing
// matches afterwards: a lazy search must keep its partial-match state between the matches it reports.
func genOverlapFind(n int, r *Rng, emit func(Case)) {
	for i := 0; i < n; i++ {
		ver := allVers[i%3]
		m := r.Range(2, 3)
		d := 7 + r.Intn(3)
		pat := make([]int, m)
		for k := range pat {
			pat[k] = d
		}
		at := r.Pick([]int{0, 2, 50, 97, 98, 99, 100, 199, 650})
		run := m + r.Range(1, 2)
		raw := make([]int, at+run+r.Intn(20))
		for k := range raw {
			raw[k] = 1 + r.Intn(5)
		}
		for k := 0; k < run; k++ {
			raw[at+k] = d
		}
		if raw[0] == 0 {
			raw[0] = 1
		}
		var t toks
		t.s("G")
		t.ints(raw)
		t.ints([]int{1 + r.Intn(5), 1 + r.Intn(5)})
		t.i(1)
		t.i(-1)
		t.i(-1)
		t.ints(pat)
		t.i(r.Pick([]int{5, 5, 7, 9, 1}))
		t.i(2)
		emit(Case{Ver: ver, Op: "Find", Args: t})
	}
}

// genLongRun: the pattern is one digit repeated and the source holds a run of that digit far longer than the
// read-ahead allowance (or goes on with it for ever): the first matches are reported from the start of the run.
func genLongRun(n int, r *Rng, emit func(Case)) {
	for i := 0; i < n; i++ {
		ver := allVers[(i/2)%3]
		m := r.Range(2, 5)
		d := r.Intn(10)
		if i%3 == 1 {
			d = 0 // a run of zeros
		}
		pat := make([]int, m)
		for k := range pat {
			pat[k] = d
		}
		at := r.Pick([]int{1, 2, 50, 99, 100, 650})
		run := r.Pick([]int{1300, 2500, 5200})
		forever := i%4 == 3
		if forever {
			run = 5
		}
		raw := make([]int, at+run)
		for k := range raw {
			raw[k] = (d + 1 + r.Intn(5)) % 10
		}
		for k := 0; k < run; k++ {
			raw[at+k] = d
		}
		if raw[0] == 0 {
			raw[0] = 1 + (d+1)%9
			if raw[0] == d {
				raw[0] = 1 + (d+2)%9
			}
		}
		rep := []int{(d + 1) % 10, (d + 3) % 10}
		if forever {
			rep = []int{d}
		}
		var t toks
		t.s("G")
		t.ints(raw)
		t.ints(rep)
		t.i(1)
		t.i(-1)
		t.i(-1)
		t.ints(pat)
		fn := []int{0, 1, 7, 5, 9}[i%5]
		t.i(fn)
		t.i(r.Pick([]int{1, 2, 3}))
		emit(Case{Ver: ver, Op: "Find", Args: t})
	}
}

func genC15Rest(n int, r *Rng, emit func(Case)) {
	genOverlapFind(n/5+6, r, emit)
	genLongRun(n/10+12, r, emit)
	// v3: asking for n <= 0 matches consults nothing, on every kind of sequence (endless, a bounded view of an
	// endless Number, a finite Number, a window with a start)
	for i := 0; i < n/3+12; i++ {
		raw := make([]int, r.Pick([]int{1, 5, 99, 100, 101, 250}))
		for k := range raw {
			raw[k] = 1 + r.Intn(9)
		}
		var rep []int
		if r.Intn(3) != 0 {
			rep = []int{1 + r.Intn(5), 1 + r.Intn(5)}
		}
		pat := []int{raw[r.Intn(len(raw))]}
		if r.Bool() {
			pat = append(pat, 1+r.Intn(9))
		}
		var t toks
		t.s("G")
		t.ints(raw)
		t.ints(rep)
		t.i(1)
		t.i(r.Pick([]int{-1, -1, 0, 1, 100, 200}))
		t.i(r.Pick([]int{-1, 1, 10, 150, 700}))
		t.ints(pat)
		fn := 1
		if len(t) > 0 && r.Intn(3) == 0 {
			fn = 4 // FindLastN: only on finite sequence types (the runner answers NOTFINITE otherwise)
		}
		t.i(fn)
		t.i(r.Pick([]int{0, -1, MinInt}))
		emit(Case{Ver: "v3", Op: "Find", Args: t})
	}
	// finite sequences: every entry point terminates (compared with the specification as in C09)
	for i := 0; i < n; i++ {
		ver := allVers[i%3]
		if t, ok := genFindCase(r, ver, "G"); ok {
			if nraw := atoi(t[1]); ver == "v3" && nraw > 0 && t[2+nraw] == "0" && i%2 == 0 {
				// the generator ends its digits with some other value outside 0-9 (any such value is an end signal)
				end := r.Pick([]int{256, 1 << 32, MinInt, 10, 255, 1000, 512 + r.Intn(10), -256 + r.Intn(10), MaxInt, 1<<40 + 7})
				t2 := append(toks{}, t[:2+nraw]...)
				t2[1] = itoa(nraw + 1)
				t2 = append(t2, itoa(end))
				t = append(t2, t[2+nraw:]...)
			}
			emit(Case{Ver: ver, Op: "Find", Args: t})
		}
	}
}

func init() {
	register("C09", genC09, map[string]runner{"Find": runFind})
	register("C15", genC15, map[string]runner{"Find": runFind})
}
