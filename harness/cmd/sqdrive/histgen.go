package main

import (
	"runtime"
	"sync/atomic"
	"time"

	v3 "github.com/keep94/sqroot/v3"
)

func v3AsString(f v3.FiniteSequence) string { return v3.AsString(f) }

// quiesce waits until the producer goroutine has stopped consulting the source (the counter is stable over
// several polls), then returns (calls, calls after the end marker, re-entrant calls).
func quiesce(s *Source) (int, int, int) {
	if s == nil {
		return NA, NA, NA
	}
	last := int64(-1)
	stable := 0
	for i := 0; i < 40000 && stable < 6; i++ {
		// spin-wait ~80us (time.Sleep has millisecond granularity here); the producer runs on another core
		for t0 := time.Now(); time.Since(t0) < 80*time.Microsecond; {
			runtime.Gosched()
		}
		c := atomic.LoadInt64(&s.calls)
		if c == last {
			stable++
		} else {
			stable = 0
			last = c
		}
	}
	return int(last), int(atomic.LoadInt64(&s.afterEnd)), int(atomic.LoadInt64(&s.reentrant))
}

// static knowledge the generator keeps about each view it has created
type gview struct {
	hi    int  // upper bound on the positions of the view (MaxInt: none known)
	tfin  bool // v3: has a finite interface type (bounded by construction)
	isNum bool
}

// term: every traversal to the end of this view terminates after a practical number of digits
func (v gview) term() bool { return v.hi <= 3000 }

func minInt(a, b int) int {
	if a < b {
		return a
	}
	return b
}

type histGen struct {
	r        *Rng
	ver      string
	ops      []toks
	views    []gview
	nits     int
	length   int // digits of the base when finite, -1 when infinite
	withCnt  bool
	rootBase bool // a real root / rational: only positions below 50 are modelled
	capReads int  // when > 0: no traversal may deliver more than this many items
}

func (g *histGen) posit() int {
	r := g.r
	if g.rootBase {
		return r.Pick([]int{MinInt, -1, 0, 0, 1, 2, 3, 5, 7, 10, 20, 30, 45})
	}
	L := g.length
	cands := []int{-1, 0, 1, 2, 98, 99, 100, 101, 102, 198, 199, 200, 201, 250}
	if L >= 0 {
		cands = append(cands, L-1, L, L+1, L-1, L, L+1)
	}
	switch r.Intn(10) {
	case 0:
		return r.Pick([]int{MinInt, MinInt + 1, MaxInt, MaxInt - 1})
	case 1, 2, 3:
		return r.Range(-2, 12)
	case 4:
		return r.Range(0, 320)
	default:
		return r.Pick(cands)
	}
}

// safePosit avoids positions that would force an infinite Number to compute astronomically many digits.
func (g *histGen) safePosit(bounded bool) int {
	// (bounded: the view has a practical end)
	for {
		p := g.posit()
		if bounded || p < 2000 {
			return p
		}
	}
}

func (g *histGen) add(t ...string) { g.ops = append(g.ops, toks(t)) }

func (g *histGen) derive() {
	r := g.r
	i := r.Intn(len(g.views))
	par := g.views[i]
	a := g.posit()
	clampEnd := func(a int) int {
		if a < 0 {
			return 0
		}
		return a
	}
	switch r.Intn(7) {
	case 0, 1:
		// On a view without a practical end a huge start makes every later traversal compute forever.
		if !par.term() && a > 2000 {
			a = r.Range(0, 300)
		}
		g.add("WS", itoa(i), itoa(a))
		g.views = append(g.views, gview{hi: par.hi, tfin: par.tfin, isNum: par.isNum && a <= 0})
	case 2, 3, 4:
		g.add("WE", itoa(i), itoa(a))
		g.views = append(g.views, gview{hi: minInt(par.hi, clampEnd(a)), tfin: true, isNum: par.isNum})
	case 5:
		if !par.term() && a > 2000 {
			a = r.Range(0, 300)
		}
		g.add("FWS", itoa(i), itoa(a))
		if g.ver == "v3" && !par.tfin {
			g.views = append(g.views, par) // not applicable: the view list repeats the parent
		} else {
			g.views = append(g.views, gview{hi: par.hi, tfin: par.tfin, isNum: par.isNum && a <= 0})
		}
	default:
		if a < 0 {
			a = r.Range(0, 5) // negative limits panic (C16)
		}
		g.add("WSG", itoa(i), itoa(a))
		if par.isNum {
			g.views = append(g.views, gview{hi: minInt(par.hi, a), tfin: true, isNum: true})
		} else {
			g.views = append(g.views, par)
		}
	}
}

func (g *histGen) read() {
	r := g.r
	i := r.Intn(len(g.views))
	v := g.views[i]
	switch r.Intn(12) {
	case 0, 1, 2:
		g.add("AT", itoa(i), itoa(g.safePosit(v.term())))
	case 3, 4:
		kinds := []string{"F", "F", "F", "P"}
		if v.term() && (g.capReads == 0 || v.hi <= 50) {
			kinds = append(kinds, "B", "B")
			if g.ver == "v1" {
				kinds = append(kinds, "R1")
			}
		}
		if g.ver == "v1" {
			kinds = append(kinds, "I1", "IA1")
		}
		k := kinds[r.Intn(len(kinds))]
		if k == "IA1" {
			p := g.safePosit(v.term())
			if p < 0 {
				p = 0
			}
			g.add("NEW", itoa(i), k, itoa(p))
		} else {
			g.add("NEW", itoa(i), k)
		}
		g.nits++
	case 5, 6, 7, 8:
		if g.nits == 0 {
			g.add("AT", itoa(i), itoa(g.safePosit(v.term())))
			return
		}
		id := r.Intn(g.nits)
		pulls := r.Pick([]int{1, 1, 2, 3, 7, 101})
		if g.capReads > 0 {
			pulls = r.Pick([]int{1, 2})
		}
		for n := pulls; n > 0; n-- {
			g.add("NX", itoa(id))
		}
	case 9:
		// the same push iterator value run twice
		ks := []string{"A", "V", "K"}[r.Intn(3)]
		if ks == "K" && !(v.term() && (g.capReads == 0 || v.hi <= 50)) {
			ks = "V"
		}
		pick := func() int {
			k := r.Pick([]int{1, 2, 3, 5, 99, 101, -1})
			if (k < 0 || k > 10) && (!v.term() || g.capReads > 0) {
				k = r.Pick([]int{1, 2, 5, 8})
			}
			return k
		}
		g.add("RR", itoa(i), ks, itoa(pick()), itoa(pick()))
	case 10:
		kind := r.Pick([]int{0, 1, 2})
		ks := []string{"A", "V", "K"}[kind]
		if ks == "K" && !v.term() {
			ks = "A"
		}
		k := r.Pick([]int{0, 1, 2, 5, 99, 100, 101, 150, 205, -1})
		if k < 0 && !v.term() {
			k = 120
		}
		if g.capReads > 0 && (k > 10 || (k < 0 && v.hi > 50)) {
			k = r.Pick([]int{0, 1, 2, 5, 10})
		}
		g.add("RUN", itoa(i), ks, itoa(k))
	default:
		if v.term() && (g.capReads == 0 || v.hi <= 50) {
			if g.ver == "v1" && r.Bool() {
				g.add("ND", itoa(i))
			} else {
				g.add("STR", itoa(i))
			}
		} else if g.capReads > 0 {
			g.add("RUN", itoa(i), "V", itoa(r.Range(0, 10)))
		} else {
			g.add("RUN", itoa(i), "V", itoa(r.Range(0, 130)))
		}
	}
}

// randDigits returns n digits with a non-zero first digit.
func randDigits(r *Rng, n int) []int {
	d := make([]int, n)
	for i := range d {
		d[i] = r.Intn(10)
	}
	if n > 0 && d[0] == 0 {
		d[0] = 1 + r.Intn(9)
	}
	return d
}

var finiteLens = []int{1, 2, 4, 5, 8, 64, 99, 100, 101, 128, 199, 200, 201, 250, 256, 300}

// genHist emits random histories. profile: "read" (C04), "chain" (C07), "type" (C17: v3, derive heavy), "count" (C06).
func genHist(profile string, n int, r *Rng, emit func(Case)) {
	for c := 0; c < n; c++ {
		ver := allVers[c%3]
		if profile == "type" {
			ver = "v3"
		}
		g := &histGen{r: r, ver: ver, withCnt: profile == "count"}
		var raw, rep []int
		kind := "T"
		switch r.Intn(5) {
		case 0, 1, 2:
			L := r.Pick(finiteLens)
			raw = randDigits(r, L)
			g.length = L
		case 3:
			raw = randDigits(r, r.Range(1, 120))
			rep = make([]int, r.Range(1, 7))
			for i := range rep {
				rep[i] = r.Intn(10)
			}
			if r.Intn(6) == 0 {
				// a repeating block of zeros only: the digits still go on for ever
				for i := range rep {
					rep[i] = 0
				}
			}
			g.length = -1
		default:
			rep = randDigits(r, r.Range(1, 9))
			g.length = -1
		}
		if profile == "count" || (profile == "type" && r.Intn(4) == 0) {
			kind = "G" // generator-backed: opaque in v3 whatever the length of its stream
			if profile == "type" && len(raw) > 0 && r.Intn(4) == 0 {
				// a stream whose very first value is no digit 1-9: NewNumber returns the zero number (bounded by construction)
				raw[0] = r.Pick([]int{-1, 0, 10, -2, 256, 1000, MinInt})
				g.length = 0
			}
		}
		if (profile == "read" || profile == "chain" || profile == "count") && ver == "v3" && len(raw) >= 2 && r.Intn(6) == 0 {
			// a generator-backed Number whose stream misbehaves: its digits are the longest prefix within 0-9
			kind = "G"
			j := r.Range(1, len(raw)-1)
			raw[j] = r.Pick([]int{-1, 10, 11, -2, 256 + r.Intn(10), 512 + r.Intn(10), -256 + r.Intn(10), 1000, MaxInt, MinInt})
			g.length = j
		}
		if (profile == "type" || profile == "read") && r.Intn(4) == 0 {
			// real constructors: rationals (terminating and not), square and cube roots
			kind = []string{"Q", "Q", "S", "C"}[r.Intn(4)]
			num := r.Range(1, 400)
			den := r.Pick([]int{1, 2, 4, 5, 8, 10, 16, 25, 100, 1000, 3, 7, 9, 11, 13})
			if kind != "Q" {
				s := r.Range(1, 60)
				num, den = s*s, r.Pick([]int{1, 4, 25, 100, 9})
				if kind == "C" {
					num, den = s*s*s, r.Pick([]int{1, 8, 1000, 27})
				}
				if r.Bool() {
					num++
				}
				if r.Intn(8) == 0 {
					num = den // the radicand 1 (also written k/k)
				}
				if r.Intn(5) == 0 {
					// whole radicands with factors of the base (100 for square roots, 1000 for cube roots)
					den = 1
					if kind == "C" {
						num = 1000 * r.Pick([]int{2, 3, 6, 10, 7})
					} else {
						num = 100 * r.Pick([]int{1, 3, 5, 2, 7})
					}
				}
			}
			raw, rep = []int{num, den}, nil
			g.length = -1
			g.rootBase = true
		}
		// a finite test number is bounded by construction (finite type in v3); a generator-backed one never is,
		// although its traversals to the end terminate when its digit string is finite
		g.views = []gview{{hi: MaxInt, tfin: g.length >= 0 && kind == "T", isNum: true}}
		if g.rootBase {
			g.capReads = 40
		}
		if g.length >= 0 {
			g.views[0].hi = g.length
		}
		nops := r.Range(4, 40)
		if g.rootBase {
			nops = r.Range(3, 10)
		}
		for k := 0; k < nops; k++ {
			derive := 2
			if profile == "chain" || profile == "type" {
				derive = 5
			}
			if r.Intn(10) < derive {
				g.derive()
			} else {
				g.read()
			}
			if g.withCnt && r.Intn(3) == 0 {
				g.add("CNT")
			}
		}
		if g.withCnt {
			g.add("CNT")
		}
		var t toks
		t.s(kind)
		t.ints(raw)
		t.ints(rep)
		t.i(r.Pick([]int{-3, -1, 0, 1, 2, 7, 12}))
		t.i(len(g.ops))
		for _, o := range g.ops {
			t = append(t, o...)
		}
		emit(Case{Ver: ver, Op: "Hist", Args: t})
	}
}

// genConc: 2-4 goroutines reading one shared Number concurrently (real goroutines, real sync), each with its own
// random read history; positions around and beyond the blocks other goroutines are asking for.
func genConc(n int, r *Rng, emit func(Case)) {
	for c := 0; c < n; c++ {
		ver := allVers[c%3]
		var raw, rep []int
		length := -1
		if r.Intn(3) == 0 {
			rep = randDigits(r, r.Range(1, 7))
			raw = randDigits(r, r.Intn(30))
		} else {
			length = r.Pick(finiteLens)
			raw = randDigits(r, length)
		}
		var t toks
		t.s("T")
		t.ints(raw)
		t.ints(rep)
		t.i(1)
		g := r.Range(2, 4)
		t.i(g)
		for i := 0; i < g; i++ {
			hg := &histGen{r: r, ver: ver, length: length}
			hg.views = []gview{{hi: MaxInt, tfin: length >= 0, isNum: true}}
			if length >= 0 {
				hg.views[0].hi = length
			}
			for k := r.Range(2, 12); k > 0; k-- {
				if r.Intn(10) < 2 {
					hg.derive()
				} else {
					hg.read()
				}
			}
			t.i(len(hg.ops))
			for _, o := range hg.ops {
				t = append(t, o...)
			}
		}
		emit(Case{Ver: ver, Op: "Conc", Args: t})
	}
}

// genGrid: fresh Numbers, one or two derive ops with boundary arguments, then one complete read through one
// read path. Systematic over lengths x ends x starts x read paths (the boundary grid of C04/C07).
func genGrid(tier string, r *Rng, emit func(Case)) {
	lens := []int{1, 99, 100, 101, 150, 200, 201, 250, -1}
	ends := []int{-1, 0, 1, 99, 100, 101, 199, 200, 201, MaxInt}
	starts := []int{MinInt, 0, 1, 99, 100, 101, 200}
	reads := [][]string{{"RUN", "A", "-1"}, {"RUN", "V", "-1"}, {"STR"}, {"RUN", "K", "-1"}, {"NEW", "F"}, {"NEW", "B"}, {"AT"}}
	c := 0
	for _, L := range lens {
		for _, e := range ends {
			for _, s := range starts {
				for _, rd := range reads {
					c++
					if tier != "thorough" && r.Intn(3) != 0 {
						continue
					}
					ver := allVers[c%3]
					var raw, rep []int
					if L >= 0 {
						raw = randDigits(r, L)
					} else {
						rep = randDigits(r, 7)
					}
					hi := L
					if L < 0 {
						hi = MaxInt
					}
					if e < hi {
						hi = e
					}
					if hi < 0 {
						hi = 0
					}
					if hi > 3000 {
						continue // no practical end: complete reads do not terminate
					}
					var ops []toks
					view := "1"
					ops = append(ops, toks{"WE", "0", itoa(e)})
					if s > 0 || r.Bool() {
						ops = append(ops, toks{"WS", "1", itoa(s)})
						view = "2"
					}
					switch rd[0] {
					case "RUN":
						ops = append(ops, toks{"RUN", view, rd[1], rd[2]})
					case "STR":
						ops = append(ops, toks{"STR", view})
					case "NEW":
						ops = append(ops, toks{"NEW", view, rd[1]})
						for k := 0; k < hi+2 && k < 320; k++ {
							ops = append(ops, toks{"NX", "0"})
						}
					case "AT":
						for _, p := range []int{e - 1, e, e + 1, hi - 1, hi} {
							ops = append(ops, toks{"AT", "1", itoa(p)})
						}
					}
					var t toks
					t.s("T")
					t.ints(raw)
					t.ints(rep)
					t.i(1)
					t.i(len(ops))
					for _, o := range ops {
						t = append(t, o...)
					}
					emit(Case{Ver: ver, Op: "Hist", Args: t})
				}
			}
		}
	}
}

// genLongScans: infinite and long finite counted sources read far out (forward scans touching the frontier, single far
// jumps), so that read-ahead that grows with the position shows up against the bound.
func genLongScans(tier string, r *Rng, emit func(Case)) {
	n := 9
	if tier == "thorough" {
		n = 60
	}
	for i := 0; i < n; i++ {
		ver := allVers[i%3]
		var ops []toks
		far := r.Pick([]int{1700, 2600, 5200})
		switch i % 3 {
		case 0: // scan with At
			for p := 0; p <= far; p += r.Pick([]int{1, 3, 7}) {
				ops = append(ops, toks{"AT", "0", itoa(p)})
				if p%400 == 0 {
					ops = append(ops, toks{"CNT"})
				}
			}
		case 1: // a push / pull run over the frontier
			ops = append(ops, toks{"RUN", "0", "A", itoa(far)}, toks{"CNT"}, toks{"WS", "0", itoa(far / 2)}, toks{"RUN", "1", "V", itoa(far)}, toks{"CNT"})
		default: // far jumps
			ops = append(ops, toks{"AT", "0", itoa(far)}, toks{"CNT"}, toks{"AT", "0", itoa(far * 2)}, toks{"CNT"})
		}
		ops = append(ops, toks{"CNT"})
		var t toks
		t.s("G")
		t.ints(nil)
		t.ints(randDigits(r, r.Range(1, 5)))
		t.i(1)
		t.i(len(ops))
		for _, o := range ops {
			t = append(t, o...)
		}
		emit(Case{Ver: ver, Op: "Hist", Args: t})
	}
}

// genEmptyViews: views of an endless counted Number whose start lies far beyond their end: every read of such a view
// is empty, and none of them consults anything (neither the far start nor the end is ever reached).
func genEmptyViews(tier string, r *Rng, emit func(Case)) {
	n := 9
	if tier == "thorough" {
		n = 90
	}
	for i := 0; i < n; i++ {
		ver := allVers[i%3]
		S := r.Pick([]int{1500, 5000, 20000})
		E := r.Pick([]int{1, 10, 100, 101})
		var ops []toks
		if r.Bool() {
			ops = append(ops, toks{"WS", "0", itoa(S)}, toks{"WE", "1", itoa(E)})
		} else {
			ops = append(ops, toks{"WE", "0", itoa(E)}, toks{"WS", "1", itoa(S)})
		}
		ops = append(ops, toks{"CNT"})
		switch r.Intn(4) {
		case 0:
			ops = append(ops, toks{"RUN", "2", "A", "-1"})
		case 1:
			ops = append(ops, toks{"RUN", "2", "V", "5"})
		case 2:
			ops = append(ops, toks{"NEW", "2", "F"}, toks{"NX", "0"}, toks{"NX", "0"})
		default:
			ops = append(ops, toks{"STR", "2"})
		}
		ops = append(ops, toks{"CNT"})
		var t toks
		t.s("G")
		t.ints(nil)
		t.ints(randDigits(r, r.Range(1, 5)))
		t.i(1)
		t.i(len(ops))
		for _, o := range ops {
			t = append(t, o...)
		}
		emit(Case{Ver: ver, Op: "Hist", Args: t})
	}
}

func init() {
	ops := map[string]runner{"Hist": runHist}
	register("C04", func(tier string, r *Rng, emit func(Case)) {
		n := 900
		if tier == "thorough" {
			n = 100000
		}
		genGrid(tier, r, emit)
		genHist("read", n, r, emit)
	}, ops)
	register("C07", func(tier string, r *Rng, emit func(Case)) {
		n := 1500
		if tier == "thorough" {
			n = 150000
		}
		genGrid(tier, r, emit)
		genHist("chain", n, r, emit)
	}, ops)
	register("C05", func(tier string, r *Rng, emit func(Case)) {
		n := 400
		if tier == "thorough" {
			n = 6000
		}
		genConc(n, r, emit)
		nr := 24
		if tier == "thorough" {
			nr = 300
		}
		genConcRoots(r, emit, nr)
		nf := 60
		if tier == "thorough" {
			nf = 1500
		}
		genConcFind(r, emit, nf)
		// printing, formatting and searching from several goroutines at once (cases of C10, C08, C09 run in parallel)
		np := 25
		if tier == "thorough" {
			np = 400
		}
		genPar(r, emit, "C10", 40, np)
		genPar(r, emit, "C08", 100, np)
		genPar(r, emit, "C09", 100, np)
		// two different prints / formattings at the same time
		genPar2(r, emit, "C10", 20, np)
		genPar2(r, emit, "C08", 60, np)
		// long tables with the count margin on, of different lengths but the same margin width
		for i := 0; i < 9; i++ {
			mk := func(end int) toks {
				var t toks
				t.s("T")
				t.ints(randDigits(r, r.Range(1, 40)))
				t.ints(randDigits(r, r.Range(1, 6)))
				t.i(1)
				t.i(-1)
				t.i(-1)
				t.i(1)
				t.i(0)
				t.i(end)
				t.i(r.Pick([]int{10, 50}))
				t.i(r.Pick([]int{0, 5, 10}))
				t.bool(true)
				t.i('.')
				t.bool(true)
				t.bool(false)
				t.i(0)
				return t
			}
			a, b := mk(r.Range(1100, 3000)), mk(r.Range(1100, 3000))
			emit(Case{Ver: allVers[i%3], Op: "Par2", Args: append(append(toks{"C10", "Sprint", itoa(len(a))}, a...), b...)})
		}
		genWidePar2(r, emit)
		// one Positions value built out of order, used for the first time by several goroutines at once
		for i := 0; i < 12; i++ {
			ver := allVers[i%3]
			var t toks
			t.s("T")
			t.ints(randDigits(r, r.Range(1, 40)))
			t.ints(randDigits(r, r.Range(1, 6)))
			t.i(1)
			t.i(-1)
			t.i(-1)
			nr := r.Range(3, 9)
			t.i(nr)
			at := 0
			for k := 0; k < nr; k++ {
				at += r.Range(1, 40)
				t.i(at)
				at += r.Range(1, 60)
				t.i(at)
			}
			t.i(r.Pick([]int{10, 50}))
			t.i(r.Pick([]int{0, 5}))
			t.bool(true)
			t.i('.')
			t.bool(true)
			t.bool(false)
			t.i(0)
			emit(Case{Ver: ver, Op: "SharedPos", Args: t})
		}
	}, map[string]runner{"Hist": runHist, "Conc": runConc, "ConcRoots": runConcRoots, "Find": runFind, "Par": runPar, "Par2": runPar2, "SharedPos": runSharedPos})
	register("C06", func(tier string, r *Rng, emit func(Case)) {
		n := 600
		if tier == "thorough" {
			n = 8000
		}
		genHist("count", n, r, emit)
		genLongScans(tier, r, emit)
		genEmptyViews(tier, r, emit)
		// printing to a failing writer must not consult the digits of later ranges either (as C12)
		genC12Far(tier, r, emit)
		genPrintLazy(tier, r, emit)
		// searches are operations too: nothing is consulted beyond the end of the last reported match (+ read-ahead)
		old := caseBudget
		caseBudget = 4 * time.Second
		genPlanted(n/10, r, emit)
		caseBudget = old
	}, map[string]runner{"Hist": runHist, "Fprint": runFprint, "Find": runFind})
	register("C17", func(tier string, r *Rng, emit func(Case)) {
		n := 1500
		if tier == "thorough" {
			n = 150000
		}
		genHist("type", n, r, emit)
	}, ops)
}

// genWidePar2: long formatted texts of two different Numbers padded to a width, produced at the same time
func genWidePar2(r *Rng, emit func(Case)) {
	for i := 0; i < 9; i++ {
		mk := func() toks {
			var t toks
			t.s("T")
			t.ints(randDigits(r, r.Range(1, 40)))
			t.ints(randDigits(r, r.Range(1, 6)))
			t.i(r.Pick([]int{0, 1, 3}))
			t.i(-1)
			t.i(r.Pick([]int{0, 1}))
			prec := r.Range(300, 500)
			t.i(prec + r.Range(5, 30))
			t.i(prec)
			t.i(int(r.Pick([]int{'f', 'e', 'g'})))
			return t
		}
		a, b := mk(), mk()
		emit(Case{Ver: allVers[i%3], Op: "Par2", Args: append(append(toks{"C08", "Fmt", itoa(len(a))}, a...), b...)})
	}
}
