package main

import (
	"fmt"
	"io"
	"math/big"
	"os"

	v1 "github.com/keep94/sqroot"
	v2 "github.com/keep94/sqroot/v2"
	v3 "github.com/keep94/sqroot/v3"
)

// C16: every exported function and method on a boundary grid.
//
//	Api <name> <recv> i1 i2 i3  =>  OK | PANIC msg
//
// recv: Z the zero number, F a finite Number (12345, exponent 2), I an endless Number (repeating), W the view
// F.WithStart(2) (a Sequence that is not a Number). i1..i3 are the integer arguments (position, limit, count,
// numerator/denominator, option value, selector of a slice from sliceTable). Results are consumed completely
// (iterators drained on finite receivers) so that lazily raised panics surface.
var sliceTable = [][]int{nil, {}, {1}, {1, 2, 3}, {3, 4}, {0}, {9, 9, 9, 9, 9, 9, 9, 9, 9, 9, 9, 9}, {-1}, {10}, {1, -5, 2}}

func pickSlice(i int) []int {
	return sliceTable[int(uint64(i)%uint64(len(sliceTable)))]
}

func smallN(i int) int { // keeps counts that drive loops small; extreme values are kept as they are for guards
	return i
}

func drain1(it func() (v1.Digit, bool)) {
	for _, ok := it(); ok; _, ok = it() {
	}
}
func drain2(it func() (v2.Digit, bool)) {
	for _, ok := it(); ok; _, ok = it() {
	}
}
func drain3(it func() (v3.Digit, bool)) {
	for _, ok := it(); ok; _, ok = it() {
	}
}
func drainInts(it func() int) {
	for i := 0; i < 2000; i++ {
		if it() == -1 {
			return
		}
	}
}

func bigRat(i1, i2 int) *big.Rat {
	if i2 == 0 {
		i2 = 1 // a big.Rat cannot have a zero denominator
	}
	return new(big.Rat).SetFrac(big.NewInt(int64(i1)), big.NewInt(int64(i2)))
}

func withStdoutDiscarded(f func()) {
	old := os.Stdout
	dn, err := os.OpenFile(os.DevNull, os.O_WRONLY, 0)
	if err == nil {
		os.Stdout = dn
		defer func() { os.Stdout = old; dn.Close() }()
	}
	f()
}

var apiNames = map[string][]string{} // version -> names handled (filled by the tables below)

type apiFn func(recv string, i1, i2, i3 int)

func recv1(r string) (*v1.Number, v1.Sequence) {
	var n *v1.Number
	switch r {
	case "Z":
		n = v1.Sqrt(0)
	case "I":
		n = v1.NewNumberFromBigRat(big.NewRat(1, 7))
	default:
		n = v1.NewNumberFromBigRat(big.NewRat(12345, 1000))
	}
	if r == "W" {
		return n, n.WithStart(2)
	}
	return n, n
}
func recv2(r string) (*v2.Number, v2.Sequence) {
	var n *v2.Number
	switch r {
	case "Z":
		n = v2.Sqrt(0)
	case "I":
		n = v2.NewNumberFromBigRat(big.NewRat(1, 7))
	default:
		n = v2.NewNumberFromBigRat(big.NewRat(12345, 1000))
	}
	if r == "W" {
		return n, n.WithStart(2)
	}
	return n, n
}
func recv3(r string) (v3.Number, v3.Sequence, v3.FiniteSequence, *v3.FiniteNumber) {
	switch r {
	case "Z":
		n := v3.Sqrt(0)
		f, _ := n.(*v3.FiniteNumber)
		return n, n, f, f
	case "I":
		n := v3.NewNumberFromBigRat(big.NewRat(1, 7))
		return n, n, nil, nil
	}
	f, _ := v3.NewFiniteNumber([]int{1, 2, 3, 4, 5}, 2)
	if r == "W" {
		w := f.FiniteWithStart(2)
		return nil, w, w, nil
	}
	return f, f, f, f
}

func api1() map[string]apiFn {
	m := map[string]apiFn{
		"Sqrt":                func(_ string, a, b, c int) { v1.Sqrt(int64(a)).At(3) },
		"SqrtRat":             func(_ string, a, b, c int) { v1.SqrtRat(int64(a), int64(b)).At(3) },
		"SqrtBigInt":          func(_ string, a, b, c int) { v1.SqrtBigInt(big.NewInt(int64(a))).At(3) },
		"SqrtBigRat":          func(_ string, a, b, c int) { v1.SqrtBigRat(bigRat(a, b)).At(3) },
		"CubeRoot":            func(_ string, a, b, c int) { v1.CubeRoot(int64(a)).At(3) },
		"CubeRootRat":         func(_ string, a, b, c int) { v1.CubeRootRat(int64(a), int64(b)).At(3) },
		"CubeRootBigInt":      func(_ string, a, b, c int) { v1.CubeRootBigInt(big.NewInt(int64(a))).At(3) },
		"CubeRootBigRat":      func(_ string, a, b, c int) { v1.CubeRootBigRat(bigRat(a, b)).At(3) },
		"NewNumberFromBigRat": func(_ string, a, b, c int) { v1.NewNumberFromBigRat(bigRat(a, b)).At(3) },
		"Number.At":           func(r string, a, b, c int) { n, _ := recv1(r); n.At(a) },
		"Number.Exponent":     func(r string, a, b, c int) { n, _ := recv1(r); n.Exponent() },
		"Number.IsZero":       func(r string, a, b, c int) { n, _ := recv1(r); n.IsZero() },
		"Number.String":       func(r string, a, b, c int) { n, _ := recv1(r); _ = n.String() },
		"Number.Format": func(r string, a, b, c int) {
			n, _ := recv1(r)
			_ = fmt.Sprintf("%10.3f|%-5g|%e|%v|%d|%+#08.2x", n, n, n, n, n, n)
		},
		"Number.WithStart": func(r string, a, b, c int) { _, s := recv1(r); drain1(s.WithStart(a).WithEnd(60).FullIterator()) },
		"Number.WithEnd": func(r string, a, b, c int) {
			_, s := recv1(r)
			drain1(s.WithEnd(a).WithStart(b).WithEnd(60).FullIterator())
		},
		"Number.WithSignificant": func(r string, a, b, c int) { n, _ := recv1(r); n.WithSignificant(a).At(0) },
		"Number.Iterator":        func(r string, a, b, c int) { n, _ := recv1(r); drainInts(n.WithSignificant(40).Iterator()) },
		"Number.IteratorAt":      func(r string, a, b, c int) { n, _ := recv1(r); drainInts(n.WithSignificant(40).IteratorAt(a)) },
		"Number.NumDigits":       func(r string, a, b, c int) { n, _ := recv1(r); n.WithSignificant(40).NumDigits() },
		"Number.Reverse":         func(r string, a, b, c int) { n, _ := recv1(r); drainInts(n.WithSignificant(40).Reverse()) },
		"Number.FullIterator":    func(r string, a, b, c int) { _, s := recv1(r); drain1(s.WithEnd(50).FullIterator()) },
		"Number.FullReverse":     func(r string, a, b, c int) { _, s := recv1(r); drain1(s.WithEnd(50).FullReverse()) },
		"Find":                   func(r string, a, b, c int) { _, s := recv1(r); drainInts(v1.Find(s.WithEnd(50), pickSlice(a))) },
		"FindR":                  func(r string, a, b, c int) { _, s := recv1(r); drainInts(v1.FindR(s.WithEnd(50), pickSlice(a))) },
		"FindAll":                func(r string, a, b, c int) { _, s := recv1(r); v1.FindAll(s.WithEnd(50), pickSlice(a)) },
		"FindFirst":              func(r string, a, b, c int) { _, s := recv1(r); v1.FindFirst(s.WithEnd(50), pickSlice(a)) },
		"FindFirstN":             func(r string, a, b, c int) { _, s := recv1(r); v1.FindFirstN(s.WithEnd(50), pickSlice(a), b) },
		"FindLast":               func(r string, a, b, c int) { _, s := recv1(r); v1.FindLast(s.WithEnd(50), pickSlice(a)) },
		"FindLastN":              func(r string, a, b, c int) { _, s := recv1(r); v1.FindLastN(s.WithEnd(50), pickSlice(a), b) },
		"PositionsBuilder.Add": func(r string, a, b, c int) {
			var pb v1.PositionsBuilder
			pb.Add(a).Add(b).Add(c)
			p := pb.Build()
			p.End()
		},
		"PositionsBuilder.AddRange": func(r string, a, b, c int) {
			var pb v1.PositionsBuilder
			pb.AddRange(a, b).AddRange(c, a).AddRange(b, c)
			p := pb.Build()
			it := p.Ranges()
			for _, ok := it(); ok; _, ok = it() {
			}
		},
		"PositionsBuilder.Build": func(r string, a, b, c int) {
			var pb v1.PositionsBuilder
			pb.Build()
			pb.Add(a)
			pb.Build()
			pb.Build()
			// a builder is reusable after Build, whatever order its ranges came in
			pb.Add(b).Add(a).Add(c).AddRange(a-2, a-1)
			pb.Build()
			pb.AddRange(c, b)
			pb.Add(a)
			pb.Build()
			pb.AddRange(b, c).AddRange(a, b)
			pb.Build()
			pb.Add(c)
		},
		"Positions.End":    func(r string, a, b, c int) { var p v1.Positions; p.End(); v1.UpTo(a).End() },
		"Positions.Ranges": func(r string, a, b, c int) { var p v1.Positions; it := p.Ranges(); it(); it() },
		"UpTo":             func(r string, a, b, c int) { v1.UpTo(a) },
		"Between":          func(r string, a, b, c int) { v1.Between(a, b) },
		"DigitsPerRow": func(r string, a, b, c int) {
			_, s := recv1(r)
			v1.Sprint(s, v1.UpTo(30), v1.DigitsPerRow(a), v1.DigitsPerColumn(b))
		},
		"DigitsPerColumn": func(r string, a, b, c int) {
			_, s := recv1(r)
			v1.Sprint(s, v1.UpTo(30), v1.DigitsPerColumn(a), v1.DigitsPerRow(b))
		},
		"ShowCount": func(r string, a, b, c int) {
			_, s := recv1(r)
			v1.Sprint(s, v1.UpTo(30), v1.ShowCount(a%2 == 0), v1.DigitsPerRow(b))
		},
		"MissingDigit": func(r string, a, b, c int) {
			_, s := recv1(r)
			v1.Sprint(s, v1.Between(3, 30), v1.MissingDigit(rune(a)))
		},
		"Sprint": func(r string, a, b, c int) {
			_, s := recv1(r)
			lo, hi := a, b
			if r == "I" && hi > lo+200 {
				hi = lo + 200 // an endless receiver computes every digit up to the end of the request
			}
			// finite receivers: any positions, however far (the row labels grow with the end of the request)
			v1.Sprint(s, v1.Between(lo, hi), v1.DigitsPerRow(c))
		},
		"Fprint": func(r string, a, b, c int) {
			_, s := recv1(r)
			v1.Fprint(io.Discard, s, v1.UpTo(40), v1.DigitsPerRow(a), v1.DigitsPerColumn(b))
		},
		"Print": func(r string, a, b, c int) {
			_, s := recv1(r)
			withStdoutDiscarded(func() { v1.Print(s, v1.UpTo(20), v1.DigitsPerRow(a)) })
		},
	}
	return m
}

func api2() map[string]apiFn {
	m := map[string]apiFn{
		"Sqrt":                func(_ string, a, b, c int) { v2.Sqrt(int64(a)).At(3) },
		"SqrtRat":             func(_ string, a, b, c int) { v2.SqrtRat(int64(a), int64(b)).At(3) },
		"SqrtBigInt":          func(_ string, a, b, c int) { v2.SqrtBigInt(big.NewInt(int64(a))).At(3) },
		"SqrtBigRat":          func(_ string, a, b, c int) { v2.SqrtBigRat(bigRat(a, b)).At(3) },
		"CubeRoot":            func(_ string, a, b, c int) { v2.CubeRoot(int64(a)).At(3) },
		"CubeRootRat":         func(_ string, a, b, c int) { v2.CubeRootRat(int64(a), int64(b)).At(3) },
		"CubeRootBigInt":      func(_ string, a, b, c int) { v2.CubeRootBigInt(big.NewInt(int64(a))).At(3) },
		"CubeRootBigRat":      func(_ string, a, b, c int) { v2.CubeRootBigRat(bigRat(a, b)).At(3) },
		"NewNumberFromBigRat": func(_ string, a, b, c int) { v2.NewNumberFromBigRat(bigRat(a, b)).At(3) },
		"Number.At":           func(r string, a, b, c int) { n, _ := recv2(r); n.At(a) },
		"Number.Exponent":     func(r string, a, b, c int) { n, _ := recv2(r); n.Exponent() },
		"Number.IsZero":       func(r string, a, b, c int) { n, _ := recv2(r); n.IsZero() },
		"Number.String":       func(r string, a, b, c int) { n, _ := recv2(r); _ = n.String() },
		"Number.Format": func(r string, a, b, c int) {
			n, _ := recv2(r)
			_ = fmt.Sprintf("%10.3f|%-5g|%e|%v|%d|%+#08.2x", n, n, n, n, n, n)
		},
		"Number.WithStart": func(r string, a, b, c int) { _, s := recv2(r); drain2(s.WithStart(a).WithEnd(60).Iterator()) },
		"Number.WithEnd": func(r string, a, b, c int) {
			_, s := recv2(r)
			drain2(s.WithEnd(a).WithStart(b).WithEnd(60).Iterator())
		},
		"Number.WithSignificant": func(r string, a, b, c int) { n, _ := recv2(r); n.WithSignificant(a).At(0) },
		"Number.Iterator":        func(r string, a, b, c int) { _, s := recv2(r); drain2(s.WithEnd(50).Iterator()) },
		"Number.Reverse":         func(r string, a, b, c int) { _, s := recv2(r); drain2(s.WithEnd(50).Reverse()) },
		"Find":                   func(r string, a, b, c int) { _, s := recv2(r); drainInts(v2.Find(s.WithEnd(50), pickSlice(a))) },
		"FindR":                  func(r string, a, b, c int) { _, s := recv2(r); drainInts(v2.FindR(s.WithEnd(50), pickSlice(a))) },
		"FindAll":                func(r string, a, b, c int) { _, s := recv2(r); v2.FindAll(s.WithEnd(50), pickSlice(a)) },
		"FindFirst":              func(r string, a, b, c int) { _, s := recv2(r); v2.FindFirst(s.WithEnd(50), pickSlice(a)) },
		"FindFirstN":             func(r string, a, b, c int) { _, s := recv2(r); v2.FindFirstN(s.WithEnd(50), pickSlice(a), b) },
		"FindLast":               func(r string, a, b, c int) { _, s := recv2(r); v2.FindLast(s.WithEnd(50), pickSlice(a)) },
		"FindLastN":              func(r string, a, b, c int) { _, s := recv2(r); v2.FindLastN(s.WithEnd(50), pickSlice(a), b) },
		"PositionsBuilder.Add": func(r string, a, b, c int) {
			var pb v2.PositionsBuilder
			pb.Add(a).Add(b).Add(c)
			p := pb.Build()
			p.End()
		},
		"PositionsBuilder.AddRange": func(r string, a, b, c int) {
			var pb v2.PositionsBuilder
			pb.AddRange(a, b).AddRange(c, a).AddRange(b, c)
			p := pb.Build()
			it := p.Ranges()
			for _, ok := it(); ok; _, ok = it() {
			}
		},
		"PositionsBuilder.Build": func(r string, a, b, c int) {
			var pb v2.PositionsBuilder
			pb.Build()
			pb.Add(a)
			pb.Build()
			pb.Build()
			// a builder is reusable after Build, whatever order its ranges came in
			pb.Add(b).Add(a).Add(c).AddRange(a-2, a-1)
			pb.Build()
			pb.AddRange(c, b)
			pb.Add(a)
			pb.Build()
			pb.AddRange(b, c).AddRange(a, b)
			pb.Build()
			pb.Add(c)
		},
		"Positions.End":    func(r string, a, b, c int) { var p v2.Positions; p.End(); v2.UpTo(a).End() },
		"Positions.Ranges": func(r string, a, b, c int) { var p v2.Positions; it := p.Ranges(); it(); it() },
		"UpTo":             func(r string, a, b, c int) { v2.UpTo(a) },
		"Between":          func(r string, a, b, c int) { v2.Between(a, b) },
		"DigitsPerRow": func(r string, a, b, c int) {
			_, s := recv2(r)
			v2.Sprint(s, v2.UpTo(30), v2.DigitsPerRow(a), v2.DigitsPerColumn(b))
		},
		"DigitsPerColumn": func(r string, a, b, c int) {
			_, s := recv2(r)
			v2.Sprint(s, v2.UpTo(30), v2.DigitsPerColumn(a), v2.DigitsPerRow(b))
		},
		"ShowCount": func(r string, a, b, c int) {
			_, s := recv2(r)
			v2.Sprint(s, v2.UpTo(30), v2.ShowCount(a%2 == 0), v2.DigitsPerRow(b))
		},
		"MissingDigit": func(r string, a, b, c int) {
			_, s := recv2(r)
			v2.Sprint(s, v2.Between(3, 30), v2.MissingDigit(rune(a)))
		},
		"Sprint": func(r string, a, b, c int) {
			_, s := recv2(r)
			lo, hi := a, b
			if r == "I" && hi > lo+200 {
				hi = lo + 200 // an endless receiver computes every digit up to the end of the request
			}
			// finite receivers: any positions, however far (the row labels grow with the end of the request)
			v2.Sprint(s, v2.Between(lo, hi), v2.DigitsPerRow(c))
		},
		"Fprint": func(r string, a, b, c int) {
			_, s := recv2(r)
			v2.Fprint(io.Discard, s, v2.UpTo(40), v2.DigitsPerRow(a), v2.DigitsPerColumn(b))
		},
		"Print": func(r string, a, b, c int) {
			_, s := recv2(r)
			withStdoutDiscarded(func() { v2.Print(s, v2.UpTo(20), v2.DigitsPerRow(a)) })
		},
	}
	return m
}

type apiGen struct{ vals []int }

func (g apiGen) Generate() (func() int, int) {
	i := 0
	return func() int {
		if i >= len(g.vals) {
			return -1
		}
		x := g.vals[i]
		i++
		return x
	}, 3
}

func api3() map[string]apiFn {
	fin := func(r string) v3.FiniteSequence {
		_, s, f, _ := recv3(r)
		if f != nil {
			return f
		}
		return s.WithEnd(50)
	}
	fnum := func(r string) *v3.FiniteNumber {
		n, _, _, f := recv3(r)
		if f != nil {
			return f
		}
		if n != nil {
			return n.WithSignificant(40)
		}
		z, _ := v3.NewFiniteNumber([]int{7, 7}, 1)
		return z
	}
	m := map[string]apiFn{
		"Sqrt":                func(_ string, a, b, c int) { v3.Sqrt(int64(a)).At(3) },
		"SqrtRat":             func(_ string, a, b, c int) { v3.SqrtRat(int64(a), int64(b)).At(3) },
		"SqrtBigInt":          func(_ string, a, b, c int) { v3.SqrtBigInt(big.NewInt(int64(a))).At(3) },
		"SqrtBigRat":          func(_ string, a, b, c int) { v3.SqrtBigRat(bigRat(a, b)).At(3) },
		"CubeRoot":            func(_ string, a, b, c int) { v3.CubeRoot(int64(a)).At(3) },
		"CubeRootRat":         func(_ string, a, b, c int) { v3.CubeRootRat(int64(a), int64(b)).At(3) },
		"CubeRootBigInt":      func(_ string, a, b, c int) { v3.CubeRootBigInt(big.NewInt(int64(a))).At(3) },
		"CubeRootBigRat":      func(_ string, a, b, c int) { v3.CubeRootBigRat(bigRat(a, b)).At(3) },
		"NewNumberFromBigRat": func(_ string, a, b, c int) { v3.NewNumberFromBigRat(bigRat(a, b)).At(3) },
		"NewNumber": func(_ string, a, b, c int) {
			n := v3.NewNumber(apiGen{append(append([]int{}, pickSlice(a)...), b, c)})
			n.At(0)
			n.At(5)
			_ = n.String()
		},
		"NewNumberForTesting": func(_ string, a, b, c int) {
			n, err := v3.NewNumberForTesting(pickSlice(a), pickSlice(b), c)
			if err == nil {
				n.At(0)
				n.At(13)
				_ = n.String()
			}
		},
		"NewFiniteNumber": func(_ string, a, b, c int) {
			n, err := v3.NewFiniteNumber(pickSlice(a), b)
			if err == nil {
				n.At(c)
				_ = n.Exact()
			}
		},
		"FiniteNumber.At":       func(r string, a, b, c int) { fnum(r).At(a) },
		"FiniteNumber.Exponent": func(r string, a, b, c int) { fnum(r).Exponent(); var z v3.FiniteNumber; z.Exponent() },
		"FiniteNumber.IsZero":   func(r string, a, b, c int) { fnum(r).IsZero(); var z v3.FiniteNumber; z.IsZero() },
		"FiniteNumber.String":   func(r string, a, b, c int) { _ = fnum(r).String(); var z v3.FiniteNumber; _ = z.String() },
		"FiniteNumber.Exact":    func(r string, a, b, c int) { _ = fnum(r).Exact(); var z v3.FiniteNumber; _ = z.Exact() },
		"FiniteNumber.Format": func(r string, a, b, c int) {
			n := fnum(r)
			_ = fmt.Sprintf("%10.3f|%-5g|%e|%v|%d|%+#08.2x", n, n, n, n, n, n)
			var z v3.FiniteNumber
			_ = fmt.Sprintf("%v %f %5e", &z, &z, &z)
		},
		"FiniteNumber.WithStart":       func(r string, a, b, c int) { _, s, _, _ := recv3(r); drain3(s.WithStart(a).WithEnd(60).Iterator()) },
		"FiniteNumber.FiniteWithStart": func(r string, a, b, c int) { drain3(fin(r).FiniteWithStart(a).FiniteWithStart(b).Reverse()) },
		"FiniteNumber.WithEnd": func(r string, a, b, c int) {
			_, s, _, _ := recv3(r)
			drain3(s.WithEnd(a).WithStart(b).WithEnd(60).Iterator())
		},
		"FiniteNumber.WithSignificant": func(r string, a, b, c int) {
			n, _, _, _ := recv3(r)
			if n == nil {
				n = fnum(r)
			}
			n.WithSignificant(a).At(0)
		},
		"FiniteNumber.All": func(r string, a, b, c int) {
			for range fin(r).All() {
			}
		},
		"FiniteNumber.Values": func(r string, a, b, c int) {
			for range fin(r).Values() {
			}
		},
		"FiniteNumber.Backward": func(r string, a, b, c int) {
			for range fin(r).Backward() {
			}
		},
		"FiniteNumber.Iterator": func(r string, a, b, c int) { drain3(fin(r).Iterator()) },
		"FiniteNumber.Reverse":  func(r string, a, b, c int) { drain3(fin(r).Reverse()) },
		"AsString":              func(r string, a, b, c int) { v3.AsString(fin(r)) },
		"DigitsToString":        func(r string, a, b, c int) { v3.DigitsToString(fin(r)) },
		"Matches": func(r string, a, b, c int) {
			for range v3.Matches(fin(r), pickSlice(a)) {
			}
		},
		"BackwardMatches": func(r string, a, b, c int) {
			for range v3.BackwardMatches(fin(r), pickSlice(a)) {
			}
		},
		"Find":       func(r string, a, b, c int) { drainInts(v3.Find(fin(r), pickSlice(a))) },
		"FindR":      func(r string, a, b, c int) { drainInts(v3.FindR(fin(r), pickSlice(a))) },
		"FindAll":    func(r string, a, b, c int) { v3.FindAll(fin(r), pickSlice(a)) },
		"FindFirst":  func(r string, a, b, c int) { v3.FindFirst(fin(r), pickSlice(a)) },
		"FindFirstN": func(r string, a, b, c int) { v3.FindFirstN(fin(r), pickSlice(a), b) },
		"FindLast":   func(r string, a, b, c int) { v3.FindLast(fin(r), pickSlice(a)) },
		"FindLastN":  func(r string, a, b, c int) { v3.FindLastN(fin(r), pickSlice(a), b) },
		"PositionsBuilder.Add": func(r string, a, b, c int) {
			var pb v3.PositionsBuilder
			pb.Add(a).Add(b).Add(c)
			p := pb.Build()
			p.End()
		},
		"PositionsBuilder.AddRange": func(r string, a, b, c int) {
			var pb v3.PositionsBuilder
			pb.AddRange(a, b).AddRange(c, a).AddRange(b, c)
			p := pb.Build()
			for range p.All() {
			}
		},
		"PositionsBuilder.Build": func(r string, a, b, c int) {
			var pb v3.PositionsBuilder
			pb.Build()
			pb.Add(a)
			pb.Build()
			pb.Build()
			// a builder is reusable after Build, whatever order its ranges came in
			pb.Add(b).Add(a).Add(c).AddRange(a-2, a-1)
			pb.Build()
			pb.AddRange(c, b)
			pb.Add(a)
			pb.Build()
			pb.AddRange(b, c).AddRange(a, b)
			pb.Build()
			pb.Add(c)
		},
		"Positions.End":    func(r string, a, b, c int) { var p v3.Positions; p.End(); v3.UpTo(a).End() },
		"Positions.Ranges": func(r string, a, b, c int) { var p v3.Positions; it := p.Ranges(); it(); it() },
		"Positions.All": func(r string, a, b, c int) {
			var p v3.Positions
			for range p.All() {
			}
			for range v3.Between(a, b).All() {
				break
			}
		},
		"UpTo":            func(r string, a, b, c int) { v3.UpTo(a) },
		"Between":         func(r string, a, b, c int) { v3.Between(a, b) },
		"DigitsPerRow":    func(r string, a, b, c int) { v3.Swrite(fin(r), v3.DigitsPerRow(a), v3.DigitsPerColumn(b)) },
		"DigitsPerColumn": func(r string, a, b, c int) { v3.Swrite(fin(r), v3.DigitsPerColumn(a), v3.DigitsPerRow(b)) },
		"ShowCount":       func(r string, a, b, c int) { v3.Swrite(fin(r), v3.ShowCount(a%2 == 0), v3.DigitsPerRow(b)) },
		"MissingDigit": func(r string, a, b, c int) {
			_, s, _, _ := recv3(r)
			v3.Sprint(s, v3.Between(3, 30), v3.MissingDigit(rune(a)))
		},
		"TrailingLF":     func(r string, a, b, c int) { v3.Swrite(fin(r), v3.TrailingLF(a%2 == 0), v3.DigitsPerRow(b)) },
		"LeadingDecimal": func(r string, a, b, c int) { v3.Swrite(fin(r), v3.LeadingDecimal(a%2 == 0), v3.DigitsPerRow(b)) },
		"Sprint": func(r string, a, b, c int) {
			_, s, _, _ := recv3(r)
			lo, hi := a, b
			if r == "I" && hi > lo+200 {
				hi = lo + 200 // an endless receiver computes every digit up to the end of the request
			}
			// finite receivers: any positions, however far (the row labels grow with the end of the request)
			v3.Sprint(s, v3.Between(lo, hi), v3.DigitsPerRow(c))
		},
		"Swrite": func(r string, a, b, c int) {
			v3.Swrite(fin(r), v3.DigitsPerRow(a), v3.DigitsPerColumn(b), v3.MissingDigit(rune(c)))
		},
		"Fprint": func(r string, a, b, c int) {
			_, s, _, _ := recv3(r)
			v3.Fprint(io.Discard, s, v3.UpTo(40), v3.DigitsPerRow(a), v3.DigitsPerColumn(b))
		},
		"Fwrite": func(r string, a, b, c int) { v3.Fwrite(io.Discard, fin(r), v3.DigitsPerRow(a), v3.DigitsPerColumn(b)) },
		"Print": func(r string, a, b, c int) {
			_, s, _, _ := recv3(r)
			withStdoutDiscarded(func() { v3.Print(s, v3.UpTo(20), v3.DigitsPerRow(a)) })
		},
		"Write": func(r string, a, b, c int) { withStdoutDiscarded(func() { v3.Write(fin(r), v3.DigitsPerRow(a)) }) },
	}
	return m
}

var apiTables = map[string]map[string]apiFn{"v1": api1(), "v2": api2(), "v3": api3()}

func runApi(c *Case) []string {
	a := &cur{t: c.Args}
	name, recv := a.next(), a.next()
	i1, i2, i3 := a.int(), a.int(), a.int()
	f, ok := apiTables[c.Ver][name]
	if !ok {
		return []string{"NOAPI"}
	}
	f(recv, i1, i2, i3)
	return []string{"OK"}
}

var apiGrid = []int{MinInt, MinInt + 1, -1000, -2, -1, 0, 1, 2, 3, 5, 99, 100, 101, 1000, MaxInt - 1, MaxInt}

func genC16(tier string, r *Rng, emit func(Case)) {
	reps := 30
	if tier == "thorough" {
		reps = 2000
	}
	for _, ver := range allVers {
		for name := range apiTables[ver] {
			_ = name
		}
	}
	// deterministic order
	for _, ver := range allVers {
		names := make([]string, 0, len(apiTables[ver]))
		for n := range apiTables[ver] {
			names = append(names, n)
		}
		sortStrings(names)
		for _, name := range names {
			for k := 0; k < reps; k++ {
				recv := []string{"Z", "F", "I", "W"}[r.Intn(4)]
				i1, i2, i3 := r.Pick(apiGrid), r.Pick(apiGrid), r.Pick(apiGrid)
				if k < len(apiGrid) {
					i1 = apiGrid[k] // every grid value as first argument at least once
				}
				// materialisation guards on the implementation side: an endless receiver is never asked for a far position
				if recv == "I" && (name == "Number.At" || name == "FiniteNumber.At") && (i1 > 500) {
					i1 = 500
				}
				if recv == "I" && (name == "Number.WithStart" || name == "FiniteNumber.WithStart" || name == "Sprint") && i1 > 500 {
					i1 = 77
				}
				if recv == "I" && (name == "Number.WithEnd" || name == "FiniteNumber.WithEnd") && i2 > 500 {
					i2 = 12
				}
				if recv == "I" && name == "Number.IteratorAt" && i1 > 500 {
					i1 = 9
				}
				emit(Case{Ver: ver, Op: "Api", Args: toks{name, recv, itoa(i1), itoa(i2), itoa(i3)}})
			}
		}
	}
	// legal calls made from several goroutines at once do not panic either (print and format cases in parallel)
	np := 30
	if tier == "thorough" {
		np = 300
	}
	genPar(r, emit, "C10", 40, np)
	genPar(r, emit, "C08", 100, np)
}

func sortStrings(s []string) {
	for i := 1; i < len(s); i++ {
		for j := i; j > 0 && s[j] < s[j-1]; j-- {
			s[j], s[j-1] = s[j-1], s[j]
		}
	}
}

func init() {
	register("C16", genC16, map[string]runner{"Api": runApi, "Par": runPar})
}
