package main

import (
	"iter"
	"sync"
)

// Read histories over one Number and views derived from it (C04, C07, C17, and with counting sources C06).
//
//	Hist <T|G> nraw raw.. nrep rep.. exp nops op..   =>  answers (flattened, all integers)
//
// ops (view indices start at 0 = the base Number; every derive op appends a view; NEW appends an iterator):
//
//	WS i a | WE i a | FWS i a | WSG i a    derive            answer: tag fs pf nm exp zero   | -9 when not applicable
//	AT i p                                 Number.At         answer: digit | -9
//	NEW i kind [p]                         pull iterator     kinds F B I1 R1 IA1(p), P = v3 iter.Pull2 over All() (a push iterator
//	                                       suspended inside its loop body while other reads happen); answer: 0 | -9
//	NX id                                  one pull          answer: pos val | -1 -1      (pos -2: kind has no positions)
//	RUN i kind k                           push iterator A V K, stop after k items (k<0: all); answer: cnt (pos val)*
//	STR i                                  AsString          answer: cnt d*
//	ND i                                   v1 NumDigits      answer: n | -9
//	CNT                                    (counting sources) answer: calls afterEnd reentrant, after the producer quiesced
const NA = -9

type histState struct {
	ver   string
	views []View
	its   []pullFn
	stops []func()
	src   *Source
}

func parseBase(a *cur) (kind string, raw, rep []int, exp int) {
	kind = a.next()
	raw = a.ints()
	rep = a.ints()
	exp = a.int()
	return
}

func runHist(c *Case) []string {
	a := &cur{t: c.Args}
	kind, raw, rep, exp := parseBase(a)
	base, src, errs := makeTestNumber(c.Ver, kind, raw, rep, exp)
	if errs != "" {
		return []string{errs}
	}
	st := &histState{ver: c.Ver, views: []View{base}, src: src}
	n := a.int()
	return execHist(st, a, n)
}

// runConc: the same base Number read by several goroutines at once, each running its own history
// (views and iterators are per goroutine; the Number and its memoizer are shared).
//
//	Conc <T|G> nraw.. nrep.. exp  g  nops_1 op.. nops_2 op.. ...   =>  ntok_1 answers_1 ntok_2 answers_2 ...
func runConc(c *Case) []string {
	a := &cur{t: c.Args}
	kind, raw, rep, exp := parseBase(a)
	base, src, errs := makeTestNumber(c.Ver, kind, raw, rep, exp)
	if errs != "" {
		return []string{errs}
	}
	g := a.int()
	// split the argument tokens per goroutine first (parsing is sequential)
	progs := make([][]string, g)
	counts := make([]int, g)
	for i := 0; i < g; i++ {
		n := a.int()
		counts[i] = n
		start := a.i
		for k := 0; k < n; k++ {
			skipHistOp(a)
		}
		progs[i] = a.t[start:a.i]
	}
	answers := make([]toks, g)
	var wg sync.WaitGroup
	for i := 0; i < g; i++ {
		wg.Add(1)
		go func(i int) {
			defer wg.Done()
			defer func() {
				if e := recover(); e != nil {
					answers[i] = toks{"PANIC"}
				}
			}()
			st := &histState{ver: c.Ver, views: []View{base}, src: src}
			answers[i] = execHist(st, &cur{t: progs[i]}, counts[i])
		}(i)
	}
	wg.Wait()
	var out toks
	for i := 0; i < g; i++ {
		out.i(len(answers[i]))
		out = append(out, answers[i]...)
	}
	return out
}

// skipHistOp advances the cursor over one history op.
func skipHistOp(a *cur) {
	switch a.next() {
	case "WS", "WE", "FWS", "WSG", "AT":
		a.next()
		a.next()
	case "NEW":
		a.next()
		if a.next() == "IA1" {
			a.next()
		}
	case "NX", "STR", "ND":
		a.next()
	case "RUN":
		a.next()
		a.next()
		a.next()
	case "RR":
		a.next()
		a.next()
		a.next()
		a.next()
	case "CNT":
	}
}

func execHist(st *histState, a *cur, n int) toks {
	var out toks
	derived := func(v View, ok bool) {
		if !ok {
			out.i(NA)
			st.views = append(st.views, v)
			return
		}
		st.views = append(st.views, v)
		tag, fs, pf, nm := v.Tag()
		e, z := v.ExpZero()
		out.i(tag)
		out.bool(fs)
		out.bool(pf)
		out.bool(nm)
		out.i(e)
		out.bool(z)
	}
	for k := 0; k < n; k++ {
		op := a.next()
		switch op {
		case "WS":
			i, x := a.int(), a.int()
			derived(st.views[i].WithStart(x), true)
		case "WE":
			i, x := a.int(), a.int()
			derived(st.views[i].WithEnd(x), true)
		case "FWS":
			i, x := a.int(), a.int()
			v, ok := st.views[i].FiniteWithStart(x)
			derived(v, ok)
		case "WSG":
			i, x := a.int(), a.int()
			v, ok := st.views[i].WithSignificant(x)
			derived(v, ok)
		case "AT":
			i, p := a.int(), a.int()
			if !st.views[i].IsNumber() {
				out.i(NA)
			} else {
				out.i(st.views[i].At(p))
			}
		case "NEW":
			i := a.int()
			kind := a.next()
			v := st.views[i]
			var it pullFn
			switch kind {
			case "F":
				it = v.Fwd()
			case "P":
				if v.ver == "v3" {
					next, stop := iter.Pull2(v.s3.All())
					st.stops = append(st.stops, stop)
					it = func() (int, int, bool) { return next() }
				} else {
					it = v.Fwd()
				}
			case "B":
				it, _ = v.Bwd()
			case "I1":
				if v.ver == "v1" && v.num1() != nil {
					it = intsPull(v.num1().Iterator())
				}
			case "R1":
				if v.ver == "v1" && v.num1() != nil {
					it = intsPull(v.num1().Reverse())
				}
			case "IA1":
				p := a.int()
				if v.ver == "v1" && v.num1() != nil {
					f := v.num1().IteratorAt(p)
					it = intsPull(f)
				}
			}
			st.its = append(st.its, it)
			if it == nil {
				out.i(NA)
			} else {
				out.i(0)
			}
		case "NX":
			id := a.int()
			it := st.its[id]
			if it == nil {
				out.i(NA)
				break
			}
			p, d, ok := it()
			if !ok {
				out.i(-1)
				out.i(-1)
			} else {
				out.i(p)
				out.i(d)
			}
		case "RUN":
			i := a.int()
			kind := a.next()
			k := a.int()
			items, ok := st.views[i].RunPush(kind, k)
			if !ok {
				out.i(NA)
				break
			}
			out.i(len(items))
			for _, it := range items {
				out.i(it[0])
				out.i(it[1])
			}
		case "RR":
			i := a.int()
			kind := a.next()
			k1, k2 := a.int(), a.int()
			two, ok := st.views[i].RunPushTwice(kind, k1, k2)
			if !ok {
				out.i(NA)
				out.i(NA)
				break
			}
			for _, items := range two {
				out.i(len(items))
				for _, it := range items {
					out.i(it[0])
					out.i(it[1])
				}
			}
		case "STR":
			i := a.int()
			v := st.views[i]
			if v.ver == "v3" {
				f := v.fin3()
				if f == nil {
					out.i(NA)
					break
				}
				s := v3AsString(f)
				out.i(len(s))
				for _, ch := range s {
					out.i(int(ch - '0'))
				}
			} else {
				items, _ := v.RunPush("V", -1)
				out.i(len(items))
				for _, it := range items {
					out.i(it[1])
				}
			}
		case "ND":
			i := a.int()
			v := st.views[i]
			if v.ver == "v1" && v.num1() != nil {
				out.i(v.num1().NumDigits())
			} else {
				out.i(NA)
			}
		case "CNT":
			calls, after, re := quiesce(st.src)
			out.i(calls)
			out.i(after)
			out.i(re)
		default:
			panic("bad hist op " + op)
		}
	}
	for _, stop := range st.stops {
		stop()
	}
	return out
}
