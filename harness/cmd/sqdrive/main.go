// sqdrive: case generator and implementation runner for the correspondence
// check. It links the three module versions of keep94/sqroot (built from
// /repo's working tree with -tags verif) into one binary.
//
//	sqdrive gen -prop C11 -tier quick -seed 1   generates cases, runs them on
//	                                             the implementation, prints
//	                                             "<prop> <id> <ver> <op> <args..> => <obs..>"
//	sqdrive run < inputs                         re-runs lines (anything after
//	                                             "=>" is ignored and recomputed)
package main

import (
	"bufio"
	"flag"
	"fmt"
	"os"
	"sort"
	"strings"
	"time"
)

// A Case is one operation on one version with tokenised arguments.
type Case struct {
	Prop string
	Ver  string
	Op   string
	Args []string
}

// runner executes one case on the implementation and returns the observation
// tokens.
type runner func(c *Case) []string

// generator emits the cases of a property for a tier from a seeded PRNG.
type generator func(tier string, rng *Rng, emit func(c Case))

var runners = map[string]runner{}       // key: prop + "/" + op
var generators = map[string]generator{} // key: prop

func register(prop string, g generator, ops map[string]runner) {
	generators[prop] = g
	for op, r := range ops {
		runners[prop+"/"+op] = r
	}
}

// caseBudget is the wall-clock budget of one case; a case that exceeds it is observed as TIMEOUT (the model
// proves termination of every generated case, so this is a disagreement, never a normal-looking value).
var caseBudget = 8 * time.Second

// timeouts counts cases that exceeded the budget; generation stops after a few (each costs the whole budget).
var timeouts int

func runCase(c *Case) []string {
	r, ok := runners[c.Prop+"/"+c.Op]
	if !ok {
		return []string{"NOOP"}
	}
	done := make(chan []string, 1)
	go func() {
		defer func() {
			if e := recover(); e != nil {
				done <- []string{"PANIC", sanitize(fmt.Sprint(e))}
			}
		}()
		done <- r(c)
	}()
	select {
	case obs := <-done:
		return obs
	case <-time.After(caseBudget):
		timeouts++
		return []string{"TIMEOUT"}
	}
}

func sanitize(s string) string {
	s = strings.Map(func(r rune) rune {
		if r <= ' ' || r > '~' {
			return '_'
		}
		return r
	}, s)
	if len(s) > 60 {
		s = s[:60]
	}
	if s == "" {
		s = "_"
	}
	return s
}

func main() {
	if len(os.Args) < 2 {
		fmt.Fprintln(os.Stderr, "usage: sqdrive gen|run|props ...")
		os.Exit(2)
	}
	switch os.Args[1] {
	case "gen":
		fs := flag.NewFlagSet("gen", flag.ExitOnError)
		prop := fs.String("prop", "", "property id")
		tier := fs.String("tier", "quick", "quick|thorough")
		seed := fs.Uint64("seed", 1, "seed")
		begin := fs.Bool("begin", false, "print and flush BEGIN <case> before running each case (to attribute a crash of the process)")
		fs.Parse(os.Args[2:])
		g, ok := generators[*prop]
		if !ok {
			fmt.Fprintln(os.Stderr, "no generator for", *prop)
			os.Exit(2)
		}
		w := bufio.NewWriterSize(os.Stdout, 1<<20)
		defer w.Flush()
		id := 0
		g(*tier, NewRng(*seed), func(c Case) {
			if timeouts >= 3 {
				return
			}
			c.Prop = *prop
			id++
			if *begin {
				fmt.Fprintf(w, "BEGIN %s %d %s %s %s\n", c.Prop, id, c.Ver, c.Op, strings.Join(c.Args, " "))
				w.Flush()
			}
			obs := runCase(&c)
			fmt.Fprintf(w, "%s %d %s %s %s => %s\n", c.Prop, id, c.Ver, c.Op,
				strings.Join(c.Args, " "), strings.Join(obs, " "))
		})
	case "run":
		w := bufio.NewWriterSize(os.Stdout, 1<<20)
		defer w.Flush()
		sc := bufio.NewScanner(os.Stdin)
		sc.Buffer(make([]byte, 1<<20), 1<<28)
		for sc.Scan() {
			line := sc.Text()
			if i := strings.Index(line, "=>"); i >= 0 {
				line = line[:i]
			}
			f := strings.Fields(line)
			if len(f) < 4 {
				continue
			}
			c := Case{Prop: f[0], Ver: f[2], Op: f[3], Args: f[4:]}
			obs := runCase(&c)
			fmt.Fprintf(w, "%s %s %s %s %s => %s\n", c.Prop, f[1], c.Ver, c.Op,
				strings.Join(c.Args, " "), strings.Join(obs, " "))
		}
	case "apinames":
		for _, v := range allVers {
			var names []string
			for n := range apiTables[v] {
				names = append(names, n)
			}
			sort.Strings(names)
			for _, n := range names {
				fmt.Println(v, n)
			}
		}
	case "props":
		var ps []string
		for p := range generators {
			ps = append(ps, p)
		}
		sort.Strings(ps)
		fmt.Println(strings.Join(ps, " "))
	default:
		fmt.Fprintln(os.Stderr, "unknown mode", os.Args[1])
		os.Exit(2)
	}
}
