// mutgen enumerates first-order operator mutants of the library's non-test Go sources (relational, arithmetic and
// logical operators, small integer literals, negations) as JSON lines {file, offset, old, new, line, fn}.
// The sweep (bin/mutsweep) applies each one to a private copy of the repository, keeps those that still compile
// and pass the repository's own tests, and runs the property checks against the survivors.
package main

import (
	"encoding/json"
	"flag"
	"fmt"
	"go/ast"
	"go/parser"
	"go/token"
	"os"
	"path/filepath"
	"strings"
)

type mutant struct {
	File   string `json:"file"`
	Offset int    `json:"offset"`
	Old    string `json:"old"`
	New    string `json:"new"`
	Line   int    `json:"line"`
	Fn     string `json:"fn"`
}

var swaps = map[token.Token][]string{
	token.LSS: {"<="}, token.LEQ: {"<"}, token.GTR: {">="}, token.GEQ: {">"},
	token.EQL: {"!="}, token.NEQ: {"=="},
	token.ADD: {"-"}, token.SUB: {"+"},
	token.LAND: {"||"}, token.LOR: {"&&"},
	token.REM: {"/"},
}

func main() {
	repo := flag.String("repo", "/repo", "repository root")
	ops := flag.String("ops", "operators", "operators | statements (statement deletion, conditions forced true / false)")
	flag.Parse()
	enc := json.NewEncoder(os.Stdout)
	for _, d := range []string{"", "v2", "v3"} {
		files, _ := filepath.Glob(filepath.Join(*repo, d, "*.go"))
		for _, f := range files {
			base := filepath.Base(f)
			if strings.HasSuffix(base, "_test.go") || strings.HasPrefix(base, "verif_hooks") {
				continue
			}
			fset := token.NewFileSet()
			src, err := os.ReadFile(f)
			if err != nil {
				continue
			}
			af, err := parser.ParseFile(fset, f, src, 0)
			if err != nil {
				fmt.Fprintln(os.Stderr, err)
				continue
			}
			rel, _ := filepath.Rel(*repo, f)
			for _, decl := range af.Decls {
				fd, ok := decl.(*ast.FuncDecl)
				if !ok || fd.Body == nil {
					continue
				}
				name := fd.Name.Name
				if fd.Recv != nil && len(fd.Recv.List) > 0 {
					name = exprString(fd.Recv.List[0].Type) + "." + name
				}
				emit := func(pos token.Pos, old, new string) {
					p := fset.Position(pos)
					if string(src[p.Offset:p.Offset+len(old)]) != old {
						return
					}
					enc.Encode(mutant{File: rel, Offset: p.Offset, Old: old, New: new, Line: p.Line, Fn: name})
				}
				span := func(from, to token.Pos, new string) {
					a, b := fset.Position(from).Offset, fset.Position(to).Offset
					enc.Encode(mutant{File: rel, Offset: a, Old: string(src[a:b]), New: new, Line: fset.Position(from).Line, Fn: name})
				}
				if *ops == "statements" {
					ast.Inspect(fd.Body, func(n ast.Node) bool {
						switch x := n.(type) {
						case *ast.ExprStmt:
							span(x.Pos(), x.End(), "{}")
						case *ast.AssignStmt:
							if x.Tok != token.DEFINE {
								span(x.Pos(), x.End(), "{}")
							}
						case *ast.IncDecStmt:
							span(x.Pos(), x.End(), "{}")
						case *ast.IfStmt:
							span(x.Cond.Pos(), x.Cond.End(), "true")
							span(x.Cond.Pos(), x.Cond.End(), "false")
						case *ast.ForStmt:
							if x.Cond != nil {
								span(x.Cond.Pos(), x.Cond.End(), "false")
							}
						case *ast.BranchStmt:
							if x.Tok == token.BREAK && x.Label == nil {
								span(x.Pos(), x.End(), "continue")
							}
						case *ast.DeferStmt:
							span(x.Pos(), x.End(), "{}")
						}
						return true
					})
					continue
				}
				ast.Inspect(fd.Body, func(n ast.Node) bool {
					switch x := n.(type) {
					case *ast.BinaryExpr:
						if isString(x.X) || isString(x.Y) {
							return true
						}
						for _, r := range swaps[x.Op] {
							emit(x.OpPos, x.Op.String(), r)
						}
					case *ast.UnaryExpr:
						if x.Op == token.NOT {
							emit(x.OpPos, "!", "")
						}
					case *ast.BasicLit:
						if x.Kind == token.INT {
							switch x.Value {
							case "0":
								emit(x.ValuePos, "0", "1")
							case "1":
								emit(x.ValuePos, "1", "0")
								emit(x.ValuePos, "1", "2")
							case "2":
								emit(x.ValuePos, "2", "1")
							}
						}
					case *ast.IncDecStmt:
						if x.Tok == token.INC {
							emit(x.TokPos, "++", "--")
						}
					}
					return true
				})
			}
		}
	}
}

func isString(e ast.Expr) bool {
	b, ok := e.(*ast.BasicLit)
	return ok && b.Kind == token.STRING
}

func exprString(e ast.Expr) string {
	switch x := e.(type) {
	case *ast.StarExpr:
		return exprString(x.X)
	case *ast.Ident:
		return x.Name
	case *ast.IndexExpr:
		return exprString(x.X)
	}
	return "?"
}
