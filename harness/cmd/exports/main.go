// exports: lists the exported functions and methods (on exported or unexported receiver types reachable through
// exported interfaces) of the three packages, one "<ver> <name>" per line, from the sources (go/parser).
package main

import (
	"flag"
	"fmt"
	"go/ast"
	"go/parser"
	"go/token"
	"os"
	"path/filepath"
	"sort"
	"strings"
)

func main() {
	repo := flag.String("repo", "/repo", "repository root")
	sigs := flag.Bool("sigs", false, "print the parameter types of the exported top-level functions: <ver> <name>(<type>, ...)")
	flag.Parse()
	var out []string
	for _, ver := range []struct{ name, dir string }{{"v1", ""}, {"v2", "v2"}, {"v3", "v3"}} {
		fset := token.NewFileSet()
		pkgs, err := parser.ParseDir(fset, filepath.Join(*repo, ver.dir), func(fi os.FileInfo) bool {
			return !strings.HasSuffix(fi.Name(), "_test.go") && !strings.HasPrefix(fi.Name(), "verif_hooks")
		}, 0)
		if err != nil {
			fmt.Fprintln(os.Stderr, err)
			os.Exit(1)
		}
		for _, pkg := range pkgs {
			for _, f := range pkg.Files {
				for _, d := range f.Decls {
					fd, ok := d.(*ast.FuncDecl)
					if !ok || !fd.Name.IsExported() {
						continue
					}
					name := fd.Name.Name
					if fd.Recv != nil && len(fd.Recv.List) == 1 {
						t := fd.Recv.List[0].Type
						if st, ok := t.(*ast.StarExpr); ok {
							t = st.X
						}
						if id, ok := t.(*ast.Ident); ok {
							if !id.IsExported() {
								continue // methods of unexported types are reached through the exported interfaces
							}
							name = id.Name + "." + name
						}
					}
					if *sigs {
						if fd.Recv != nil {
							continue
						}
						var ps []string
						for _, fl := range fd.Type.Params.List {
							n := len(fl.Names)
							if n == 0 {
								n = 1
							}
							for k := 0; k < n; k++ {
								ps = append(ps, typeString(fl.Type))
							}
						}
						out = append(out, ver.name+" "+name+"("+strings.Join(ps, ", ")+")")
						continue
					}
					out = append(out, ver.name+" "+name)
				}
			}
		}
	}
	sort.Strings(out)
	fmt.Println(strings.Join(out, "\n"))
}

func typeString(e ast.Expr) string {
	switch x := e.(type) {
	case *ast.Ident:
		return x.Name
	case *ast.StarExpr:
		return "*" + typeString(x.X)
	case *ast.SelectorExpr:
		return typeString(x.X) + "." + x.Sel.Name
	case *ast.ArrayType:
		return "[]" + typeString(x.Elt)
	case *ast.Ellipsis:
		return "..." + typeString(x.Elt)
	case *ast.FuncType:
		return "func"
	case *ast.InterfaceType:
		return "interface"
	}
	return "?"
}
